module verif

go 1.23

require (
	github.com/aundis/formula v0.0.0
	github.com/ericlagergren/decimal v0.0.0-20221120152707-495c53812d05
	pgregory.net/rapid v1.3.0
)

replace github.com/aundis/formula => /repo
