// Package h is the bookkeeping layer shared by all property checks: tier and
// shard parameters, case counters, distinct/non-trivial accounting, samples,
// violation replay files, and the per-process statistics file that the driver
// (/verif/check) merges into evidence/<ID>.json.
package h

import (
	"crypto/sha256"
	"encoding/binary"
	"encoding/hex"
	"encoding/json"
	"flag"
	"fmt"
	"hash/fnv"
	"os"
	"path/filepath"
	"sort"
	"strconv"
	"strings"
	"sync"
	"testing"
)

// Tier is "quick" or "thorough".
func Tier() string {
	if os.Getenv("VERIF_TIER") == "thorough" {
		return "thorough"
	}
	return "quick"
}

// N picks a size by tier.
func N(quick, thorough int) int {
	if Tier() == "thorough" {
		return thorough
	}
	return quick
}

// Seed is VERIF_SEED remapped so that it is never 0 (rapid treats 0 as random).
func Seed() int64 {
	s, err := strconv.ParseInt(os.Getenv("VERIF_SEED"), 10, 64)
	if err != nil || s == 0 {
		s = 20260926
	}
	if s < 0 {
		s = -s
	}
	return s
}

// Shard returns (index, count) from VERIF_SHARD="i/n" (default 0/1).
func Shard() (int, int) {
	p := strings.Split(os.Getenv("VERIF_SHARD"), "/")
	if len(p) == 2 {
		i, e1 := strconv.Atoi(p[0])
		n, e2 := strconv.Atoi(p[1])
		if e1 == nil && e2 == nil && n > 0 && i >= 0 && i < n {
			return i, n
		}
	}
	return 0, 1
}

// Mine reports whether enumeration item idx belongs to this shard.
func Mine(idx int64) bool {
	i, n := Shard()
	return idx%int64(n) == int64(i)
}

// RapidSetup sets rapid's flags for one rapid.Check call: the number of checks
// (divided over shards) and a seed derived from VERIF_SEED, the shard and a
// per-call salt. No rapid fail files are written or replayed.
func RapidSetup(checks int, salt string) {
	i, n := Shard()
	per := (checks + n - 1) / n
	if per < 1 {
		per = 1
	}
	hs := fnv.New64a()
	hs.Write([]byte(salt))
	seed := (Seed()*1000003+int64(i))*1000003 + int64(hs.Sum64()%1000003)
	if seed < 0 {
		seed = -seed
	}
	if seed == 0 {
		seed = 1
	}
	flag.Set("rapid.checks", strconv.Itoa(per))
	flag.Set("rapid.seed", strconv.FormatInt(seed, 10))
	flag.Set("rapid.nofailfile", "true")
	st := "10s"
	if Tier() == "thorough" {
		st = "30s"
	}
	flag.Set("rapid.shrinktime", st)
}

// Violation is one recorded failure.
type Violation struct {
	Replay string `json:"replay"`
	Msg    string `json:"msg"`
}

// Stats is what one test process reports for one (property, sub-check).
type Stats struct {
	Property    string           `json:"property"`
	Sub         string           `json:"sub"`
	Shard       string           `json:"shard"`
	Evaluations int64            `json:"evaluations"`
	Nontrivial  int64            `json:"nontrivial_distinct_by_construction"`
	Hashes      []uint64         `json:"hashes,omitempty"`
	Classes     map[string]int64 `json:"classes"`
	Samples     []interface{}    `json:"samples"`
	Exhaustive  bool             `json:"exhaustive"`
	Rule        string           `json:"rule"`
	Violations  []Violation      `json:"violations"`
	Known       []string         `json:"known_findings"`
	Notes       []string         `json:"notes"`
	Completed   bool             `json:"completed"`
}

// Run accumulates the statistics of one sub-check.
type Run struct {
	mu        sync.Mutex
	st        Stats
	hashes    map[uint64]struct{}
	perClass  map[string]int
	maxSample int
	pending   map[string]interface{} // failing case being shrunk, per slot
	pendMsg   map[string]string
}

var outDir = os.Getenv("VERIF_OUT")

// Begin starts a sub-check. rule describes generation and the non-trivial rule.
func Begin(property, sub, rule string) *Run {
	i, n := Shard()
	r := &Run{hashes: map[uint64]struct{}{}, perClass: map[string]int{}, maxSample: 3,
		pending: map[string]interface{}{}, pendMsg: map[string]string{}}
	r.st = Stats{Property: property, Sub: sub, Shard: fmt.Sprintf("%d/%d", i, n), Classes: map[string]int64{}, Rule: rule}
	return r
}

// Count records one generated case that is distinct by construction
// (enumerations). class is a histogram label.
func (r *Run) Count(nontrivial bool, class string) {
	r.mu.Lock()
	r.st.Evaluations++
	if nontrivial {
		r.st.Nontrivial++
	}
	if class != "" {
		r.st.Classes[class]++
	}
	r.mu.Unlock()
}

// CountKey records one generated case identified by key (random generation):
// non-trivial cases are de-duplicated by a 64-bit hash of the key.
func (r *Run) CountKey(key string, nontrivial bool, class string) {
	r.mu.Lock()
	r.st.Evaluations++
	if nontrivial {
		hs := fnv.New64a()
		hs.Write([]byte(key))
		r.hashes[hs.Sum64()] = struct{}{}
	}
	if class != "" {
		r.st.Classes[class]++
	}
	r.mu.Unlock()
}

// Class bumps a histogram label without counting a case.
func (r *Run) Class(class string) {
	r.mu.Lock()
	r.st.Classes[class]++
	r.mu.Unlock()
}

// Sample keeps up to three samples per class.
func (r *Run) Sample(class string, s interface{}) {
	r.mu.Lock()
	if r.perClass[class] < r.maxSample && len(r.st.Samples) < 40 {
		r.perClass[class]++
		r.st.Samples = append(r.st.Samples, map[string]interface{}{"class": class, "case": s})
	}
	r.mu.Unlock()
}

func (r *Run) Note(s string)  { r.mu.Lock(); r.st.Notes = append(r.st.Notes, s); r.mu.Unlock() }
func (r *Run) Exhaustive()    { r.mu.Lock(); r.st.Exhaustive = true; r.mu.Unlock() }
func (r *Run) Known(s string) { r.mu.Lock(); r.st.Known = append(r.st.Known, s); r.mu.Unlock() }

// Replay is the on-disk form of a failing case.
type Replay struct {
	Property string          `json:"property"`
	Kind     string          `json:"kind"`
	Msg      string          `json:"msg"`
	Case     json.RawMessage `json:"case"`
}

func replayDir() string {
	if d := os.Getenv("VERIF_REPLAYS"); d != "" {
		return d
	}
	return "/verif/replays"
}

// Pending remembers a failing case for slot (one rapid.Check call); during
// shrinking it is overwritten by each smaller failing case, so Flush writes
// the minimal one.
func (r *Run) Pending(slot, kind string, c interface{}, msg string) {
	r.mu.Lock()
	r.pending[slot] = map[string]interface{}{"kind": kind, "case": c}
	r.pendMsg[slot] = msg
	r.mu.Unlock()
}

// Fail records a violation immediately (enumerations): writes the replay file.
func (r *Run) Fail(kind string, c interface{}, msg string) {
	r.mu.Lock()
	defer r.mu.Unlock()
	if len(r.st.Violations) >= 3 {
		return
	}
	r.writeReplay(kind, c, msg)
}

func (r *Run) writeReplay(kind string, c interface{}, msg string) {
	raw, err := json.Marshal(c)
	if err != nil {
		raw, _ = json.Marshal(fmt.Sprintf("%#v", c))
	}
	rep := Replay{Property: r.st.Property, Kind: kind, Msg: msg, Case: raw}
	data, _ := json.MarshalIndent(rep, "", " ")
	sum := sha256.Sum256(append([]byte(kind), raw...))
	os.MkdirAll(replayDir(), 0o755)
	path := filepath.Join(replayDir(), fmt.Sprintf("%s-%s-%s.json", r.st.Property, kind, hex.EncodeToString(sum[:5])))
	os.WriteFile(path, data, 0o644)
	r.st.Violations = append(r.st.Violations, Violation{Replay: path, Msg: msg})
}

// NViolations returns how many violations were recorded so far.
func (r *Run) NViolations() int {
	r.mu.Lock()
	defer r.mu.Unlock()
	return len(r.st.Violations) + len(r.pending)
}

// End flushes pending failures, writes the statistics file and fails the test
// if there were violations.
func (r *Run) End(t testing.TB) {
	r.mu.Lock()
	slots := make([]string, 0, len(r.pending))
	for s := range r.pending {
		slots = append(slots, s)
	}
	sort.Strings(slots)
	for _, s := range slots {
		p := r.pending[s].(map[string]interface{})
		r.writeReplay(p["kind"].(string), p["case"], r.pendMsg[s])
	}
	r.pending = map[string]interface{}{}
	r.st.Completed = true
	r.st.Hashes = r.st.Hashes[:0]
	for hsh := range r.hashes {
		r.st.Hashes = append(r.st.Hashes, hsh)
	}
	sort.Slice(r.st.Hashes, func(i, j int) bool { return r.st.Hashes[i] < r.st.Hashes[j] })
	st := r.st
	r.mu.Unlock()
	if outDir != "" {
		os.MkdirAll(outDir, 0o755)
		i, _ := Shard()
		name := fmt.Sprintf("%s.%s.%d.json", st.Property, st.Sub, i)
		// hashes go to a side file (binary) to keep the JSON small
		hb := make([]byte, 8*len(st.Hashes))
		for k, v := range st.Hashes {
			binary.LittleEndian.PutUint64(hb[8*k:], v)
		}
		os.WriteFile(filepath.Join(outDir, name+".hashes"), hb, 0o644)
		st.Hashes = nil
		data, _ := json.MarshalIndent(st, "", " ")
		os.WriteFile(filepath.Join(outDir, name), data, 0o644)
	}
	for _, v := range st.Violations {
		t.Errorf("VIOLATION %s/%s: %s (replay %s)", st.Property, st.Sub, v.Msg, v.Replay)
	}
}

// Errf is a small helper building an error string.
func Errf(format string, a ...interface{}) string { return fmt.Sprintf(format, a...) }

// ---- replay registry -------------------------------------------------------

// ReplayFunc re-runs one saved case, bypassing all generators; it returns a
// non-empty message if the violation reproduces.
type ReplayFunc func(raw json.RawMessage) string

var replayFuncs = map[string]ReplayFunc{}

// RegisterReplay registers the checker for replay files of the given kind.
func RegisterReplay(kind string, f ReplayFunc) { replayFuncs[kind] = f }

// RunReplayFile loads a replay file and re-checks it.
func RunReplayFile(path string) (property, msg string, err error) {
	data, err := os.ReadFile(path)
	if err != nil {
		return "", "", err
	}
	var rep Replay
	if err := json.Unmarshal(data, &rep); err != nil {
		return "", "", err
	}
	f, ok := replayFuncs[rep.Kind]
	if !ok {
		return rep.Property, "", fmt.Errorf("no replay function for kind %q", rep.Kind)
	}
	return rep.Property, f(rep.Case), nil
}

// Decode is a helper for replay functions.
func Decode[T any](raw json.RawMessage) (T, error) {
	var v T
	err := json.Unmarshal(raw, &v)
	return v, err
}

// FailExisting records a violation whose replay file already exists.
func (r *Run) FailExisting(path, msg string) {
	r.mu.Lock()
	r.st.Violations = append(r.st.Violations, Violation{Replay: path, Msg: msg})
	r.mu.Unlock()
}

// KnownOpen reports whether the committed known-findings file lists an open
// (recorded, not repaired) finding with the given id. The file is only read.
func KnownOpen(id string) bool {
	data, err := os.ReadFile("/verif/known_findings.json")
	if err != nil {
		return false
	}
	var k struct {
		Open []struct {
			ID string `json:"id"`
		} `json:"open"`
	}
	if json.Unmarshal(data, &k) != nil {
		return false
	}
	for _, o := range k.Open {
		if o.ID == id {
			return true
		}
	}
	return false
}
