package obs

import (
	"math/big"

	"github.com/ericlagergren/decimal"
)

// Rat converts a formula number (as seen in arrays / host function arguments:
// *decimal.Big; at top level: float64) to an exact rational. ok is false for
// non-numbers and non-finite values.
func Rat(v interface{}) (*big.Rat, bool) {
	switch x := v.(type) {
	case *decimal.Big:
		if x == nil || !x.IsFinite() {
			return nil, false
		}
		r, ok := new(big.Rat).SetString(x.String())
		return r, ok
	case float64:
		r := new(big.Rat)
		if r.SetFloat64(x) == nil {
			return nil, false
		}
		return r, true
	case int:
		return new(big.Rat).SetInt64(int64(x)), true
	case int64:
		return new(big.Rat).SetInt64(x), true
	}
	return nil, false
}

// Int converts a formula number to an int64 if it is an integer.
func Int(v interface{}) (int64, bool) {
	r, ok := Rat(v)
	if !ok || !r.IsInt() || !r.Num().IsInt64() {
		return 0, false
	}
	return r.Num().Int64(), true
}

// IsNum reports whether v is a formula number.
func IsNum(v interface{}) bool {
	switch v.(type) {
	case *decimal.Big, float64:
		return true
	}
	return false
}
