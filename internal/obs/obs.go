// Package obs observes aundis/formula through its exported API only: guarded
// parse / evaluate calls, canonical tree dumps, tree walks.
package obs

import (
	"context"
	"fmt"
	"os"
	"reflect"
	"runtime"
	"strconv"
	"strings"
	"time"

	"github.com/aundis/formula"

	"verif/internal/ref"
)

// ParseOut is the observation of one ParseSourceCode call.
type ParseOut struct {
	Src   *formula.SourceCode
	Err   error
	Panic interface{}
}

// Parse calls ParseSourceCode under recover.
func Parse(text []byte) (out ParseOut) {
	defer func() {
		if p := recover(); p != nil {
			out.Panic = p
		}
	}()
	if len(text) > 4096 {
		out.Src, out.Err = formula.ParseSourceCode(text)
		return
	}
	// the library gets the text as a slice of a larger buffer, the way a
	// line cut out of a file arrives: the bytes around it are not its own
	buf := make([]byte, 0, len(parseGuard)*2+len(text))
	buf = append(buf, parseGuard...)
	buf = append(buf, text...)
	buf = append(buf, parseGuard...)
	in := buf[len(parseGuard) : len(parseGuard)+len(text)]
	out.Src, out.Err = formula.ParseSourceCode(in)
	if string(in) != string(text) {
		// the text is the caller's: parsing reads it
		out.Panic = fmt.Sprintf("ParseSourceCode modified the text it was given: %q became %q", text, in)
	} else if string(buf[:len(parseGuard)]) != parseGuard || string(buf[len(parseGuard)+len(text):]) != parseGuard {
		out.Panic = fmt.Sprintf("ParseSourceCode of %q wrote outside the text it was given: the bytes around it in the caller's buffer became %q and %q, were %q", text, buf[:len(parseGuard)], buf[len(parseGuard)+len(text):], parseGuard)
	}
	return
}

// parseGuard surrounds the text handed to the library in Parse.
const parseGuard = " + 1 ) ] ' "

// OK reports an accepted parse.
func (p ParseOut) OK() bool { return p.Panic == nil && p.Err == nil && p.Src != nil }

// EvalOut is the observation of one Resolve call.
type EvalOut struct {
	Val   interface{}
	Err   error
	Panic interface{}
}

func (e EvalOut) String() string {
	if e.Panic != nil {
		return fmt.Sprintf("PANIC(%v)", e.Panic)
	}
	if e.Err != nil {
		return fmt.Sprintf("ERR(%v)", e.Err)
	}
	return fmt.Sprintf("VAL(%T %v)", e.Val, Show(e.Val))
}

// Eval calls Resolve under recover.
func Eval(r *formula.Runner, ctx context.Context, e formula.Expression) (out EvalOut) {
	defer func() {
		if p := recover(); p != nil {
			out.Panic = p
		}
	}()
	out.Val, out.Err = r.Resolve(ctx, e)
	return
}

// Perturb, when set, is called before every PerturbEvery-th EvalText call. The
// checks use it to interleave evaluations of unrelated formulas (other
// builtins, other operators) with their own cases: on a correct library this
// changes nothing, but state that some other feature leaves behind in the
// process then shows up in the check's own oracle.
var (
	Perturb      func()
	PerturbEvery = 37
	perturbCount int
)

var disturber *formula.SourceCode

var usedRunner *formula.Runner

// usedMap is the caller's map that usedRunner holds while usedHolds is set.
var usedMap = map[string]interface{}{}

var usedHolds bool

// holder is a long-lived runner over its own map; $__held there is the previous call's result.
var holder *formula.Runner

var holderMap = map[string]interface{}{}

var heldWant, heldFrom string

// replaying: a saved case is re-run on its own; both ways of handing data to the used runner are tried in turn.
var replaying = os.Getenv("VERIF_REPLAY") != ""

// decoy is another value of the same Go type.
func decoy(v interface{}) interface{} {
	switch x := v.(type) {
	case int:
		return x + 1
	case int32:
		return x + 1
	case int64:
		return x + 1
	case float64:
		return x + 1
	case float32:
		return x + 1
	case string:
		return x + "~"
	case bool:
		return !x
	}
	return v
}

var brokenCache = map[string]string{}

var compactCache = map[string]string{}

var extraCalls int

var failing []*formula.SourceCode

// EvalText parses and evaluates text against data (nil = no map).
func EvalText(text string, data map[string]interface{}) EvalOut {
	if Perturb != nil {
		perturbCount++
		if perturbCount%PerturbEvery == 0 {
			Perturb()
		}
	}
	p := Parse([]byte(text))
	if !p.OK() {
		if p.Panic != nil {
			return EvalOut{Panic: fmt.Sprintf("parse panic: %v", p.Panic)}
		}
		return EvalOut{Err: fmt.Errorf("parse error: %v", p.Err)}
	}
	r := formula.NewRunner()
	if data != nil {
		r.SetThis(data)
	}
	// The metamorphic extras below (data snapshot, second evaluation, re-read result, used runner, compact
	// spelling) run for every one of the first 5000 calls of a process and for every fourth call after that.
	extraCalls++
	extras := extraCalls <= 5000 || extraCalls%4 == 0
	var before string
	pure := extras && !strings.Contains(text, "$")
	if pure && data != nil {
		before = Snapshot(data, func(string) bool { return true })
	}
	if extras && data != nil && extraCalls%2 == 0 {
		// A parsed tree holds no data: it may have been evaluated before, by another runner over another
		// record with other values under the same names, and serves this record like a fresh tree.
		other := make(map[string]interface{}, len(data))
		for k, v := range data {
			other[k] = decoy(v)
		}
		r0 := formula.NewRunner()
		r0.SetThis(other)
		Eval(r0, context.Background(), p.Src.Expression)
	}
	out := Eval(r, context.Background(), p.Src.Expression)
	if pure && data != nil {
		// a formula without locals only reads: the caller's data (nested values and their Go types included) is as it was
		if after := Snapshot(data, func(string) bool { return true }); after != before {
			return EvalOut{Panic: fmt.Sprintf("evaluating %q changed the caller's data:\nbefore %s\nafter  %s", text, before, after)}
		}
	}
	if extras && !strings.Contains(text, "$") && !strings.Contains(text, "now") && !strings.Contains(text, "toDay") {
		// Evaluation must leave the tree unchanged: the same parsed tree,
		// evaluated once more in a fresh runner with the same data (no locals
		// were written, the text has no '$'), has to give the same outcome.
		r2 := formula.NewRunner()
		if data != nil {
			r2.SetThis(data)
		}
		a := out.String()
		// ... and so must the field analysis a host runs on the tree between two evaluations
		func() {
			defer func() { recover() }()
			formula.ResolveReferenceFields(p.Src)
			formula.ResolveReferenceFieldsNotLocal(p.Src)
		}()
		out2 := Eval(r2, context.Background(), p.Src.Expression)
		if b := out2.String(); a != b {
			return EvalOut{Panic: fmt.Sprintf("the second evaluation of the same parsed tree of %q (after the field analysis of that tree) gave %s, the first gave %s", text, b, a)}
		}
		// A result belongs to the caller: later evaluations (the second one above, an unrelated one here)
		// must not reach into the value that was handed out first.
		if disturber == nil {
			disturber = Parse([]byte("[1.5 + 2.25, 'x' + 'y', 0 - 7, [1, 2], 10 / 4]")).Src
		}
		if disturber != nil {
			Eval(formula.NewRunner(), context.Background(), disturber.Expression)
		}
		if c := out.String(); c != a {
			return EvalOut{Panic: fmt.Sprintf("the value returned by the first evaluation of %q was %s and reads %s after later evaluations", text, a, c)}
		}
		// A runner that has served many other formulas and data maps before (every earlier call of this
		// function) is as good as a new one once it is handed this data.
		if usedRunner == nil {
			usedRunner = formula.NewRunner()
		}
		// ... whose past includes failed evaluations of every kind (recovered panics, reported misuse)
		if extraCalls%5 == 0 {
			if failing == nil {
				for _, f := range []string{"left('a', 0 - 1)", "null!.x", "undefinedFn()", "[1] == [1]", "regexp('a', '(')", "mid('abc', 2, 1)", "zz.a = 1", "(1)()", "max()", "lpad('a', 'b', 0 - 2) + 1", "[1, [2, null!.k]]", "true ? zq!.w!.e : 0"} {
					if q := Parse([]byte(f)); q.OK() {
						failing = append(failing, q.Src)
					}
				}
			}
			for _, q := range failing {
				Eval(usedRunner, context.Background(), q.Expression)
			}
		}
		// The data reaches that runner in one of two ways, 64 calls each in turn: as a new map through
		// SetThis, or - the runner keeps the map it was given, and that map is the caller's - by the caller
		// rewriting the map the runner already holds.
		how := "was then given the same data"
		if data != nil && ((extraCalls/64)%2 == 1 || (replaying && extraCalls%2 == 1)) {
			if !usedHolds {
				usedRunner.SetThis(usedMap)
				usedHolds = true
			}
			// first the same names with other values (and the same formula evaluated over them) ...
			for k := range usedMap {
				delete(usedMap, k)
			}
			for k, v := range data {
				usedMap[k] = decoy(v)
			}
			Eval(usedRunner, context.Background(), p.Src.Expression)
			// ... then the caller writes this case's values over them
			for k := range usedMap {
				delete(usedMap, k)
			}
			for k, v := range data {
				usedMap[k] = v
			}
			how = "whose data map the caller then rewrote to hold the same entries"
		} else {
			usedRunner.SetThis(data)
			usedHolds = false
		}
		if c := Eval(usedRunner, context.Background(), p.Src.Expression).String(); c != a {
			return EvalOut{Panic: fmt.Sprintf("%q evaluates to %s on a new runner, but to %s on a runner that evaluated other formulas before and %s", text, a, c, how)}
		}
		// A value bound to a local stays what it was while the runner evaluates other formulas: the previous
		// call's result, bound to a local of one long-lived runner then, is read back after this call's
		// formula ran there; then this call's result is bound in its place.
		if data != nil && !strings.Contains(text, "this") && !strings.Contains(text, "ctx") {
			if holder == nil {
				holder = formula.NewRunner()
				holder.SetThis(holderMap)
			}
			for k := range holderMap {
				if k != "$__held" {
					delete(holderMap, k)
				}
			}
			for k, v := range data {
				holderMap[k] = v
			}
			Eval(holder, context.Background(), p.Src.Expression)
			if heldWant != "" {
				if rd := Parse([]byte("$__held")); rd.OK() {
					if got := Eval(holder, context.Background(), rd.Src.Expression).String(); got != heldWant {
						return EvalOut{Panic: fmt.Sprintf("a runner evaluated '$__held = (%s)', which gave %s, and then %q; now $__held reads %s", heldFrom, heldWant, text, got)}
					}
				}
			}
			heldWant, heldFrom = "", ""
			if bind := Parse([]byte("$__held = (" + text + ")")); bind.OK() {
				if b := Eval(holder, context.Background(), bind.Src.Expression); b.Panic == nil && b.Err == nil && b.String() == a {
					heldWant, heldFrom = a, text
				} else {
					delete(holderMap, "$__held")
				}
			}
		}
		// Spacing is not part of the meaning: the same tokens with every optional separator removed
		// (`a?.5:b`, `x||!y`, `1- -2`) parse and evaluate to the same outcome.
		ct, ok := compactCache[text]
		if !ok {
			ct, _ = ref.CompactText(text) // "" when the text does not tokenise cleanly
			if len(compactCache) < 1<<14 {
				compactCache[text] = ct
			}
		}
		if ct != "" && ct != text {
			q := Parse([]byte(ct))
			if !q.OK() {
				return EvalOut{Panic: fmt.Sprintf("%q is accepted, but the same tokens without optional spaces, %q, are rejected: %v %v", text, ct, q.Err, q.Panic)}
			}
			r3 := formula.NewRunner()
			if data != nil {
				r3.SetThis(data)
			}
			if c := Eval(r3, context.Background(), q.Src.Expression).String(); c != a {
				return EvalOut{Panic: fmt.Sprintf("%q evaluates to %s, but the same tokens without optional spaces, %q, to %s", text, a, ct, c)}
			}
		}
		// Nor is the layout: the same tokens with a line break in front of every operator and closing
		// token - where the grammar allows one - parse and evaluate to the same outcome.
		bt, ok := brokenCache[text]
		if !ok {
			bt, _ = ref.BrokenText(text)
			if len(brokenCache) < 1<<14 {
				brokenCache[text] = bt
			}
		}
		if bt != "" && bt != text {
			q := Parse([]byte(bt))
			if !q.OK() {
				return EvalOut{Panic: fmt.Sprintf("%q is accepted, but the same tokens with a line break before every operator, %q, are rejected: %v %v", text, bt, q.Err, q.Panic)}
			}
			r4 := formula.NewRunner()
			if data != nil {
				r4.SetThis(data)
			}
			if c := Eval(r4, context.Background(), q.Src.Expression).String(); c != a {
				return EvalOut{Panic: fmt.Sprintf("%q evaluates to %s, but the same tokens with a line break before every operator, %q, to %s", text, a, bt, c)}
			}
		}
	}
	return out
}

// WithTimeout runs f and reports false if it did not finish within d of
// *observed running time*. The wait is made of short sleeps and only sleeps
// that woke up on time are counted: when the whole machine (or this process)
// stalls - heavy load, memory pressure - the late wake-ups show it and the
// stalled interval is not held against f. A real hang (busy loop or deadlock)
// still accumulates d of on-time ticks. The goroutine is abandoned on timeout
// (the caller reports and stops).
// RunawayBytes is the live-heap growth during one watched call that counts as "does not return".
const RunawayBytes = 3 << 30

// Runaway is set when a watched call was given up because of its memory growth: the goroutine is still
// running and the process should end soon.
var Runaway bool

func WithTimeout(d time.Duration, f func()) bool {
	done := make(chan struct{})
	go func() {
		defer close(done)
		f()
	}()
	const tick = 100 * time.Millisecond
	var good time.Duration
	var ms runtime.MemStats
	runtime.ReadMemStats(&ms)
	base, ticks := ms.HeapAlloc, 0
	for good < d {
		t0 := time.Now()
		select {
		case <-done:
			return true
		case <-time.After(tick):
		}
		if el := time.Since(t0); el < 3*tick {
			good += el
		}
		// a call that keeps allocating without returning stalls the whole process long before the time limit is
		// observed: RunawayBytes of live heap gathered during one call end the wait at once
		if ticks++; ticks%5 == 0 {
			runtime.ReadMemStats(&ms)
			if ms.HeapAlloc > base && ms.HeapAlloc-base > RunawayBytes {
				Runaway = true
				return false
			}
		}
	}
	select {
	case <-done:
		return true
	default:
		return false
	}
}

// Show renders a value for messages.
func Show(v interface{}) string {
	switch x := v.(type) {
	case nil:
		return "null"
	case string:
		return strconv.Quote(x)
	case fmt.Stringer:
		if reflect.ValueOf(v).Kind() == reflect.Ptr && reflect.ValueOf(v).IsNil() {
			return "nilptr"
		}
		return x.String()
	case []interface{}:
		var parts []string
		for _, e := range x {
			parts = append(parts, Show(e))
		}
		return "[" + strings.Join(parts, ",") + "]"
	}
	return fmt.Sprintf("%v", v)
}

// OpText maps operator token kinds to their lexemes.
var OpText = map[formula.SyntaxKind]string{
	formula.SK_OpenParen: "(", formula.SK_CloseParen: ")", formula.SK_OpenBracket: "[", formula.SK_CloseBracket: "]",
	formula.SK_Dot: ".", formula.SK_DotDotDot: "...", formula.SK_Comma: ",",
	formula.SK_LessThan: "<", formula.SK_GreaterThan: ">", formula.SK_LessThanEquals: "<=", formula.SK_GreaterThanEquals: ">=",
	formula.SK_EqualsEquals: "==", formula.SK_EqualsEqualsEquals: "===", formula.SK_ExclamationEquals: "!=", formula.SK_ExclamationEqualsEquals: "!==",
	formula.SK_Plus: "+", formula.SK_Minus: "-", formula.SK_Asterisk: "*", formula.SK_Slash: "/", formula.SK_Percent: "%",
	formula.SK_Ampersand: "&", formula.SK_Bar: "|", formula.SK_Caret: "^", formula.SK_AmpersandAmpersand: "&&", formula.SK_BarBar: "||",
	formula.SK_QuestionQuestion: "??", formula.SK_Exclamation: "!", formula.SK_ExclamationDot: "!.", formula.SK_ExclamationExclamation: "!!",
	formula.SK_Tilde: "~", formula.SK_Question: "?", formula.SK_Colon: ":", formula.SK_Equals: "=",
}

// KindName maps a token kind to the reference lexer's kind string.
func KindName(k formula.SyntaxKind) string {
	switch k {
	case formula.SK_EndOfFile:
		return "eof"
	case formula.SK_NumberLiteral:
		return "num"
	case formula.SK_StringLiteral:
		return "str"
	case formula.SK_Identifier:
		return "id"
	case formula.SK_TrueKeyword:
		return "kw:true"
	case formula.SK_FalseKeyword:
		return "kw:false"
	case formula.SK_NullKeyword:
		return "kw:null"
	case formula.SK_ThisKeyword:
		return "kw:this"
	case formula.SK_CtxKeyword:
		return "kw:ctx"
	case formula.SK_TypeofKeyword:
		return "kw:typeof"
	case formula.SK_Unknown:
		return "invalid"
	}
	if s, ok := OpText[k]; ok {
		return s
	}
	return fmt.Sprintf("kind#%d", int(k))
}

func isNilNode(n interface{}) bool {
	if n == nil {
		return true
	}
	v := reflect.ValueOf(n)
	return v.Kind() == reflect.Ptr && v.IsNil()
}

// Dump renders the implementation's tree in the same canonical form as
// ref.Node.Dump. Missing parts render as "<nil>".
func Dump(e formula.Node) string {
	var b strings.Builder
	dump(&b, e)
	return b.String()
}

func tokOp(t *formula.TokenNode) string {
	if t == nil {
		return "<niltok>"
	}
	return KindName(t.Token)
}

func dump(b *strings.Builder, e formula.Node) {
	if isNilNode(e) {
		b.WriteString("<nil>")
		return
	}
	switch n := e.(type) {
	case *formula.Identifier:
		b.WriteString("id:" + n.Value)
	case *formula.LiteralExpression:
		switch n.Token {
		case formula.SK_NumberLiteral:
			b.WriteString("num:" + ref.CanonNum(n.Value))
		case formula.SK_StringLiteral:
			b.WriteString("str:" + strconv.Quote(n.Value))
		default:
			k := KindName(n.Token)
			if strings.HasPrefix(k, "kw:") {
				b.WriteString(k)
			} else {
				b.WriteString("lit?" + k)
			}
		}
	case *formula.PrefixUnaryExpression:
		b.WriteString("(pre " + tokOp(n.Operator) + " ")
		dump(b, n.Operand)
		b.WriteString(")")
	case *formula.TypeOfExpression:
		b.WriteString("(typeof ")
		dump(b, n.Expression)
		b.WriteString(")")
	case *formula.BinaryExpression:
		b.WriteString("(bin " + tokOp(n.Operator) + " ")
		dump(b, n.Left)
		b.WriteString(" ")
		dump(b, n.Right)
		b.WriteString(")")
	case *formula.ConditionalExpression:
		b.WriteString("(cond ")
		dump(b, n.Condition)
		b.WriteString(" ")
		dump(b, n.WhenTrue)
		b.WriteString(" ")
		dump(b, n.WhenFalse)
		b.WriteString(")")
	case *formula.SelectorExpression:
		if n.Assert {
			b.WriteString("(sel! ")
		} else {
			b.WriteString("(sel ")
		}
		dump(b, n.Expression)
		if n.Name == nil {
			b.WriteString(" <nil>)")
		} else {
			b.WriteString(" " + n.Name.Value + ")")
		}
	case *formula.CallExpression:
		if n.DotDotDotToken != nil {
			b.WriteString("(call... ")
		} else {
			b.WriteString("(call ")
		}
		dump(b, n.Expression)
		b.WriteString(" [")
		if n.Arguments == nil {
			b.WriteString("<nil-list>")
		} else {
			for i := 0; i < n.Arguments.Len(); i++ {
				if i > 0 {
					b.WriteString(" ")
				}
				dump(b, n.Arguments.At(i))
			}
		}
		b.WriteString("])")
	case *formula.ArrayLiteralExpression:
		b.WriteString("(arr [")
		if n.Elements == nil {
			b.WriteString("<nil-list>")
		} else {
			for i := 0; i < n.Elements.Len(); i++ {
				if i > 0 {
					b.WriteString(" ")
				}
				dump(b, n.Elements.At(i))
			}
		}
		b.WriteString("])")
	case *formula.ParenthesizedExpression:
		b.WriteString("(paren ")
		dump(b, n.Expression)
		b.WriteString(")")
	default:
		b.WriteString(fmt.Sprintf("?%T", e))
	}
}

// Child is one child slot of a node, as seen by Walk.
type Child struct {
	Slot string
	Node formula.Node // may be a nil pointer
	Expr bool         // the child sits in expression position
}

// List describes a NodeList child.
type List struct {
	Slot     string
	Nil      bool
	Pos, End int
}

// Children returns the child nodes (in source order) and lists of e.
func Children(e formula.Node) (kids []Child, lists []List) {
	switch n := e.(type) {
	case *formula.PrefixUnaryExpression:
		kids = append(kids, Child{"Operator", n.Operator, false}, Child{"Operand", n.Operand, true})
	case *formula.TypeOfExpression:
		kids = append(kids, Child{"Expression", n.Expression, true})
	case *formula.BinaryExpression:
		kids = append(kids, Child{"Left", n.Left, true}, Child{"Operator", n.Operator, false}, Child{"Right", n.Right, true})
	case *formula.ConditionalExpression:
		kids = append(kids, Child{"Condition", n.Condition, true}, Child{"QuestionTok", n.QuestionTok, false},
			Child{"WhenTrue", n.WhenTrue, true}, Child{"ColonTok", n.ColonTok, false}, Child{"WhenFalse", n.WhenFalse, true})
	case *formula.SelectorExpression:
		kids = append(kids, Child{"Expression", n.Expression, true}, Child{"Name", n.Name, false})
	case *formula.CallExpression:
		kids = append(kids, Child{"Expression", n.Expression, true})
		if n.Arguments == nil {
			lists = append(lists, List{Slot: "Arguments", Nil: true})
		} else {
			lists = append(lists, List{Slot: "Arguments", Pos: n.Arguments.Pos(), End: n.Arguments.End()})
			for i := 0; i < n.Arguments.Len(); i++ {
				kids = append(kids, Child{"Arguments[" + strconv.Itoa(i) + "]", n.Arguments.At(i), true})
			}
		}
		if n.DotDotDotToken != nil {
			kids = append(kids, Child{"DotDotDotToken", n.DotDotDotToken, false})
		}
	case *formula.ArrayLiteralExpression:
		if n.Elements == nil {
			lists = append(lists, List{Slot: "Elements", Nil: true})
		} else {
			lists = append(lists, List{Slot: "Elements", Pos: n.Elements.Pos(), End: n.Elements.End()})
			for i := 0; i < n.Elements.Len(); i++ {
				kids = append(kids, Child{"Elements[" + strconv.Itoa(i) + "]", n.Elements.At(i), true})
			}
		}
	case *formula.ParenthesizedExpression:
		kids = append(kids, Child{"Expression", n.Expression, true})
	}
	return
}

// Walk visits e and all descendants (parents first). Nil children are passed
// to f as well (with IsNil true) but not descended into.
func Walk(e formula.Node, f func(n formula.Node, parent formula.Node, c Child)) {
	walk(e, nil, Child{Slot: "root", Node: e, Expr: true}, f)
}

func walk(e formula.Node, parent formula.Node, c Child, f func(formula.Node, formula.Node, Child)) {
	f(e, parent, c)
	if isNilNode(e) {
		return
	}
	kids, _ := Children(e)
	for _, k := range kids {
		walk(k.Node, e, k, f)
	}
}

// IsNil reports a nil node (nil interface or nil pointer).
func IsNil(n formula.Node) bool { return isNilNode(n) }

// DumpFull renders the tree with positions, ids and parent linkage; used to
// detect any change to a tree.
func DumpFull(e formula.Node) string {
	var b strings.Builder
	Walk(e, func(n formula.Node, parent formula.Node, c Child) {
		if isNilNode(n) {
			fmt.Fprintf(&b, "%s=<nil>;", c.Slot)
			return
		}
		par := "nil"
		if p := n.Parent(); !isNilNode(p) {
			par = fmt.Sprintf("%T@%d", p, p.Pos())
		}
		extra := ""
		switch x := n.(type) {
		case *formula.Identifier:
			extra = fmt.Sprintf("%q/%d", x.Value, x.OriginalToken)
		case *formula.LiteralExpression:
			extra = fmt.Sprintf("%q/%d", x.Value, x.Token)
		case *formula.TokenNode:
			extra = fmt.Sprintf("tok%d", x.Token)
		case *formula.SelectorExpression:
			extra = fmt.Sprintf("assert=%v", x.Assert)
		}
		fmt.Fprintf(&b, "%s=%T[%d,%d)id%d par=%s %s;", c.Slot, n, n.Pos(), n.End(), n.ID(), par, extra)
		_, lists := Children(n)
		for _, l := range lists {
			fmt.Fprintf(&b, "%s:list nil=%v[%d,%d);", l.Slot, l.Nil, l.Pos, l.End)
		}
	})
	return b.String()
}

// DumpRanges renders shape, values and source ranges (no ids / parent links):
// what two parses of the same text must agree on.
func DumpRanges(e formula.Node) string {
	var b strings.Builder
	Walk(e, func(n formula.Node, parent formula.Node, c Child) {
		if isNilNode(n) {
			fmt.Fprintf(&b, "%s=<nil>;", c.Slot)
			return
		}
		fmt.Fprintf(&b, "%s=%T[%d,%d);", c.Slot, n, n.Pos(), n.End())
		_, lists := Children(n)
		for _, l := range lists {
			fmt.Fprintf(&b, "%s:list nil=%v[%d,%d);", l.Slot, l.Nil, l.Pos, l.End)
		}
	})
	return Dump(e) + "|" + b.String()
}
