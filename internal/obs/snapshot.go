package obs

import (
	"fmt"
	"reflect"
	"sort"
	"strings"
	"time"

	"github.com/ericlagergren/decimal"
)

// Snapshot renders everything reachable from the data map's entries selected
// by keep: types, identities (addresses of maps, slices, pointers) and
// contents. Two snapshots are equal iff nothing reachable was added, removed,
// replaced or mutated.
func Snapshot(m map[string]interface{}, keep func(key string) bool) string {
	var b strings.Builder
	keys := make([]string, 0, len(m))
	for k := range m {
		if keep == nil || keep(k) {
			keys = append(keys, k)
		}
	}
	sort.Strings(keys)
	seen := map[uintptr]bool{}
	for _, k := range keys {
		fmt.Fprintf(&b, "%q:", k)
		snap(&b, reflect.ValueOf(m[k]), seen, 0)
		b.WriteString(";\n")
	}
	return b.String()
}

func snap(b *strings.Builder, v reflect.Value, seen map[uintptr]bool, depth int) {
	if !v.IsValid() {
		b.WriteString("nil")
		return
	}
	if depth > 12 {
		b.WriteString("...")
		return
	}
	if v.CanInterface() {
		switch x := v.Interface().(type) {
		case *decimal.Big:
			if x == nil {
				b.WriteString("dec(nil)")
			} else {
				fmt.Fprintf(b, "dec@%p(%s prec=%d)", x, x.String(), x.Precision())
			}
			return
		case time.Time:
			fmt.Fprintf(b, "time(%d,%s)", x.UnixNano(), x.Location())
			return
		}
	}
	switch v.Kind() {
	case reflect.Interface:
		if v.IsNil() {
			b.WriteString("nil")
			return
		}
		snap(b, v.Elem(), seen, depth)
	case reflect.Ptr:
		if v.IsNil() {
			fmt.Fprintf(b, "(%s)(nil)", v.Type())
			return
		}
		fmt.Fprintf(b, "ptr@%x->", v.Pointer())
		if seen[v.Pointer()] {
			b.WriteString("(seen)")
			return
		}
		seen[v.Pointer()] = true
		snap(b, v.Elem(), seen, depth+1)
	case reflect.Map:
		if v.IsNil() {
			fmt.Fprintf(b, "(%s)(nil)", v.Type())
			return
		}
		fmt.Fprintf(b, "%s@%x{", v.Type(), v.Pointer())
		if seen[v.Pointer()] {
			b.WriteString("(seen)}")
			return
		}
		seen[v.Pointer()] = true
		keys := v.MapKeys()
		sort.Slice(keys, func(i, j int) bool { return fmt.Sprint(keys[i].Interface()) < fmt.Sprint(keys[j].Interface()) })
		for _, k := range keys {
			fmt.Fprintf(b, "%v:", k.Interface())
			snap(b, v.MapIndex(k), seen, depth+1)
			b.WriteString(",")
		}
		b.WriteString("}")
	case reflect.Slice:
		if v.IsNil() {
			fmt.Fprintf(b, "(%s)(nil)", v.Type())
			return
		}
		fmt.Fprintf(b, "%s@%x len=%d cap=%d[", v.Type(), v.Pointer(), v.Len(), v.Cap())
		for i := 0; i < v.Len(); i++ {
			snap(b, v.Index(i), seen, depth+1)
			b.WriteString(",")
		}
		b.WriteString("]")
	case reflect.Struct:
		fmt.Fprintf(b, "%s{", v.Type())
		for i := 0; i < v.NumField(); i++ {
			fmt.Fprintf(b, "%s:", v.Type().Field(i).Name)
			f := v.Field(i)
			if f.CanInterface() {
				snap(b, f, seen, depth+1)
			} else {
				fmt.Fprintf(b, "%v", f)
			}
			b.WriteString(",")
		}
		b.WriteString("}")
	case reflect.Func:
		fmt.Fprintf(b, "func@%x", v.Pointer())
	default:
		fmt.Fprintf(b, "%s(%v)", v.Type(), v)
	}
}
