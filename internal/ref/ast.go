package ref

import (
	"strconv"
	"strings"
)

// Node is the reference AST. Kind is one of
// id num str kw pre typeof bin cond sel call arr paren.
type Node struct {
	Kind   string  `json:"k"`
	Op     string  `json:"op,omitempty"`  // pre/bin operator lexeme; kw name
	Val    string  `json:"v,omitempty"`   // id name, number text (no separators), decoded string, selector name
	Src    string  `json:"src,omitempty"` // spelled form of a literal (generator side); empty = derive from Val
	Assert bool    `json:"assert,omitempty"`
	Spread bool    `json:"spread,omitempty"`
	Kids   []*Node `json:"kids,omitempty"`
	// token span (indices into the token list), set by ParseTokens only
	F int `json:"-"`
	L int `json:"-"`
}

// Dump is the position-free canonical form shared with obs.Dump.
func (n *Node) Dump() string {
	var b strings.Builder
	n.dump(&b)
	return b.String()
}

func (n *Node) dump(b *strings.Builder) {
	switch n.Kind {
	case "id":
		b.WriteString("id:" + n.Val)
	case "num":
		b.WriteString("num:" + CanonNum(n.Val))
	case "str":
		b.WriteString("str:" + strconv.Quote(n.Val))
	case "kw":
		b.WriteString("kw:" + n.Op)
	case "pre":
		b.WriteString("(pre " + n.Op + " ")
		n.Kids[0].dump(b)
		b.WriteString(")")
	case "typeof":
		b.WriteString("(typeof ")
		n.Kids[0].dump(b)
		b.WriteString(")")
	case "bin":
		b.WriteString("(bin " + n.Op + " ")
		n.Kids[0].dump(b)
		b.WriteString(" ")
		n.Kids[1].dump(b)
		b.WriteString(")")
	case "cond":
		b.WriteString("(cond ")
		n.Kids[0].dump(b)
		b.WriteString(" ")
		n.Kids[1].dump(b)
		b.WriteString(" ")
		n.Kids[2].dump(b)
		b.WriteString(")")
	case "sel":
		if n.Assert {
			b.WriteString("(sel! ")
		} else {
			b.WriteString("(sel ")
		}
		n.Kids[0].dump(b)
		b.WriteString(" " + n.Val + ")")
	case "call":
		if n.Spread {
			b.WriteString("(call... ")
		} else {
			b.WriteString("(call ")
		}
		n.Kids[0].dump(b)
		b.WriteString(" [")
		for i, k := range n.Kids[1:] {
			if i > 0 {
				b.WriteString(" ")
			}
			k.dump(b)
		}
		b.WriteString("])")
	case "arr":
		b.WriteString("(arr [")
		for i, k := range n.Kids {
			if i > 0 {
				b.WriteString(" ")
			}
			k.dump(b)
		}
		b.WriteString("])")
	case "paren":
		b.WriteString("(paren ")
		n.Kids[0].dump(b)
		b.WriteString(")")
	default:
		b.WriteString("?" + n.Kind)
	}
}

// Count returns the number of nodes.
func (n *Node) Count() int {
	c := 1
	for _, k := range n.Kids {
		c += k.Count()
	}
	return c
}

// Walk visits every node, parents first.
func (n *Node) Walk(f func(*Node)) {
	f(n)
	for _, k := range n.Kids {
		k.Walk(f)
	}
}

// Binary operator levels of the ladder (higher binds tighter).
var BinLevel = map[string]int{
	"||": 2, "??": 2, "&&": 3, "|": 4, "^": 5, "&": 6,
	"==": 7, "!=": 7, "===": 7, "!==": 7,
	"<": 8, ">": 8, "<=": 8, ">=": 8,
	"+": 9, "-": 9, "*": 10, "/": 10, "%": 10,
}

// BinOps lists the 19 binary operators of the ladder.
var BinOps = []string{"||", "??", "&&", "|", "^", "&", "==", "!=", "===", "!==", "<", ">", "<=", ">=", "+", "-", "*", "/", "%"}

// PrefixOps lists the prefix operators.
var PrefixOps = []string{"+", "-", "!", "!!", "~"}

const (
	LvComma   = 0
	LvAssign  = 1
	LvUnary   = 12
	LvPostfix = 13
	LvPrimary = 14
)

// Level is the grammar level a node kind sits at.
func (n *Node) Level() int {
	switch n.Kind {
	case "bin":
		if n.Op == "," {
			return LvComma
		}
		if n.Op == "=" {
			return LvAssign
		}
		return BinLevel[n.Op]
	case "cond":
		return LvAssign
	case "pre", "typeof":
		return LvUnary
	case "sel", "call":
		return LvPostfix
	}
	return LvPrimary
}
