package ref

// Proleptic Gregorian calendar arithmetic (days since 1970-01-01), written
// from the well-known era-based algorithms; independent of package time.

func floorDiv(a, b int64) int64 {
	q := a / b
	if (a%b != 0) && ((a < 0) != (b < 0)) {
		q--
	}
	return q
}

func floorMod(a, b int64) int64 { return a - floorDiv(a, b)*b }

// DaysFromCivil returns the day number of y-m-d (m in 1..12, d in 1..31).
func DaysFromCivil(y, m, d int64) int64 {
	if m <= 2 {
		y--
	}
	era := floorDiv(y, 400)
	yoe := y - era*400
	mp := (m + 9) % 12 // March = 0
	doy := (153*mp+2)/5 + d - 1
	doe := yoe*365 + yoe/4 - yoe/100 + doy
	return era*146097 + doe - 719468
}

// CivilFromDays is the inverse of DaysFromCivil.
func CivilFromDays(z int64) (y, m, d int64) {
	z += 719468
	era := floorDiv(z, 146097)
	doe := z - era*146097
	yoe := (doe - doe/1460 + doe/36524 - doe/146096) / 365
	y = yoe + era*400
	doy := doe - (365*yoe + yoe/4 - yoe/100)
	mp := (5*doy + 2) / 153
	d = doy - (153*mp+2)/5 + 1
	if mp < 10 {
		m = mp + 3
	} else {
		m = mp - 9
	}
	if m <= 2 {
		y++
	}
	return
}

// NormalizeCivil carries out-of-range months and days: the day number of
// "day d of month m of year y" for arbitrary integers m and d.
func NormalizeCivil(y, m, d int64) (days int64) {
	y += floorDiv(m-1, 12)
	m = floorMod(m-1, 12) + 1
	return DaysFromCivil(y, m, 1) + (d - 1)
}

// Weekday returns 0 for Sunday ... 6 for Saturday.
func Weekday(days int64) int64 { return floorMod(days+4, 7) }

// FloorDiv / FloorMod exported for callers.
func FloorDiv(a, b int64) int64 { return floorDiv(a, b) }
func FloorMod(a, b int64) int64 { return floorMod(a, b) }
