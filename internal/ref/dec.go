package ref

import (
	"math"
	"math/big"
	"strconv"
	"strings"
)

var ten = big.NewInt(10)

func pow10(n int) *big.Int { return new(big.Int).Exp(ten, big.NewInt(int64(n)), nil) }

// Pow10Rat returns 10^n as a rational (n may be negative).
func Pow10Rat(n int) *big.Rat {
	if n >= 0 {
		return new(big.Rat).SetInt(pow10(n))
	}
	return new(big.Rat).SetFrac(big.NewInt(1), pow10(-n))
}

// MagExp returns e such that 10^e <= |r| < 10^(e+1) (r != 0).
func MagExp(r *big.Rat) int {
	a := new(big.Rat).Abs(r)
	e := len(a.Num().String()) - len(a.Denom().String())
	for a.Cmp(Pow10Rat(e)) < 0 {
		e--
	}
	for a.Cmp(Pow10Rat(e+1)) >= 0 {
		e++
	}
	return e
}

// RoundSig rounds r half-even to the given number of significant digits.
func RoundSig(r *big.Rat, digits int) *big.Rat {
	if r.Sign() == 0 {
		return new(big.Rat)
	}
	e := MagExp(r)
	shift := digits - 1 - e
	scaled := new(big.Rat).Mul(new(big.Rat).Abs(r), Pow10Rat(shift))
	q := new(big.Int).Quo(scaled.Num(), scaled.Denom())
	rem := new(big.Rat).Sub(scaled, new(big.Rat).SetInt(q))
	switch rem.Cmp(big.NewRat(1, 2)) {
	case 1:
		q.Add(q, big.NewInt(1))
	case 0:
		if q.Bit(0) == 1 {
			q.Add(q, big.NewInt(1))
		}
	}
	out := new(big.Rat).Mul(new(big.Rat).SetInt(q), Pow10Rat(-shift))
	if r.Sign() < 0 {
		out.Neg(out)
	}
	return out
}

// SigDigits returns the number of significant decimal digits of a terminating
// decimal r (ok=false if r does not terminate within 2000 digits).
func SigDigits(r *big.Rat) (int, bool) {
	if r.Sign() == 0 {
		return 1, true
	}
	// r = n / d terminates iff d = 2^a 5^b
	d := new(big.Int).Set(r.Denom())
	a, b := 0, 0
	two, five := big.NewInt(2), big.NewInt(5)
	m := new(big.Int)
	for new(big.Int).Mod(d, two).Sign() == 0 {
		d.Quo(d, two)
		a++
	}
	for m.Mod(d, five).Sign() == 0 {
		d.Quo(d, five)
		b++
	}
	if d.Cmp(big.NewInt(1)) != 0 {
		return 0, false
	}
	k := a
	if b > k {
		k = b
	}
	if k > 2000 {
		return 0, false
	}
	coef := new(big.Rat).Mul(new(big.Rat).Abs(r), Pow10Rat(k))
	s := strings.TrimRight(coef.Num().String(), "0")
	if s == "" {
		s = "0"
	}
	return len(s), true
}

// TruncRat truncates toward zero.
func TruncRat(r *big.Rat) *big.Int {
	q := new(big.Int).Quo(new(big.Int).Abs(r.Num()), r.Denom())
	if r.Sign() < 0 {
		q.Neg(q)
	}
	return q
}

// FloorRat / CeilRat.
func FloorRat(r *big.Rat) *big.Int {
	q := TruncRat(r)
	if r.Sign() < 0 && !r.IsInt() {
		q.Sub(q, big.NewInt(1))
	}
	return q
}

func CeilRat(r *big.Rat) *big.Int {
	q := TruncRat(r)
	if r.Sign() > 0 && !r.IsInt() {
		q.Add(q, big.NewInt(1))
	}
	return q
}

// RemTrunc is a - b*trunc(a/b).
func RemTrunc(a, b *big.Rat) *big.Rat {
	q := TruncRat(new(big.Rat).Quo(a, b))
	return new(big.Rat).Sub(a, new(big.Rat).Mul(b, new(big.Rat).SetInt(q)))
}

// DecString renders a terminating decimal exactly in plain notation.
func DecString(r *big.Rat) string {
	for k := 0; k <= 2000; k += 10 {
		sc := new(big.Rat).Mul(r, Pow10Rat(k))
		if sc.IsInt() {
			s := r.FloatString(k)
			if strings.Contains(s, ".") {
				s = strings.TrimRight(strings.TrimRight(s, "0"), ".")
			}
			return s
		}
	}
	return r.FloatString(60)
}

// NearestFloat64 returns the float64 nearest to the terminating decimal r
// (correctly rounded by strconv.ParseFloat on the exact decimal string).
func NearestFloat64(r *big.Rat) float64 {
	f, _ := strconv.ParseFloat(DecString(r), 64)
	return f
}

// UlpDistance returns how many representable float64 values lie between a and b.
func UlpDistance(a, b float64) uint64 {
	if math.IsNaN(a) || math.IsNaN(b) {
		return math.MaxUint64
	}
	ia, ib := orderedBits(a), orderedBits(b)
	if ia > ib {
		return uint64(ia - ib)
	}
	return uint64(ib - ia)
}

func orderedBits(f float64) int64 {
	b := int64(math.Float64bits(f))
	if b < 0 {
		b = math.MinInt64 - b
	}
	return b
}

// Float64Rat is the exact rational value of a finite float64.
func Float64Rat(f float64) *big.Rat {
	r := new(big.Rat)
	r.SetFloat64(f)
	return r
}

// ShortestRat is the rational value of the shortest decimal string that
// round-trips to f (the value f "prints as").
func ShortestRat(f float64) *big.Rat {
	s := strconv.FormatFloat(f, 'e', -1, 64)
	r, _ := new(big.Rat).SetString(s)
	return r
}
