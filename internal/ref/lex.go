// Package ref holds the reference models the checks compare aundis/formula
// against. They are written from the property statements, not from the
// implementation, and share no code with it.
package ref

import (
	"unicode/utf8"
)

// Token kinds are plain strings: "num", "str", "id", "kw:true" ... "kw:typeof",
// the operator/punctuator lexeme itself ("===", "(", ...), "invalid", "eof".
type Token struct {
	Kind     string
	Start    int    // start of leading trivia
	Pos      int    // start of token text
	End      int    // end of token text
	Value    string // decoded value: identifier name, literal digits without separators, decoded string
	NLBefore bool   // a line break occurs in the leading trivia
	Unspec   bool   // token uses a form the properties leave open (unlisted escape, line continuation)
}

// LexResult is the outcome of tokenising a text.
type LexResult struct {
	Tokens []Token // always ends with an "eof" token
	Err    bool    // a lexical error occurred (malformed literal, invalid character)
	ErrPos int     // offset of the first lexical error
	// Tokens up to (not including) the token in which the first error occurred
	// are reliable; the rest is a best effort.
	GoodTokens int
}

var Keywords = []string{"true", "false", "null", "this", "ctx", "typeof"}

// Operators, longest first.
var Operators = []string{
	"===", "!==", "...",
	"==", "!=", "!.", "!!", "&&", "||", "??", "<=", ">=",
	"(", ")", "[", "]", ".", ",", "<", ">", "+", "-", "*", "/", "%", "&", "|", "^", "!", "~", "?", ":", "=",
}

func inTable(tab []rune, c rune) bool {
	for i := 0; i+1 < len(tab); i += 2 {
		if c < tab[i] {
			return false
		}
		if c <= tab[i+1] {
			return true
		}
	}
	return false
}

// IsIDStart / IsIDPart: the ES5 identifier classes (golden table) plus $ _ letters digits.
func IsIDStart(c rune) bool {
	if c < 0x80 {
		return c >= 'A' && c <= 'Z' || c >= 'a' && c <= 'z' || c == '$' || c == '_'
	}
	return inTable(ES5Start, c)
}

func IsIDPart(c rune) bool {
	if c < 0x80 {
		return c >= 'A' && c <= 'Z' || c >= 'a' && c <= 'z' || c >= '0' && c <= '9' || c == '$' || c == '_'
	}
	return inTable(ES5Part, c)
}

// IsSpace: the ES whitespace set (TAB VT FF SP NBSP, the Zs characters of the
// ES5 era including U+200B, BOM).
func IsSpace(c rune) bool {
	switch c {
	case '\t', '\v', '\f', ' ', 0xA0, 0x1680, 0x202F, 0x205F, 0x3000, 0xFEFF:
		return true
	}
	return c >= 0x2000 && c <= 0x200B
}

// IsNL: the line-break set LF CR U+2028 U+2029 U+0085.
func IsNL(c rune) bool {
	return c == '\n' || c == '\r' || c == 0x2028 || c == 0x2029 || c == 0x85
}

func isDigit(c byte) bool { return c >= '0' && c <= '9' }
func isHex(c byte) bool {
	return c >= '0' && c <= '9' || c >= 'a' && c <= 'f' || c >= 'A' && c <= 'F'
}
func hexVal(c byte) rune {
	switch {
	case c >= '0' && c <= '9':
		return rune(c - '0')
	case c >= 'a' && c <= 'f':
		return rune(c-'a') + 10
	}
	return rune(c-'A') + 10
}

// Lex tokenises text by longest match.
func Lex(text []byte) LexResult {
	var res LexResult
	res.GoodTokens = -1
	n := len(text)
	pos := 0
	fail := func(at int) {
		if !res.Err {
			res.Err = true
			res.ErrPos = at
			res.GoodTokens = len(res.Tokens)
		}
	}
	for {
		tok := Token{Start: pos}
		// trivia
		for pos < n {
			c, sz := utf8.DecodeRune(text[pos:])
			if IsNL(c) {
				tok.NLBefore = true
				pos += sz
			} else if IsSpace(c) {
				pos += sz
			} else {
				break
			}
		}
		tok.Pos = pos
		if pos >= n {
			tok.Kind = "eof"
			tok.End = pos
			res.Tokens = append(res.Tokens, tok)
			break
		}
		c, sz := utf8.DecodeRune(text[pos:])
		switch {
		case isDigit(text[pos]) || (text[pos] == '.' && pos+1 < n && isDigit(text[pos+1])):
			end, val, ok, epos := lexNumber(text, pos)
			if !ok {
				fail(epos)
			}
			tok.Kind, tok.End, tok.Value = "num", end, val
			pos = end
			if ok && pos < n {
				c2, _ := utf8.DecodeRune(text[pos:])
				if IsIDStart(c2) {
					fail(pos)
				}
			}
		case c == '\'' || c == '"':
			end, val, ok, unspec, epos := lexString(text, pos)
			if !ok {
				fail(epos)
			}
			tok.Kind, tok.End, tok.Value, tok.Unspec = "str", end, val, unspec
			pos = end
		case IsIDStart(c):
			end := pos + sz
			for end < n {
				c2, s2 := utf8.DecodeRune(text[end:])
				if !IsIDPart(c2) {
					break
				}
				end += s2
			}
			tok.Value = string(text[pos:end])
			tok.Kind = "id"
			for _, k := range Keywords {
				if tok.Value == k {
					tok.Kind = "kw:" + k
				}
			}
			tok.End = end
			pos = end
		default:
			matched := false
			for _, op := range Operators {
				if pos+len(op) <= n && string(text[pos:pos+len(op)]) == op {
					tok.Kind = op
					tok.End = pos + len(op)
					pos = tok.End
					matched = true
					break
				}
			}
			if !matched {
				fail(pos)
				tok.Kind = "invalid"
				tok.End = pos + sz
				pos = tok.End
			}
		}
		res.Tokens = append(res.Tokens, tok)
	}
	if res.GoodTokens < 0 {
		res.GoodTokens = len(res.Tokens)
	}
	return res
}

// lexGroup scans a maximal run of digits and underscores starting at pos and
// reports its end, the digits without separators and whether every underscore
// sits between two digits of the run.
func lexGroup(text []byte, pos int) (end int, digits string, ok bool, epos int) {
	ok = true
	end = pos
	var out []byte
	for end < len(text) && (isDigit(text[end]) || text[end] == '_') {
		if text[end] == '_' {
			prevDigit := end > pos && isDigit(text[end-1])
			nextDigit := end+1 < len(text) && isDigit(text[end+1])
			if (!prevDigit || !nextDigit) && ok {
				ok = false
				epos = end
			}
		} else {
			out = append(out, text[end])
		}
		end++
	}
	return end, string(out), ok, epos
}

// lexNumber: digits | digits.digits | .digits | digits. , optional exponent.
// Value is the literal with separators removed (e.g. "1000.5e+3").
func lexNumber(text []byte, pos int) (end int, val string, ok bool, epos int) {
	n := len(text)
	ok = true
	bad := func(at int) {
		if ok {
			ok = false
			epos = at
		}
	}
	p := pos
	if text[p] != '.' {
		e, d, gok, gp := lexGroup(text, p)
		if !gok {
			bad(gp)
		}
		val += d
		p = e
	}
	if p < n && text[p] == '.' {
		val += "."
		p++
		e, d, gok, gp := lexGroup(text, p)
		if !gok {
			bad(gp)
		}
		val += d
		p = e
	}
	if p < n && (text[p] == 'e' || text[p] == 'E') {
		q := p + 1
		sign := ""
		if q < n && (text[q] == '+' || text[q] == '-') {
			sign = string(text[q])
			q++
		}
		e, d, gok, gp := lexGroup(text, q)
		if d == "" {
			bad(p) // exponent without digits
			// consume what a scanner plausibly consumes; boundaries after an error are not compared
			p = e
		} else {
			if !gok {
				bad(gp)
			}
			val += string(text[p]) + sign + d
			p = e
		}
	}
	return p, val, ok, epos
}

// lexString decodes a quoted literal using the escapes the language lists.
func lexString(text []byte, pos int) (end int, val string, ok bool, unspec bool, epos int) {
	n := len(text)
	quote := text[pos]
	p := pos + 1
	var out []byte
	for {
		if p >= n {
			return p, string(out), false, unspec, p
		}
		c, sz := utf8.DecodeRune(text[p:])
		if text[p] == quote {
			return p + 1, string(out), true, unspec, 0
		}
		if IsNL(c) {
			return p, string(out), false, unspec, p
		}
		if text[p] != '\\' {
			out = append(out, text[p:p+sz]...)
			p += sz
			continue
		}
		// escape
		p++
		if p >= n {
			return p, string(out), false, unspec, p
		}
		e := text[p]
		switch e {
		case '0':
			out = append(out, 0)
			p++
		case 'b':
			out = append(out, '\b')
			p++
		case 't':
			out = append(out, '\t')
			p++
		case 'n':
			out = append(out, '\n')
			p++
		case 'v':
			out = append(out, '\v')
			p++
		case 'f':
			out = append(out, '\f')
			p++
		case 'r':
			out = append(out, '\r')
			p++
		case '\'', '"', '\\':
			out = append(out, e)
			p++
		case 'x', 'u':
			cnt := 2
			if e == 'u' {
				cnt = 4
			}
			if allHex(text, p+1, cnt) {
				var r rune
				for i := 0; i < cnt; i++ {
					r = r*16 + hexVal(text[p+1+i])
				}
				out = utf8.AppendRune(out, r)
				if r >= 0xD800 && r <= 0xDFFF {
					unspec = true // lone surrogate: no UTF-8 form
				}
				p += 1 + cnt
			} else {
				// fewer hex digits than required: not a listed form
				unspec = true
				p++
			}
		default:
			// unlisted escape (including line continuations): left open
			unspec = true
			ec, esz := utf8.DecodeRune(text[p:])
			if !IsNL(ec) {
				out = append(out, text[p:p+esz]...)
			}
			p += esz
		}
	}
}

func allHex(text []byte, at, cnt int) bool {
	if at+cnt > len(text) {
		return false
	}
	for i := 0; i < cnt; i++ {
		if !isHex(text[at+i]) {
			return false
		}
	}
	return true
}
