package ref

import (
	"math/big"
	"strconv"
	"strings"
)

// NormNum normalises a literal spelling (digits, optional fraction, optional
// exponent; no separators) to (coefficient without leading/trailing zeros,
// power of ten). Zero is ("0", 0). ok is false if s is not of that form.
func NormNum(s string) (coef string, exp int64, ok bool) {
	mant := s
	var e int64
	if i := strings.IndexAny(s, "eE"); i >= 0 {
		mant = s[:i]
		v, err := strconv.ParseInt(s[i+1:], 10, 64)
		if err != nil {
			return "", 0, false
		}
		e = v
	}
	ip, fp := mant, ""
	if i := strings.IndexByte(mant, '.'); i >= 0 {
		ip, fp = mant[:i], mant[i+1:]
	}
	if ip == "" && fp == "" {
		return "", 0, false
	}
	for _, c := range ip + fp {
		if c < '0' || c > '9' {
			return "", 0, false
		}
	}
	digits := ip + fp
	e -= int64(len(fp))
	digits = strings.TrimLeft(digits, "0")
	if digits == "" {
		return "0", 0, true
	}
	t := strings.TrimRight(digits, "0")
	e += int64(len(digits) - len(t))
	return t, e, true
}

// SameNum reports whether two literal spellings denote the same number.
func SameNum(a, b string) bool {
	ca, ea, oka := NormNum(a)
	cb, eb, okb := NormNum(b)
	if !oka && !okb {
		// not normalisable (e.g. an exponent beyond int64): fall back to the spelling
		return strings.EqualFold(a, b)
	}
	return oka && okb && ca == cb && ea == eb
}

// RatOf converts a literal spelling to an exact rational; exponents beyond
// +-100000 are refused (ok=false) to keep the arithmetic bounded.
func RatOf(s string) (*big.Rat, bool) {
	c, e, ok := NormNum(s)
	if !ok || e > 100000 || e < -100000 {
		return nil, false
	}
	n, _ := new(big.Int).SetString(c, 10)
	r := new(big.Rat).SetInt(n)
	p := new(big.Int).Exp(big.NewInt(10), big.NewInt(abs64(e)), nil)
	if e >= 0 {
		r.Mul(r, new(big.Rat).SetInt(p))
	} else {
		r.Quo(r, new(big.Rat).SetInt(p))
	}
	return r, true
}

func abs64(x int64) int64 {
	if x < 0 {
		return -x
	}
	return x
}

// CanonNum renders a literal spelling canonically ("<coef>e<exp>"), or the
// spelling itself in angle brackets if it is not a well-formed literal.
func CanonNum(s string) string {
	c, e, ok := NormNum(s)
	if !ok {
		return "<" + s + ">"
	}
	return c + "e" + strconv.FormatInt(e, 10)
}
