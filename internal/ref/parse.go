package ref

// Parse is a stratified recursive-descent parser, one function per grammar
// level, over Lex tokens. It returns nil when the text is not derivable from
// the grammar (including every lexical error).
//
//	Expr    := Assign { ',' Assign }
//	Assign  := L2 [ '=' Assign | '?' Assign ':' Assign ]
//	L2..L10 := left-associative ladder  || ?? < && < | < ^ < & < equality < relational < additive < multiplicative
//	Unary   := ('+'|'-'|'!'|'!!'|'~') Unary | 'typeof' Unary | Postfix
//	Postfix := Primary { ('.'|'!.') Name | '(' [Assign {',' Assign}] ['...'] ')' }   -- '.', '!.', '(' on the same line
//	Primary := number | string | null|true|false|this|ctx | identifier | '(' Expr ')' | '[' [Assign {',' Assign}] ']'
func Parse(text []byte) *Node {
	lr := Lex(text)
	if lr.Err {
		return nil
	}
	return ParseTokens(lr.Tokens)
}

type parser struct {
	toks []Token
	i    int
	bad  bool
}

// ParseTokens parses an error-free token list ending in eof.
func ParseTokens(toks []Token) *Node {
	p := &parser{toks: toks}
	n := p.expr()
	if p.bad || n == nil || p.cur().Kind != "eof" {
		return nil
	}
	return n
}

func (p *parser) cur() Token { return p.toks[p.i] }
func (p *parser) next()      { p.i++ }
func (p *parser) fail() *Node {
	p.bad = true
	return nil
}

func (p *parser) expr() *Node {
	left := p.assign()
	for !p.bad && p.cur().Kind == "," {
		p.next()
		right := p.assign()
		if p.bad {
			return nil
		}
		left = &Node{Kind: "bin", Op: ",", Kids: []*Node{left, right}, F: left.F, L: right.L}
	}
	return left
}

func (p *parser) assign() *Node {
	left := p.ladder(2)
	if p.bad {
		return nil
	}
	switch p.cur().Kind {
	case "=":
		p.next()
		right := p.assign()
		if p.bad {
			return nil
		}
		return &Node{Kind: "bin", Op: "=", Kids: []*Node{left, right}, F: left.F, L: right.L}
	case "?":
		p.next()
		a := p.assign()
		if p.bad {
			return nil
		}
		if p.cur().Kind != ":" {
			return p.fail()
		}
		p.next()
		b := p.assign()
		if p.bad {
			return nil
		}
		return &Node{Kind: "cond", Kids: []*Node{left, a, b}, F: left.F, L: b.L}
	}
	return left
}

func (p *parser) ladder(level int) *Node {
	if level > 10 {
		return p.unary()
	}
	left := p.ladder(level + 1)
	for !p.bad {
		lv, ok := BinLevel[p.cur().Kind]
		if !ok || lv != level {
			break
		}
		op := p.cur().Kind
		p.next()
		right := p.ladder(level + 1)
		if p.bad {
			return nil
		}
		left = &Node{Kind: "bin", Op: op, Kids: []*Node{left, right}, F: left.F, L: right.L}
	}
	if p.bad {
		return nil
	}
	return left
}

func (p *parser) unary() *Node {
	switch k := p.cur().Kind; k {
	case "+", "-", "!", "!!", "~":
		at := p.i
		p.next()
		x := p.unary()
		if p.bad {
			return nil
		}
		return &Node{Kind: "pre", Op: k, Kids: []*Node{x}, F: at, L: x.L}
	case "kw:typeof":
		at := p.i
		p.next()
		x := p.unary()
		if p.bad {
			return nil
		}
		return &Node{Kind: "typeof", Kids: []*Node{x}, F: at, L: x.L}
	}
	return p.postfix()
}

func isName(k string) bool { return k == "id" || len(k) > 3 && k[:3] == "kw:" }

func (p *parser) postfix() *Node {
	x := p.primary()
	for !p.bad {
		t := p.cur()
		if t.NLBefore {
			break
		}
		if t.Kind == "." || t.Kind == "!." {
			p.next()
			nm := p.cur()
			if !isName(nm.Kind) {
				return p.fail()
			}
			x = &Node{Kind: "sel", Val: nm.Value, Assert: t.Kind == "!.", Kids: []*Node{x}, F: x.F, L: p.i}
			p.next()
			continue
		}
		if t.Kind == "(" {
			p.next()
			call := &Node{Kind: "call", Kids: []*Node{x}, F: x.F}
			if p.cur().Kind != ")" && p.cur().Kind != "..." {
				for {
					a := p.assign()
					if p.bad {
						return nil
					}
					call.Kids = append(call.Kids, a)
					if p.cur().Kind == "," {
						p.next()
						continue
					}
					break
				}
			}
			if p.cur().Kind == "..." {
				call.Spread = true
				p.next()
			}
			if p.cur().Kind != ")" {
				return p.fail()
			}
			call.L = p.i
			p.next()
			x = call
			continue
		}
		break
	}
	if p.bad {
		return nil
	}
	return x
}

func (p *parser) primary() *Node {
	t := p.cur()
	switch t.Kind {
	case "num":
		p.next()
		return &Node{Kind: "num", Val: t.Value, F: p.i - 1, L: p.i - 1}
	case "str":
		p.next()
		return &Node{Kind: "str", Val: t.Value, F: p.i - 1, L: p.i - 1}
	case "kw:null", "kw:true", "kw:false", "kw:this", "kw:ctx":
		p.next()
		return &Node{Kind: "kw", Op: t.Kind[3:], F: p.i - 1, L: p.i - 1}
	case "id":
		p.next()
		return &Node{Kind: "id", Val: t.Value, F: p.i - 1, L: p.i - 1}
	case "(":
		open := p.i
		p.next()
		x := p.expr()
		if p.bad {
			return nil
		}
		if p.cur().Kind != ")" {
			return p.fail()
		}
		p.next()
		return &Node{Kind: "paren", Kids: []*Node{x}, F: open, L: p.i - 1}
	case "[":
		arr := &Node{Kind: "arr", F: p.i}
		p.next()
		if p.cur().Kind != "]" {
			for {
				a := p.assign()
				if p.bad {
					return nil
				}
				arr.Kids = append(arr.Kids, a)
				if p.cur().Kind == "," {
					p.next()
					continue
				}
				break
			}
		}
		if p.cur().Kind != "]" {
			return p.fail()
		}
		arr.L = p.i
		p.next()
		return arr
	}
	return p.fail()
}
