package ref

import (
	"strings"
)

// PTok is one printed token.
type PTok struct {
	Text       string
	NoNLBefore bool // a line break before this token would change the grammar ('.', '!.', call '(')
}

// QuoteString spells s as a single-quoted literal using only the named escapes
// and \xHH for other control bytes; bytes >= 0x80 stay raw.
func QuoteString(s string, quote byte) string {
	var b strings.Builder
	b.WriteByte(quote)
	for i := 0; i < len(s); i++ {
		c := s[i]
		switch {
		case c == quote:
			b.WriteByte('\\')
			b.WriteByte(c)
		case c == '\\':
			b.WriteString(`\\`)
		case c == '\n':
			b.WriteString(`\n`)
		case c == '\r':
			b.WriteString(`\r`)
		case c == '\t':
			b.WriteString(`\t`)
		case c == 0xC2 && i+1 < len(s) && s[i+1] == 0x85: // NEL is a line break: escape it
			b.WriteString(`\x85`)
			i++
		case c == 0xE2 && i+2 < len(s) && s[i+1] == 0x80 && (s[i+2] == 0xA8 || s[i+2] == 0xA9):
			if s[i+2] == 0xA8 {
				b.WriteString(`\u2028`)
			} else {
				b.WriteString(`\u2029`)
			}
			i += 2
		default:
			b.WriteByte(c)
		}
	}
	b.WriteByte(quote)
	return b.String()
}

// Flatten prints the tree to tokens. Parentheses are nodes of the tree, so no
// precedence logic lives here.
func (n *Node) Flatten() []PTok {
	var out []PTok
	n.flatten(&out)
	return out
}

func (n *Node) lexeme() string {
	if n.Src != "" {
		return n.Src
	}
	switch n.Kind {
	case "id", "num":
		return n.Val
	case "str":
		return QuoteString(n.Val, '\'')
	case "kw":
		return n.Op
	}
	return "?"
}

func (n *Node) flatten(out *[]PTok) {
	add := func(s string) { *out = append(*out, PTok{Text: s}) }
	switch n.Kind {
	case "id", "num", "str", "kw":
		add(n.lexeme())
	case "pre":
		add(n.Op)
		n.Kids[0].flatten(out)
	case "typeof":
		add("typeof")
		n.Kids[0].flatten(out)
	case "bin":
		n.Kids[0].flatten(out)
		add(n.Op)
		n.Kids[1].flatten(out)
	case "cond":
		n.Kids[0].flatten(out)
		add("?")
		n.Kids[1].flatten(out)
		add(":")
		n.Kids[2].flatten(out)
	case "sel":
		n.Kids[0].flatten(out)
		if n.Assert {
			*out = append(*out, PTok{Text: "!.", NoNLBefore: true})
		} else {
			*out = append(*out, PTok{Text: ".", NoNLBefore: true})
		}
		add(n.Val)
	case "call":
		n.Kids[0].flatten(out)
		*out = append(*out, PTok{Text: "(", NoNLBefore: true})
		for i, a := range n.Kids[1:] {
			if i > 0 {
				add(",")
			}
			a.flatten(out)
		}
		if n.Spread {
			add("...")
		}
		add(")")
	case "arr":
		add("[")
		for i, a := range n.Kids {
			if i > 0 {
				add(",")
			}
			a.flatten(out)
		}
		add("]")
	case "paren":
		add("(")
		n.Kids[0].flatten(out)
		add(")")
	}
}

// Join concatenates tokens with the given separators (seps[i] precedes token
// i; seps[len] trails). It then verifies with Lex that the text tokenises back
// to exactly these tokens; if not (two lexemes merged or re-split), every
// empty separator is replaced by a space.
func Join(toks []PTok, seps []string) string {
	build := func(fix bool) string {
		var b strings.Builder
		for i, t := range toks {
			s := seps[i]
			if fix && s == "" && i > 0 {
				s = " "
			}
			b.WriteString(s)
			b.WriteString(t.Text)
		}
		b.WriteString(seps[len(toks)])
		return b.String()
	}
	text := build(false)
	if sameTokens(text, toks) {
		return text
	}
	return build(true)
}

func sameTokens(text string, toks []PTok) bool {
	lr := Lex([]byte(text))
	if lr.Err || len(lr.Tokens) != len(toks)+1 {
		return false
	}
	for i, t := range toks {
		if text[lr.Tokens[i].Pos:lr.Tokens[i].End] != t.Text {
			return false
		}
	}
	return true
}

// Text prints the tree with single spaces between tokens.
func (n *Node) Text() string {
	toks := n.Flatten()
	seps := make([]string, len(toks)+1)
	for i := 1; i < len(toks); i++ {
		seps[i] = " "
	}
	return Join(toks, seps)
}

// Compact prints the tree with no separators where tokens do not merge.
func (n *Node) Compact() string {
	toks := n.Flatten()
	seps := make([]string, len(toks)+1)
	var b strings.Builder
	for i, t := range toks {
		if i > 0 {
			// pairwise check, then global check in Join
			prev := toks[i-1].Text
			lr := Lex([]byte(prev + t.Text))
			if lr.Err || len(lr.Tokens) != 3 || lr.Tokens[0].End != len(prev) {
				seps[i] = " "
			}
		}
		b.WriteString(seps[i])
		b.WriteString(t.Text)
	}
	return Join(toks, seps)
}

// CompactText re-spells a formula text with every optional separator removed:
// the same tokens, no trivia between two tokens unless they would merge (then
// one space) or the original trivia contained a line break (kept verbatim,
// line breaks can matter). ok is false when the text does not tokenise cleanly.
func CompactText(text string) (string, bool) {
	lr := Lex([]byte(text))
	if lr.Err || len(lr.Tokens) == 0 {
		return "", false
	}
	toks := lr.Tokens[:len(lr.Tokens)-1]
	ptoks := make([]PTok, 0, len(toks))
	seps := make([]string, len(toks)+1)
	prevEnd := 0
	for i, t := range toks {
		if t.Unspec {
			return "", false
		}
		lex := text[t.Pos:t.End]
		trivia := text[prevEnd:t.Pos]
		hasNL := false
		for _, r := range trivia {
			if IsNL(r) {
				hasNL = true
			}
		}
		switch {
		case hasNL:
			seps[i] = trivia
		case i > 0:
			prev := ptoks[i-1].Text
			pl := Lex([]byte(prev + lex))
			if pl.Err || len(pl.Tokens) != 3 || pl.Tokens[0].End != len(prev) {
				seps[i] = " "
			}
		}
		ptoks = append(ptoks, PTok{Text: lex})
		prevEnd = t.End
	}
	return Join(ptoks, seps), true
}

// BrokenText is the counterpart of CompactText: the same tokens, with a line break
// in front of every operator and closing token (binary and prefix operators, `?`,
// `:`, `,`, `)`, `]`) - the places where the grammar allows one. Tokens that must
// stay on the line of their left neighbour (`.`, `!.`, `(`) and `[`, `...` keep
// the trivia they had. ok is false when the text does not tokenise cleanly.
func BrokenText(text string) (string, bool) {
	lr := Lex([]byte(text))
	if lr.Err || len(lr.Tokens) == 0 {
		return "", false
	}
	toks := lr.Tokens[:len(lr.Tokens)-1]
	ptoks := make([]PTok, 0, len(toks))
	seps := make([]string, len(toks)+1)
	prevEnd := 0
	for i, t := range toks {
		if t.Unspec {
			return "", false
		}
		lex := text[t.Pos:t.End]
		seps[i] = text[prevEnd:t.Pos]
		punct := lex != ""
		for _, r := range lex {
			if r == '_' || r == '$' || r == '\'' || r == '"' || r > 127 || (r >= '0' && r <= '9') || (r >= 'a' && r <= 'z') || (r >= 'A' && r <= 'Z') {
				punct = false
			}
		}
		if i > 0 && punct && lex != "(" && lex != "." && lex != "!." && lex != "[" && lex != "..." {
			seps[i] = "\n"
		}
		ptoks = append(ptoks, PTok{Text: lex})
		prevEnd = t.End
	}
	return Join(ptoks, seps), true
}
