package ref

import (
	"math/big"
)

const realPrec = 320

func bf(x float64) *big.Float { return new(big.Float).SetPrec(realPrec).SetFloat64(x) }

// RatToFloat converts exactly enough (320 bits).
func RatToFloat(r *big.Rat) *big.Float {
	return new(big.Float).SetPrec(realPrec).SetRat(r)
}

// Exp computes e^x for |x| <= 2000 by argument halving and a Taylor series.
func Exp(x *big.Float) *big.Float {
	// reduce: x = y * 2^k with |y| < 2^-8
	k := 0
	y := new(big.Float).SetPrec(realPrec).Set(x)
	lim := bf(1.0 / 256)
	for new(big.Float).Abs(y).Cmp(lim) > 0 {
		y.Quo(y, bf(2))
		k++
	}
	sum := bf(1)
	term := bf(1)
	for i := 1; i < 80; i++ {
		term.Mul(term, y)
		term.Quo(term, bf(float64(i)))
		sum.Add(sum, term)
	}
	for i := 0; i < k; i++ {
		sum.Mul(sum, sum)
	}
	return sum
}

// Ln computes the natural logarithm of x > 0 by Newton iteration on Exp.
func Ln(x *big.Float) *big.Float {
	// initial guess from the binary exponent: ln x ~ e * ln 2 + ln m
	mant := new(big.Float).SetPrec(realPrec)
	e := x.MantExp(mant) // x = mant * 2^e, 0.5 <= mant < 1
	ln2 := ln2Const()
	mf, _ := mant.Float64()
	y := new(big.Float).SetPrec(realPrec).Mul(bf(float64(e)), ln2)
	y.Add(y, bf(approxLn(mf)))
	for i := 0; i < 12; i++ {
		ey := Exp(y)
		// y = y + 2*(x - ey)/(x + ey)  (Halley-type, cubic convergence)
		num := new(big.Float).SetPrec(realPrec).Sub(x, ey)
		den := new(big.Float).SetPrec(realPrec).Add(x, ey)
		num.Quo(num, den)
		num.Mul(num, bf(2))
		y.Add(y, num)
	}
	return y
}

func approxLn(m float64) float64 {
	// crude series around 0.75 is enough as a starting point
	z := (m - 1) / (m + 1)
	z2 := z * z
	return 2 * z * (1 + z2/3 + z2*z2/5 + z2*z2*z2/7)
}

var ln2Cache *big.Float

func ln2Const() *big.Float {
	if ln2Cache == nil {
		// ln 2 = sum_{k>=1} 1/(k 2^k)
		sum := new(big.Float).SetPrec(realPrec)
		p := bf(1)
		for k := 1; k < 400; k++ {
			p.Quo(p, bf(2))
			t := new(big.Float).SetPrec(realPrec).Quo(p, bf(float64(k)))
			sum.Add(sum, t)
		}
		ln2Cache = sum
	}
	return ln2Cache
}

// Log10 is Ln(x)/Ln(10).
func Log10(x *big.Float) *big.Float {
	return new(big.Float).SetPrec(realPrec).Quo(Ln(x), Ln(bf(10)))
}

// Sqrt is the standard library's correctly rounded square root at 320 bits.
func Sqrt(x *big.Float) *big.Float {
	return new(big.Float).SetPrec(realPrec).Sqrt(x)
}

// RelErr returns |got-want| / |want| (or |got| if want is zero) as a float64.
func RelErr(got, want *big.Float) float64 {
	d := new(big.Float).SetPrec(realPrec).Sub(got, want)
	d.Abs(d)
	if want.Sign() != 0 {
		d.Quo(d, new(big.Float).Abs(want))
	}
	f, _ := d.Float64()
	return f
}
