// Package spec describes data maps and host functions as plain serialisable
// values (so a failing case can be written to a replay file) and builds the
// real Go values from them.
package spec

import (
	"context"
	"fmt"
	"math"
	"reflect"
	"sort"
	"strconv"
	"strings"
	"time"
	_ "time/tzdata"

	"github.com/ericlagergren/decimal"
)

// V describes one Go value placed in a data map.
type V struct {
	K string       `json:"k"`           // kind, see Build
	S string       `json:"s,omitempty"` // string payload / number spelled as text / time RFC3339Nano
	Z string       `json:"z,omitempty"` // time zone name
	N string       `json:"n,omitempty"` // field name (elements of a "dyn" struct)
	L []V          `json:"l,omitempty"` // elements
	M map[string]V `json:"m,omitempty"` // entries
	F *Fn          `json:"f,omitempty"` // host function
}

// Fn describes a host function synthesised with reflect.MakeFunc.
type Fn struct {
	Name     string   `json:"name"`
	Ctx      bool     `json:"ctx,omitempty"`      // leading context.Context parameter
	Params   []string `json:"params"`             // parameter type names (see TypeOf); for a variadic function the last one is the element type
	Variadic bool     `json:"variadic,omitempty"` // last parameter is ...T
	Ret      string   `json:"ret"`                // result: kind name understood by retValue, or "echo" (returns its arguments as []interface{}), "arg0"
	RetS     string   `json:"rets,omitempty"`     // payload for the result
	Err      string   `json:"err,omitempty"`      // non-empty: returns this error
	NOut     int      `json:"nout,omitempty"`     // number of results if not 2 (1 or 3) - for misuse tests
}

// Call is one recorded invocation.
type Call struct {
	Name string
	Args []interface{}
	Ctx  context.Context
}

// Recorder collects invocations of all functions built with it.
type Recorder struct {
	Calls []Call
}

// S1 / S2 are the struct carriers.
type S2 struct {
	Label string
	N     int
}
type S1 struct {
	Name   string
	Age    int
	Score  float64
	Inner  S2
	P      *S2
	Any    interface{}
	hidden int
}

// S3 .. S6 are structs with embedded structs: S3's own Label shadows the one
// promoted from S2; in S4 the Label one level down (S2) wins over the one two
// levels down (S5.S6), Deep is promoted from two levels down.
type S3 struct {
	S2
	Label string
	Extra int
}
type S6 struct {
	Label string
	Deep  int
}
type S5 struct{ S6 }
type S4 struct {
	S5
	S2
}

// SetHidden exists so that the unexported field is used.
func (s *S1) SetHidden(v int) { s.hidden = v }

var ctxType = reflect.TypeOf((*context.Context)(nil)).Elem()
var errType = reflect.TypeOf((*error)(nil)).Elem()
var anyType = reflect.TypeOf((*interface{})(nil)).Elem()

// TypeOf maps a type name to a reflect.Type.
func TypeOf(name string) reflect.Type {
	switch {
	case strings.HasPrefix(name, "[]"):
		return reflect.SliceOf(TypeOf(name[2:]))
	case strings.HasPrefix(name, "map[string]"):
		return reflect.MapOf(reflect.TypeOf(""), TypeOf(name[len("map[string]"):]))
	}
	switch name {
	case "string":
		return reflect.TypeOf("")
	case "bool":
		return reflect.TypeOf(true)
	case "int":
		return reflect.TypeOf(int(0))
	case "int8":
		return reflect.TypeOf(int8(0))
	case "int16":
		return reflect.TypeOf(int16(0))
	case "int32":
		return reflect.TypeOf(int32(0))
	case "int64":
		return reflect.TypeOf(int64(0))
	case "uint":
		return reflect.TypeOf(uint(0))
	case "uint8":
		return reflect.TypeOf(uint8(0))
	case "uint64":
		return reflect.TypeOf(uint64(0))
	case "float32":
		return reflect.TypeOf(float32(0))
	case "float64":
		return reflect.TypeOf(float64(0))
	case "any":
		return anyType
	case "dec":
		return reflect.TypeOf((*decimal.Big)(nil))
	case "time":
		return reflect.TypeOf(time.Time{})
	case "S1":
		return reflect.TypeOf(S1{})
	case "ctx":
		return ctxType
	}
	panic("spec: unknown type name " + name)
}

func parseFloat(s string) float64 {
	switch s {
	case "NaN":
		return math.NaN()
	case "+Inf", "Inf":
		return math.Inf(1)
	case "-Inf":
		return math.Inf(-1)
	}
	f, err := strconv.ParseFloat(s, 64)
	if err != nil {
		panic("spec: bad float " + s)
	}
	return f
}

// Time builds the time described by (S, Z).
func (v V) Time() time.Time {
	t, err := time.Parse(time.RFC3339Nano, v.S)
	if err != nil {
		panic("spec: bad time " + v.S)
	}
	if v.Z != "" {
		loc, err := time.LoadLocation(v.Z)
		if err != nil {
			panic("spec: bad zone " + v.Z)
		}
		t = t.In(loc)
	}
	return t
}

// Build materialises the value. Functions record into rec.
func (v V) Build(rec *Recorder) interface{} {
	switch v.K {
	case "nil":
		return nil
	case "bool":
		return v.S == "true"
	case "string":
		return v.S
	case "int":
		n, _ := strconv.ParseInt(v.S, 10, 64)
		return int(n)
	case "int8":
		n, _ := strconv.ParseInt(v.S, 10, 8)
		return int8(n)
	case "int16":
		n, _ := strconv.ParseInt(v.S, 10, 16)
		return int16(n)
	case "int32":
		n, _ := strconv.ParseInt(v.S, 10, 32)
		return int32(n)
	case "int64":
		n, _ := strconv.ParseInt(v.S, 10, 64)
		return n
	case "uint":
		n, _ := strconv.ParseUint(v.S, 10, 64)
		return uint(n)
	case "uint8":
		n, _ := strconv.ParseUint(v.S, 10, 8)
		return uint8(n)
	case "uint64":
		n, _ := strconv.ParseUint(v.S, 10, 64)
		return n
	case "float32":
		return float32(parseFloat(v.S))
	case "float64":
		return parseFloat(v.S)
	case "dec":
		d, _ := decimal.WithContext(decimal.Context128).SetString(v.S)
		return d
	case "time":
		return v.Time()
	case "slice": // []interface{}
		out := make([]interface{}, len(v.L))
		for i, e := range v.L {
			out[i] = e.Build(rec)
		}
		return out
	case "strs":
		out := make([]string, len(v.L))
		for i, e := range v.L {
			out[i] = e.S
		}
		return out
	case "ints":
		out := make([]int, len(v.L))
		for i, e := range v.L {
			n, _ := strconv.ParseInt(e.S, 10, 64)
			out[i] = int(n)
		}
		return out
	case "maps": // []map[string]any
		out := make([]map[string]interface{}, len(v.L))
		for i, e := range v.L {
			out[i] = e.Build(rec).(map[string]interface{})
		}
		return out
	case "map":
		out := make(map[string]interface{}, len(v.M))
		for k, e := range v.M {
			out[k] = e.Build(rec)
		}
		return out
	case "mapint":
		out := make(map[string]int, len(v.M))
		for k, e := range v.M {
			n, _ := strconv.ParseInt(e.S, 10, 64)
			out[k] = int(n)
		}
		return out
	case "mapstr":
		out := make(map[string]string, len(v.M))
		for k, e := range v.M {
			out[k] = e.S
		}
		return out
	case "mapintkey":
		out := make(map[int]string, len(v.M))
		for k, e := range v.M {
			n, _ := strconv.Atoi(k)
			out[n] = e.S
		}
		return out
	case "struct", "pstruct":
		s := S1{Name: v.M["Name"].S, Inner: S2{Label: v.M["Label"].S}}
		if a, ok := v.M["Age"]; ok {
			n, _ := strconv.ParseInt(a.S, 10, 64)
			s.Age = int(n)
		}
		if a, ok := v.M["Score"]; ok {
			s.Score = parseFloat(a.S)
		}
		if a, ok := v.M["N"]; ok {
			n, _ := strconv.ParseInt(a.S, 10, 64)
			s.Inner.N = int(n)
		}
		if a, ok := v.M["P"]; ok && a.K != "nil" {
			s.P = &S2{Label: a.S}
		}
		if a, ok := v.M["Any"]; ok {
			s.Any = a.Build(rec)
		}
		s.SetHidden(7)
		if v.K == "pstruct" {
			return &s
		}
		return s
	case "dyn": // struct type synthesised with reflect.StructOf: fields in the order of L
		var fields []reflect.StructField
		vals := make([]interface{}, len(v.L))
		for i, f := range v.L {
			vals[i] = f.Build(rec)
			t := anyType
			if vals[i] != nil && f.K != "nil" && f.K != "map" && f.K != "slice" {
				t = reflect.TypeOf(vals[i])
			}
			fields = append(fields, reflect.StructField{Name: f.N, Type: t})
		}
		sv := reflect.New(reflect.StructOf(fields)).Elem()
		for i := range v.L {
			if vals[i] != nil {
				sv.Field(i).Set(reflect.ValueOf(vals[i]))
			}
		}
		return sv.Interface()
	case "emb3", "pemb3": // S: own label, Z: promoted (shadowed) label
		e := S3{S2: S2{Label: v.Z, N: 11}, Label: v.S, Extra: 12}
		if v.K == "pemb3" {
			return &e
		}
		return e
	case "emb4": // S: label one level down, Z: label two levels down
		return S4{S5: S5{S6{Label: v.Z, Deep: 13}}, S2: S2{Label: v.S, N: 14}}
	case "nilptr":
		return (*int)(nil)
	case "nildec": // a typed nil pointer to a decimal number
		return (*decimal.Big)(nil)
	case "nilslice": // typed nil slices and maps: slices and maps like any other, just empty
		return []interface{}(nil)
	case "nilstrs":
		return []string(nil)
	case "nilmap":
		return map[string]interface{}(nil)
	case "nilmapint":
		return map[string]int(nil)
	case "nilS":
		return (*S2)(nil)
	case "niltime":
		return (*time.Time)(nil)
	case "func":
		return v.F.Build(rec)
	}
	panic("spec: unknown kind " + v.K)
}

// BuildMap materialises a whole data map.
func BuildMap(m map[string]V, rec *Recorder) map[string]interface{} {
	out := make(map[string]interface{}, len(m))
	for k, v := range m {
		out[k] = v.Build(rec)
	}
	return out
}

// Keys returns the sorted keys.
func Keys(m map[string]V) []string {
	ks := make([]string, 0, len(m))
	for k := range m {
		ks = append(ks, k)
	}
	sort.Strings(ks)
	return ks
}

func retValue(kind, s string) reflect.Value {
	switch kind {
	case "nil":
		return reflect.Zero(anyType)
	case "int", "int8", "int16", "int32", "int64", "uint", "uint8", "uint64", "float32", "float64", "string", "bool", "dec", "time", "nilptr", "nildec":
		v := V{K: kind, S: s}
		if kind == "time" && s == "" {
			v.S = "2024-02-29T12:34:56Z"
		}
		b := v.Build(nil)
		out := reflect.New(anyType).Elem()
		out.Set(reflect.ValueOf(b))
		return out
	}
	panic("spec: unknown result kind " + kind)
}

// Type returns the function type described by f.
func (f *Fn) Type() reflect.Type {
	var in []reflect.Type
	if f.Ctx {
		in = append(in, ctxType)
	}
	for i, p := range f.Params {
		t := TypeOf(p)
		if f.Variadic && i == len(f.Params)-1 {
			t = reflect.SliceOf(t)
		}
		in = append(in, t)
	}
	out := []reflect.Type{anyType, errType}
	switch f.NOut {
	case 1:
		out = []reflect.Type{anyType}
	case 3:
		out = []reflect.Type{anyType, anyType, errType}
	}
	return reflect.FuncOf(in, out, f.Variadic)
}

// Build synthesises the function; every invocation is appended to rec.
func (f *Fn) Build(rec *Recorder) interface{} {
	ft := f.Type()
	fn := reflect.MakeFunc(ft, func(args []reflect.Value) []reflect.Value {
		c := Call{Name: f.Name}
		rest := args
		if f.Ctx {
			if !args[0].IsNil() {
				c.Ctx = args[0].Interface().(context.Context)
			}
			rest = args[1:]
		}
		for i, a := range rest {
			if f.Variadic && i == len(rest)-1 {
				// flatten the variadic tail
				for j := 0; j < a.Len(); j++ {
					c.Args = append(c.Args, a.Index(j).Interface())
				}
				continue
			}
			c.Args = append(c.Args, a.Interface())
		}
		if rec != nil {
			rec.Calls = append(rec.Calls, c)
		}
		var res reflect.Value
		switch f.Ret {
		case "echo":
			res = reflect.New(anyType).Elem()
			cp := append([]interface{}{}, c.Args...)
			res.Set(reflect.ValueOf(cp))
		case "arg0":
			res = reflect.New(anyType).Elem()
			if len(c.Args) > 0 && c.Args[0] != nil {
				res.Set(reflect.ValueOf(c.Args[0]))
			}
		case "arg1":
			res = reflect.New(anyType).Elem()
			if len(c.Args) > 1 && c.Args[1] != nil {
				res.Set(reflect.ValueOf(c.Args[1]))
			}
		case "count":
			res = reflect.New(anyType).Elem()
			n := 0
			if rec != nil {
				n = len(rec.Calls)
			}
			res.Set(reflect.ValueOf(n))
		default:
			res = retValue(f.Ret, f.RetS)
		}
		errv := reflect.Zero(errType)
		if f.Err != "" {
			errv = reflect.New(errType).Elem()
			errv.Set(reflect.ValueOf(fmt.Errorf("%s", f.Err)))
		}
		switch f.NOut {
		case 1:
			return []reflect.Value{res}
		case 3:
			return []reflect.Value{res, res, errv}
		}
		return []reflect.Value{res, errv}
	})
	return fn.Interface()
}

// Sig renders the signature for messages.
func (f *Fn) Sig() string {
	var ps []string
	if f.Ctx {
		ps = append(ps, "ctx")
	}
	for i, p := range f.Params {
		if f.Variadic && i == len(f.Params)-1 {
			p = "..." + p
		}
		ps = append(ps, p)
	}
	s := fmt.Sprintf("func %s(%s) (%s, error)", f.Name, strings.Join(ps, ", "), f.Ret)
	if f.Err != "" {
		s += " /*returns error*/"
	}
	return s
}
