package props

import (
	"encoding/json"
	"fmt"
	"os"
	"sort"
	"strconv"
	"strings"
	"testing"
	"time"
	"unicode/utf8"

	"github.com/aundis/formula"
	"pgregory.net/rapid"

	"verif/internal/h"
	"verif/internal/obs"
	"verif/internal/ref"
)

// C01 — parsing is total: a tree or an error, never a crash, hang or half-built tree.

// complete checks the completeness predicate on an accepted parse.
func complete(text []byte, src *formula.SourceCode) string {
	if src.Expression == nil || obs.IsNil(src.Expression) {
		return "accepted without a root expression"
	}
	if len(src.Diagnostics) != 0 {
		return fmt.Sprintf("accepted with %d diagnostics", len(src.Diagnostics))
	}
	if src.EndOfFileToken == nil {
		return "accepted without an end-of-file token"
	}
	if src.EndOfFileToken.End() != len(text) {
		return fmt.Sprintf("end-of-file token ends at %d, input length %d", src.EndOfFileToken.End(), len(text))
	}
	msg := ""
	fail := func(f string, a ...interface{}) {
		if msg == "" {
			msg = fmt.Sprintf(f, a...)
		}
	}
	obs.Walk(src.Expression, func(n formula.Node, parent formula.Node, c obs.Child) {
		if obs.IsNil(n) {
			if c.Slot != "DotDotDotToken" {
				fail("%T has a nil %s", parent, c.Slot)
			}
			return
		}
		switch x := n.(type) {
		case *formula.Identifier:
			if x.Value == "" {
				fail("identifier with empty name at %d (slot %s)", x.Pos(), c.Slot)
			}
			if x.End() <= x.Pos() {
				fail("zero-width identifier at %d (slot %s)", x.Pos(), c.Slot)
			}
		case *formula.TokenNode:
			if x.End() <= x.Pos() {
				fail("zero-width (missing) token in slot %s at %d", c.Slot, x.Pos())
			}
		case *formula.LiteralExpression:
			if x.End() <= x.Pos() {
				fail("zero-width literal at %d", x.Pos())
			}
		}
		_, lists := obs.Children(n)
		for _, l := range lists {
			if l.Nil {
				fail("%T has a nil %s list", n, l.Slot)
			}
		}
	})
	if msg != "" {
		return msg
	}
	// the whole input was consumed: only trivia between the root's end and the end of input
	end := src.Expression.End()
	if end < 0 || end > len(text) {
		return fmt.Sprintf("root expression ends at %d outside the text (len %d)", end, len(text))
	}
	for p := end; p < len(text); {
		c, sz := utf8.DecodeRune(text[p:])
		if !ref.IsSpace(c) && !ref.IsNL(c) {
			return fmt.Sprintf("input not consumed: %q remains after the root expression (ends at %d)", text[p:min(len(text), p+20)], end)
		}
		p += sz
	}
	return ""
}

// checkTotal parses text under a watchdog and checks the C01 outcome contract.
// class is a histogram label.
func checkTotal(text []byte, limit time.Duration) (msg string, class string) {
	var out obs.ParseOut
	if !obs.WithTimeout(limit, func() { out = obs.Parse(text) }) {
		if obs.Runaway {
			return fmt.Sprintf("ParseSourceCode did not return on %d bytes and kept allocating: more than %d GiB of live heap when it was given up", len(text), obs.RunawayBytes>>30), "hang"
		}
		return fmt.Sprintf("ParseSourceCode did not return within %v on %d bytes", limit, len(text)), "hang"
	}
	if out.Panic != nil {
		return fmt.Sprintf("ParseSourceCode panicked: %v", out.Panic), "panic"
	}
	if out.Err != nil {
		if out.Src != nil && len(out.Src.Diagnostics) > 0 {
			return "", "rejected-diagnostic"
		}
		return "", "rejected-assertion"
	}
	if out.Src == nil {
		return "nil tree and nil error", "nil-nil"
	}
	if m := complete(text, out.Src); m != "" {
		return "tree returned without error is not complete: " + m, "incomplete"
	}
	if m := lexicallyClean(text); m != "" {
		return m, "incomplete"
	}
	return "", "accepted"
}

// lexicallyClean: a tree without error can only come from an input in which
// every byte belongs to a well-formed token or to whitespace; an invalid
// character, a malformed number or an unterminated string that "disappears"
// means the input was not consumed.
func lexicallyClean(text []byte) string {
	lr := ref.Lex(text)
	if lr.Err {
		for _, tk := range lr.Tokens {
			if tk.Unspec {
				return "" // escape forms the properties leave open
			}
		}
		at := lr.ErrPos
		return fmt.Sprintf("accepted without error although the input is lexically malformed at offset %d (%q): the whole input was not consumed", at, text[at:min(len(text), at+12)])
	}
	return ""
}

func init() {
	h.RegisterReplay("c01", func(raw json.RawMessage) string {
		c, err := h.Decode[textCase](raw)
		if err != nil {
			return "bad replay: " + err.Error()
		}
		m, _ := checkTotal([]byte(c.text()), 20*time.Second)
		return m
	})
	h.RegisterReplay("c01-shape", func(raw json.RawMessage) string {
		c, err := h.Decode[shapeCase](raw)
		if err != nil {
			return "bad replay: " + err.Error()
		}
		return checkShape(c)
	})
}

// full token alphabet: every operator/punctuator, keyword, several identifier /
// number / string spellings, and hostile lexemes.
var c01Alphabet = []string{
	"(", ")", "[", "]", ".", "...", ",", "<", ">", "<=", ">=", "==", "===", "!=", "!==",
	"+", "-", "*", "/", "%", "&", "|", "^", "&&", "||", "??", "!", "!.", "!!", "~", "?", ":", "=",
	"true", "false", "null", "this", "ctx", "typeof",
	"a", "$x", "_", "1", "2.5", ".5", "1e3", "'s'", "\"t\"", "''",
	"#", "\\", "'u", "1a", "1_", "0x1", "\xe2\x80", "\xc2",
}

// TestC01TokenSequences: every sequence of up to k tokens over the full alphabet.
func TestC01TokenSequences(t *testing.T) {
	k := h.N(4, 5)
	run := h.Begin("C01", "token-sequences", fmt.Sprintf("bounded-exhaustive: every sequence of 1..%d tokens over the full %d-lexeme alphabet (all operators, keywords, identifier/number/string spellings, hostile lexemes '#', '\\', unterminated string, '1a', '1_', '0x1', truncated UTF-8 sequences), space separated; oracle: no panic, returns, exactly one of error / complete tree with no diagnostics and the whole input consumed; non-trivial: more than one token and accepted with >=3 nodes or rejected", k, len(c01Alphabet)))
	defer run.End(t)
	wd := startWatchdog(t, run, 20*time.Second) // a parse that does not return is a violation (hang), not a harness timeout
	defer wd.close()
	var sb strings.Builder
	enumSeq(len(c01Alphabet), k, func(seq []int) {
		if run.NViolations() >= 3 {
			return
		}
		sb.Reset()
		for i, s := range seq {
			if i > 0 {
				sb.WriteByte(' ')
			}
			sb.WriteString(c01Alphabet[s])
		}
		text := []byte(sb.String())
		wd.enter("c01", mkTextCase(string(text), ""))
		out := obs.Parse(text)
		wd.leave()
		msg, cls := "", ""
		switch {
		case out.Panic != nil:
			msg, cls = fmt.Sprintf("ParseSourceCode panicked: %v", out.Panic), "panic"
		case out.Err != nil:
			cls = "rejected-assertion"
			if out.Src != nil && len(out.Src.Diagnostics) > 0 {
				cls = "rejected-diagnostic"
			}
		case out.Src == nil:
			msg, cls = "nil tree and nil error", "nil-nil"
		default:
			cls = "accepted"
			if m := complete(text, out.Src); m != "" {
				msg, cls = "tree returned without error is not complete: "+m, "incomplete"
			} else if m := lexicallyClean(text); m != "" {
				msg, cls = m, "incomplete"
			}
		}
		nt := len(seq) > 1 && (cls != "accepted" || out.Src.NodeCount >= 3)
		run.Count(nt, cls)
		if len(seq) == k && (seq[0]+3*seq[k-1])%211 == 0 {
			run.Sample(cls, string(text))
		}
		if msg != "" {
			run.Fail("c01", mkTextCase(string(text), ""), fmt.Sprintf("%q: %s", text, msg))
		}
	})
	run.Exhaustive()
}

// TestC01RandomBytes: random token soups, byte strings and mutated formulas.
func TestC01RandomBytes(t *testing.T) {
	run := h.Begin("C01", "random-bytes", "rapid: arbitrary byte strings up to 64 KiB (uniform bytes incl. NUL and invalid UTF-8, punctuation-heavy ASCII, lexeme soups, multi-byte UTF-8, byte-mutated valid formulas); oracle as for token sequences plus a 20 s watchdog per parse; non-trivial: input longer than one token that is rejected, or accepted with >=3 nodes; distinct by text")
	defer run.End(t)
	h.RapidSetup(h.N(5000, 400000), "c01bytes")
	rapid.Check(t, func(rt *rapid.T) {
		sz := 65536
		if rapid.IntRange(0, 19).Draw(rt, "big") != 0 {
			sz = 96
		}
		text := genBytes(rt, sz)
		msg, cls := checkTotal(text, 20*time.Second)
		nt := len(text) > 3 && cls != "accepted"
		if cls == "accepted" {
			out := obs.Parse(text)
			nt = out.Src != nil && out.Src.NodeCount >= 3
		}
		run.CountKey(string(text), nt, cls)
		if len(text) <= 48 {
			run.Sample(cls, mkTextCase(string(text), "").Text)
		}
		if msg != "" {
			run.Pending("bytes", "c01", mkTextCase(string(text), ""), msg)
			rt.Fatalf("%s", msg)
		}
	})
}

// TestC01GeneratedValid: generated valid programs must be accepted, complete.
func TestC01GeneratedValid(t *testing.T) {
	run := h.Begin("C01", "generated-valid", "rapid: grammar-generated valid programs (depth<=8) with random layouts; oracle: accepted, complete tree, whole input consumed; non-trivial: >=5 nodes; distinct by text")
	defer run.End(t)
	h.RapidSetup(h.N(2000, 400000), "c01valid")
	rapid.Check(t, func(rt *rapid.T) {
		ast := genExpr(rt, &syntaxCfg, rapid.IntRange(1, 8).Draw(rt, "depth"), ref.LvComma)
		toks := ast.Flatten()
		text := []byte(ref.Join(toks, genLayout(rt, toks, 2)))
		msg, cls := checkTotal(text, 20*time.Second)
		if msg == "" && cls != "accepted" {
			msg = fmt.Sprintf("valid program %q was rejected (%s)", text, cls)
		}
		run.CountKey(string(text), ast.Count() >= 5, cls)
		run.Sample(cls, string(text))
		if msg != "" {
			run.Pending("valid", "c01", mkTextCase(string(text), ""), msg)
			rt.Fatalf("%s", msg)
		}
	})
}

// ---- pathological shapes and time proportional to length --------------------

type shapeCase struct {
	Name string `json:"name"`
	Unit string `json:"unit_quoted"`
	Pre  string `json:"pre_quoted"`
	Post string `json:"post_quoted"` // appended after the repeated units (e.g. closing brackets are built separately)
	Size int    `json:"size"`
}

type shape struct {
	name string
	make func(n int) []byte // about n bytes
}

func rep(s string, n int) string { return strings.Repeat(s, max(1, n/len(s))) }

var shapes = []shape{
	{"nested-parens", func(n int) []byte { k := n / 2; return []byte(strings.Repeat("(", k) + "a" + strings.Repeat(")", k)) }},
	{"nested-brackets", func(n int) []byte { k := n / 2; return []byte(strings.Repeat("[", k) + "a" + strings.Repeat("]", k)) }},
	{"open-parens-only", func(n int) []byte { return []byte(rep("(", n)) }},
	{"open-brackets-only", func(n int) []byte { return []byte(rep("[", n)) }},
	{"close-parens-only", func(n int) []byte { return []byte(rep(")", n)) }},
	{"minus-chain", func(n int) []byte { return []byte(rep("-", n) + "a") }},
	{"bang-chain", func(n int) []byte { return []byte(rep("! ", n) + "a") }},
	{"typeof-chain", func(n int) []byte { return []byte(rep("typeof ", n) + "a") }},
	{"plus-a-chain", func(n int) []byte { return []byte("a" + rep("+a", n)) }},
	{"mixed-binary-chain", func(n int) []byte { return []byte("a" + rep("*a+a||a", n)) }},
	{"dot-chain", func(n int) []byte { return []byte("a" + rep(".a", n)) }},
	{"call-chain", func(n int) []byte { return []byte("a" + rep("()", n)) }},
	{"call-nest", func(n int) []byte { k := n / 3; return []byte(strings.Repeat("f(", k) + "a" + strings.Repeat(")", k)) }},
	{"cond-chain", func(n int) []byte { return []byte("a" + rep("?a:a", n)) }},
	{"cond-nest-true", func(n int) []byte { k := n / 4; return []byte(strings.Repeat("a?", k) + "a" + strings.Repeat(":a", k)) }},
	{"assign-chain", func(n int) []byte { return []byte(rep("$a=", n) + "1") }},
	{"comma-chain", func(n int) []byte { return []byte("a" + rep(",a", n)) }},
	{"array-elems", func(n int) []byte { return []byte("[a" + rep(",a", n) + "]") }},
	{"args", func(n int) []byte { return []byte("f(a" + rep(",a", n) + ")") }},
	{"long-identifier", func(n int) []byte { return []byte(rep("a", n)) }},
	{"long-digits", func(n int) []byte { return []byte(rep("7", n)) }},
	{"underscore-run", func(n int) []byte { return []byte("1" + rep("_", n)) }},
	{"digit-underscore", func(n int) []byte { return []byte("1" + rep("_1", n)) }},
	{"long-string", func(n int) []byte { return []byte("'" + rep("x", n) + "'") }},
	{"unterminated-string", func(n int) []byte { return []byte("'" + rep("x", n)) }},
	{"escape-string", func(n int) []byte { return []byte("'" + rep("\\n", n) + "'") }},
	{"hex-escape-string", func(n int) []byte { return []byte("'" + rep("\\x41", n) + "'") }},
	{"many-strings", func(n int) []byte { return []byte(rep("'a'+", n) + "'a'") }},
	{"quotes", func(n int) []byte { return []byte(rep("'", n)) }},
	{"dots", func(n int) []byte { return []byte(rep(".", n)) }},
	{"dot-newline", func(n int) []byte { return []byte("a" + rep(".\nb", n)) }},
	{"newlines-then-paren", func(n int) []byte { return []byte(rep("\n", n) + ")") }},
	{"junk-bytes", func(n int) []byte { return []byte(rep("\xff", n)) }},
	{"backslashes", func(n int) []byte { return []byte(rep("\\", n)) }},
	{"hashes", func(n int) []byte { return []byte(rep("# ", n)) }},
	{"errors-in-list", func(n int) []byte { return []byte("[" + rep(") ", n) + "]") }},
	{"errors-in-args", func(n int) []byte { return []byte("f(" + rep(": ", n) + ")") }},
	{"bad-number-chain", func(n int) []byte { return []byte(rep("1a ", n)) }},
	{"unicode-ws", func(n int) []byte { return []byte(rep("\u3000", n) + "a") }},
	{"unicode-ident", func(n int) []byte { return []byte(rep("é", n)) }},
	{"nul-bytes", func(n int) []byte { return []byte(rep("\x00", n)) }},
	{"spread-chain", func(n int) []byte { return []byte("f(" + rep("a...", n) + ")") }},
	{"many-identifiers", func(n int) []byte { return []byte(rep("ab ", n)) }},
	{"ident-with-digits", func(n int) []byte { return []byte("a" + rep("1b2", n)) }},
	{"separated-numbers", func(n int) []byte { return []byte("1_0" + rep("+1_0", n)) }},
	{"unicode-escape-string", func(n int) []byte { return []byte("'" + rep("\\u00e9", n) + "'") }},
	{"nested-array-calls", func(n int) []byte {
		k := n / 4
		return []byte(strings.Repeat("f([", k) + "a" + strings.Repeat("])", k))
	}},
	{"spaces-run", func(n int) []byte { return []byte("a" + rep(" ", n) + "+ b") }},
	{"newline-run", func(n int) []byte { return []byte("a" + rep("\r\n", n) + "+ b") }},
	{"selector-call-chain", func(n int) []byte { return []byte("a" + rep(".b()", n)) }},
	{"assert-selector-chain", func(n int) []byte { return []byte("a" + rep("!.b", n)) }},
	{"nullish-chain", func(n int) []byte { return []byte("a" + rep("??a", n)) }},
	{"strict-eq-chain", func(n int) []byte { return []byte("a" + rep("!==a===a", n)) }},
	{"long-exponent", func(n int) []byte { return []byte("1e" + rep("9", n)) }},
	{"long-fraction", func(n int) []byte { return []byte("0." + rep("3", n)) }},
	{"paren-cond-mix", func(n int) []byte {
		k := n / 6
		return []byte(strings.Repeat("(a?", k) + "a" + strings.Repeat(":a)", k))
	}},
	{"diagnostics-many-lines", func(n int) []byte { return []byte("[" + rep(")\n", n) + "]") }},
	{"multibyte-identifiers", func(n int) []byte { return []byte(rep("\u4e2d\u6587+", n) + "a") }},
}

// lexeme-run shapes: a long run of one lexeme of the alphabet (operators without
// operands, keywords, literals, hostile lexemes), at top level and inside call
// arguments, an array, parentheses and a member chain.
func init() {
	ctxs := []struct{ name, open, close string }{{"top", "", ""}, {"call", "f(", ")"}, {"array", "[", "]"}, {"paren", "(", ")"}, {"args2", "f(a, ", ", b)"}, {"cond", "a ? ", " : b"}}
	for li, lx := range c01Alphabet {
		lx := lx
		for _, cx := range ctxs {
			cx := cx
			shapes = append(shapes, shape{fmt.Sprintf("run-%s-of-lexeme-%d-%s", cx.name, li, strconv.QuoteToASCII(lx)), func(n int) []byte {
				return []byte(cx.open + rep(lx+" ", n) + cx.close)
			}})
		}
	}
}

func timeParse(text []byte, reps int) time.Duration {
	best := time.Duration(1 << 62)
	for i := 0; i < reps; i++ {
		t0 := time.Now()
		obs.Parse(text)
		if d := time.Since(t0); d < best {
			best = d
		}
	}
	return best
}

// checkShape: contract at 64 KiB plus the scaling rule between 16 and 64 KiB.
func checkShape(c shapeCase) string {
	var sh *shape
	for i := range shapes {
		if shapes[i].name == c.Name {
			sh = &shapes[i]
		}
	}
	if sh == nil {
		return "unknown shape " + c.Name
	}
	for _, n := range []int{8 << 10, 16 << 10, 32 << 10, 64 << 10} {
		text := sh.make(n)
		if len(text) > 64<<10 {
			text = text[:64<<10]
		}
		t0 := time.Now()
		if msg, _ := checkTotal(text, 30*time.Second); msg != "" {
			return fmt.Sprintf("shape %s at %d bytes: %s", c.Name, len(text), msg)
		}
		if d := time.Since(t0); d > 5*time.Second && n < 64<<10 {
			// already seconds at a fraction of the size: confirm on the spot instead of waiting for 64 KiB
			small := timeParse(sh.make(n/4), 3)
			if again := timeParse(text, 2); again > 5*time.Second && float64(again) > 8*float64(small) {
				return fmt.Sprintf("shape %s: parse time not proportional to length: %d bytes %v, %d bytes %v (ratio %.1f; linear=4, quadratic=16)", c.Name, n/4, small, n, again, float64(again)/float64(small))
			}
		}
	}
	t16 := timeParse(sh.make(16<<10), 5)
	t64 := timeParse(sh.make(64<<10), 5)
	if t64 > 250*time.Millisecond && float64(t64) > 8*float64(t16) {
		// re-measure once to rule out scheduling noise
		t16 = timeParse(sh.make(16<<10), 7)
		t64 = timeParse(sh.make(64<<10), 7)
		if t64 > 250*time.Millisecond && float64(t64) > 8*float64(t16) {
			return fmt.Sprintf("shape %s: parse time not proportional to length: 16 KiB %v, 64 KiB %v (ratio %.1f; linear=4, quadratic=16)", c.Name, t16, t64, float64(t64)/float64(t16))
		}
	}
	return ""
}

// TestC01Shapes: pathological shapes at 8/16/32/64 KiB.
func TestC01Shapes(t *testing.T) {
	run := h.Begin("C01", "shapes", fmt.Sprintf("%d pathological shapes (deep nesting, long operator/member/call/conditional/assignment/comma chains, long identifiers/digit runs/strings, unterminated literals, runs of quotes/dots/junk bytes/backslashes, error recovery inside lists; and a run of each of the %d lexemes of the alphabet at top level, inside call arguments, an array, parentheses, after other arguments and as a conditional branch) at 8, 16, 32 and 64 KiB; oracle: outcome contract under a 30 s watchdog, and time roughly proportional to length: violation only if min-of-5 t(64K) > 250 ms and t(64K)/t(16K) > 8; every shape is non-trivial", len(shapes), len(c01Alphabet)))
	defer run.End(t)
	var timings []string
	for i, sh := range shapes {
		if !h.Mine(int64(i)) || run.NViolations() >= 1 {
			continue // one slow shape is enough: each further one would cost minutes
		}
		c := shapeCase{Name: sh.name}
		run.Count(true, "")
		if msg := checkShape(c); msg != "" {
			run.Fail("c01-shape", c, msg)
			if strings.Contains(msg, "did not return") {
				// the parse is still running (and possibly allocating) in its goroutine: nothing measured after this
				// would mean anything
				run.End(t)
				fmt.Println("HANG: shape", c.Name)
				os.Exit(1)
			}
		}
		timings = append(timings, fmt.Sprintf("%s=%v", sh.name, timeParse(sh.make(64<<10), 1).Round(100*time.Microsecond)))
	}
	sort.Strings(timings)
	run.Sample("timings-64KiB", strings.Join(timings, " "))
	run.Exhaustive()
}

// FuzzC01ParseTotal: native coverage-guided fuzzing with the oracle inside.
func FuzzC01ParseTotal(f *testing.F) {
	for _, lx := range c01Alphabet {
		f.Add([]byte(lx))
	}
	for _, s := range []string{"a + b * c", "f(a, b...)", "x ? y : z", "[1, 'two', null]", "a.b!.c(d)", "$v = 1, $v + 1", "typeof !!a", "'\\x41\\u00e9'", "1_000.5e-3"} {
		f.Add([]byte(s))
	}
	for _, sh := range shapes {
		f.Add(sh.make(256))
	}
	f.Fuzz(func(t *testing.T, data []byte) {
		if len(data) > 65536 {
			data = data[:65536]
		}
		if msg, _ := checkTotal(data, 30*time.Second); msg != "" {
			t.Fatalf("%s\ninput: %q", msg, data)
		}
		if msg := checkTiling(data); msg != "" {
			t.Fatalf("%s", msg)
		}
	})
}

// TestC01Speculation: inputs that drive the parser's only speculative path (a
// member name on the line after its dot) followed by every token of the full
// alphabet, inside and outside lists.
func TestC01Speculation(t *testing.T) {
	run := h.Begin("C01", "speculation", "bounded-exhaustive: context {_, [_], f(_), (_), [x, _], f(x, _), _ + y} x 'a' ('.'|'!.') <line break> name(b|null|typeof) x every pair of following tokens over the full alphabet (incl. hostile lexemes and the empty token); this drives the look-ahead / rollback path of member-name parsing; oracle: outcome contract incl. 'no lexically malformed input is accepted'; non-trivial: all")
	defer run.End(t)
	ctxs := []string{"_", "[_]", "f(_)", "(_)", "[x, _]", "f(x, _)", "_ + y"}
	tail := append([]string{""}, c01Alphabet...)
	var idx int64
	for _, cx := range ctxs {
		for _, sel := range []string{".", "!."} {
			for _, nl := range []string{"\n", "\r\n", "\u2028"} {
				for _, name := range []string{"b", "null", "typeof"} {
					for _, t1 := range tail {
						for _, t2 := range tail {
							idx++
							if !h.Mine(idx) || run.NViolations() >= 3 {
								continue
							}
							core := "a" + sel + nl + name + " " + t1 + " " + t2
							text := []byte(strings.ReplaceAll(cx, "_", core))
							msg, cls := checkTotal(text, 20*time.Second)
							run.Count(true, cls)
							if idx%7919 == 0 {
								run.Sample(cls, string(text))
							}
							if msg != "" {
								run.Fail("c01", mkTextCase(string(text), ""), fmt.Sprintf("%q: %s", text, msg))
							}
						}
					}
				}
			}
		}
	}
	run.Exhaustive()
}

// c01ShortTexts: short texts whose *value* is extreme, not their length.
func c01ShortTexts() []string {
	var out []string
	for d := 1; d <= 12; d++ {
		nines := strings.Repeat("9", d)
		out = append(out, "1e"+nines, "1e-"+nines, "1.5E+"+nines, ".1e"+nines, "0.000001e-"+nines, nines+"e"+nines, "1_0e"+nines,
			"[1e"+nines+", 1e-"+nines+"]", "f(2.5e-"+nines+") + 1e"+nines, "1e"+nines+"x", "'a' + 1e+"+nines+" ? 1e"+nines+" : .5e-"+nines)
	}
	for _, s := range []string{"1e2147483647", "1e2147483648", "1e-2147483648", "1e4294967296", "1e9223372036854775807", "1e-9223372036854775808", "1e18446744073709551616",
		"99999999999999999999999999999999999999e99999999", "0.00000000000000000000000000000000000001e-99999999", "1e0000000000000000000000001", "1e+00000000099999999"} {
		out = append(out, s, "["+s+"]", "x == "+s)
	}
	return out
}

func checkShortText(text string) string {
	if msg, _ := checkTotal([]byte(text), 20*time.Second); msg != "" {
		return fmt.Sprintf("%q: %s", text, msg)
	}
	// the same number of bytes of an ordinary formula is the yardstick
	plain := []byte(strings.Repeat("a+1*", len(text)/4+1)[:len(text)/4*4] + "b")
	t := timeParse([]byte(text), 5)
	if t > 5*time.Millisecond {
		base := timeParse(plain, 5)
		t = timeParse([]byte(text), 7)
		if t > 5*time.Millisecond && float64(t) > 200*float64(base) {
			return fmt.Sprintf("parse time not proportional to length: the %d bytes %q take %v (best of 7), %d bytes of an ordinary formula %v", len(text), text, t, len(plain), base)
		}
	}
	return ""
}

func init() {
	h.RegisterReplay("c01-short", func(raw json.RawMessage) string {
		c, err := h.Decode[textCase](raw)
		if err != nil {
			return "bad replay: " + err.Error()
		}
		return checkShortText(c.text())
	})
}

// TestC01ShortTexts: the time a parse takes follows the length of the text, not the numbers written in it.
func TestC01ShortTexts(t *testing.T) {
	texts := c01ShortTexts()
	run := h.Begin("C01", "short-texts", fmt.Sprintf("enumerated: %d texts of at most 100 bytes whose literals have extreme values (exponents of 1..12 nines, both signs, around 2^31 / 2^32 / 2^63 / 2^64, long coefficients, zero-padded exponents), alone and inside lists, calls, comparisons and conditionals; oracle: outcome contract under a 20 s watchdog, and time proportional to length: violation only if best-of-7 > 5 ms and > 200 x the time of an ordinary formula of the same length; every text non-trivial", len(texts)))
	defer run.End(t)
	for i, text := range texts {
		if !h.Mine(int64(i)) || run.NViolations() >= 1 {
			continue
		}
		run.Count(true, "")
		if i%29 == 0 {
			run.Sample("short", text)
		}
		if msg := checkShortText(text); msg != "" {
			run.Fail("c01-short", mkTextCase(text, ""), msg)
		}
	}
	run.Exhaustive()
}

// TestC01MagicPrefixes: byte order marks and other signatures that a reader of
// files might want to be clever about, followed by payloads of every short length.
func TestC01MagicPrefixes(t *testing.T) {
	prefixes := []string{"\xff\xfe", "\xfe\xff", "\xef\xbb\xbf", "\xff\xfe\x00\x00", "\x00\x00\xfe\xff", "\xef\xbb", "\xef", "\xff", "\xfe", "\x00", "\x00\x00", "\x1f\x8b", "#!", "//", "/*", "=", "@", "\\u", "\x7fELF", "PK\x03\x04", "<?", "{\"", "\r\n", "\u2028", "\ufeff\ufeff"}
	units := []string{"a", "\x00", "a\x00", "+", "1", "'", "\xff", "\xd8\x00", "\x00\xd8", " ", "\n"}
	run := h.Begin("C01", "magic-prefixes", fmt.Sprintf("bounded-exhaustive: %d leading byte sequences (byte order marks of UTF-8 / UTF-16 / UTF-32 in both byte orders and their truncations, NUL bytes, gzip / ELF / zip / shebang / comment signatures) x %d payload units repeated 0..9 times, and the prefix repeated / placed after a valid formula; oracle: outcome contract under a 20 s watchdog (returns, no panic, error or complete tree); non-trivial: every case", len(prefixes), len(units)))
	defer run.End(t)
	wd := startWatchdog(t, run, 20*time.Second)
	defer wd.close()
	var idx int64
	for _, p := range prefixes {
		for _, u := range units {
			for n := 0; n <= 9; n++ {
				for _, text := range []string{p + strings.Repeat(u, n), "a+1" + p + strings.Repeat(u, n), p + p + strings.Repeat(u, n)} {
					idx++
					if !h.Mine(idx) || run.NViolations() >= 3 {
						continue
					}
					c := mkTextCase(text, "")
					wd.enter("c01", c)
					msg, cls := checkTotal([]byte(text), 20*time.Second)
					wd.leave()
					run.Count(true, cls)
					if idx%997 == 0 {
						run.Sample(cls, c.Text)
					}
					if msg != "" {
						run.Fail("c01", c, fmt.Sprintf("%s: %s", c.Text, msg))
					}
				}
			}
		}
	}
	run.Exhaustive()
}
