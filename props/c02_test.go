package props

import (
	"encoding/json"
	"fmt"
	"strconv"
	"strings"
	"testing"

	"pgregory.net/rapid"

	"verif/internal/h"
	"verif/internal/obs"
	"verif/internal/ref"
)

// C02 — the tree follows the grammar.
//
// Oracle 1: ref.Parse, a stratified recursive-descent parser over an
// independent longest-match tokenizer. Oracle 2 (generated programs): the
// dump of the generated AST itself.

// textCase is the replay form of every text-level case: the text is stored
// quoted (strconv.QuoteToASCII) so that arbitrary bytes survive JSON.
type textCase struct {
	Text   string `json:"text_quoted"`
	Expect string `json:"expect,omitempty"` // expected dump from the generator, if any
}

func mkTextCase(text, expect string) textCase {
	return textCase{Text: strconv.QuoteToASCII(text), Expect: expect}
}

func (c textCase) text() string {
	s, err := strconv.Unquote(c.Text)
	if err != nil {
		return c.Text
	}
	return s
}

// checkGrammar compares the implementation with the reference grammar on one text.
func checkGrammar(text string, expect string) string {
	want := ref.Parse([]byte(text))
	got := obs.Parse([]byte(text))
	if got.Panic != nil {
		return fmt.Sprintf("ParseSourceCode(%q) panicked: %v", text, got.Panic)
	}
	if expect != "" {
		if want == nil || want.Dump() != expect {
			wd := "<reject>"
			if want != nil {
				wd = want.Dump()
			}
			return fmt.Sprintf("HARNESS: reference parser disagrees with generator on %q: ref=%s gen=%s", text, wd, expect)
		}
	}
	if want == nil {
		if got.Err == nil {
			d := "<nil>"
			if got.Src != nil {
				d = obs.Dump(got.Src.Expression)
			}
			return fmt.Sprintf("%q is not derivable from the grammar but was accepted as %s", text, d)
		}
		return ""
	}
	if got.Err != nil {
		return fmt.Sprintf("%q is derivable (%s) but was rejected: %v", text, want.Dump(), got.Err)
	}
	if got.Src == nil {
		return fmt.Sprintf("%q: nil source without error", text)
	}
	if d := obs.Dump(got.Src.Expression); d != want.Dump() {
		return fmt.Sprintf("%q parsed as %s, grammar says %s", text, d, want.Dump())
	}
	return ""
}

func init() {
	h.RegisterReplay("c02", func(raw json.RawMessage) string {
		c, err := h.Decode[textCase](raw)
		if err != nil {
			return "bad replay: " + err.Error()
		}
		return checkGrammar(c.text(), c.Expect)
	})
}

// one representative lexeme per token class
var c02Alphabet = []string{
	"a", "1", "'s'", "null", "this", "typeof",
	"(", ")", "[", "]", ".", "...", ",",
	"<", ">", "<=", ">=", "==", "===", "!=", "!==",
	"+", "-", "*", "/", "%", "&", "|", "^", "&&", "||", "??",
	"!", "!.", "!!", "~", "?", ":", "=",
}

// enumSeq enumerates every sequence of 1..k symbols over an alphabet of size n,
// calling f(indices) for the ones owned by this shard.
func enumSeq(n, k int, f func(seq []int)) {
	var idx int64
	for l := 1; l <= k; l++ {
		seq := make([]int, l)
		for {
			idx++
			if h.Mine(idx) {
				f(seq)
			}
			p := l - 1
			for p >= 0 {
				seq[p]++
				if seq[p] < n {
					break
				}
				seq[p] = 0
				p--
			}
			if p < 0 {
				break
			}
		}
	}
}

func c02Nontrivial(text string, want *ref.Node, lexOK bool) bool {
	if want == nil {
		return lexOK // grammatical rejection of a lexically valid sequence
	}
	levels := map[int]bool{}
	unary, postfix, list := false, false, false
	want.Walk(func(n *ref.Node) {
		switch n.Kind {
		case "bin", "cond":
			levels[n.Level()] = true
		case "pre", "typeof":
			unary = true
		case "sel", "call":
			postfix = true
			if n.Kind == "call" && len(n.Kids) > 2 {
				list = true
			}
		case "arr":
			list = list || len(n.Kids) > 1
		}
	})
	return len(levels) >= 2 || (unary && postfix) || list || (unary && len(levels) >= 1) || (postfix && len(levels) >= 1)
}

// TestC02TokenSequences: every sequence of up to k tokens over one lexeme per
// token class, joined by single spaces.
func TestC02TokenSequences(t *testing.T) {
	k := h.N(4, 5)
	run := h.Begin("C02", "token-sequences", fmt.Sprintf("bounded-exhaustive: every sequence of 1..%d tokens over 39 lexemes (one per token class), space separated; oracle: stratified reference parser (accept/reject and tree dump); non-trivial: accepted with >=2 precedence levels / unary+postfix / a list, or rejected although every token is lexically valid", k))
	defer run.End(t)
	var sb strings.Builder
	enumSeq(len(c02Alphabet), k, func(seq []int) {
		if run.NViolations() >= 3 {
			return
		}
		sb.Reset()
		for i, s := range seq {
			if i > 0 {
				sb.WriteByte(' ')
			}
			sb.WriteString(c02Alphabet[s])
		}
		text := sb.String()
		want := ref.Parse([]byte(text))
		cls := "rejected"
		if want != nil {
			cls = "accepted"
		}
		run.Count(c02Nontrivial(text, want, true), cls)
		if want != nil && len(seq) == k {
			run.Sample(cls, text)
		} else if want == nil && len(seq) == 3 {
			run.Sample(cls, text)
		}
		if msg := checkGrammar(text, ""); msg != "" {
			run.Fail("c02", mkTextCase(text, ""), msg)
		}
	})
	run.Exhaustive()
}

// TestC02LineBreaks: every sequence of up to k tokens x every subset of gaps
// holding a line break instead of a space.
func TestC02LineBreaks(t *testing.T) {
	k := h.N(3, 4)
	run := h.Begin("C02", "line-breaks", fmt.Sprintf("bounded-exhaustive: every sequence of 2..%d tokens over the 39 lexemes x every subset of gaps holding '\\n' instead of ' '; oracle: reference parser (same-line rule for '.', '!.' and call '('); non-trivial: a line break adjacent to '.', '!.' or '('", k))
	defer run.End(t)
	var sb strings.Builder
	enumSeq(len(c02Alphabet), k, func(seq []int) {
		if len(seq) < 2 || run.NViolations() >= 3 {
			return
		}
		gaps := len(seq) - 1
		for mask := 1; mask < 1<<gaps; mask++ {
			sb.Reset()
			nt := false
			for i, s := range seq {
				if i > 0 {
					if mask&(1<<(i-1)) != 0 {
						sb.WriteByte('\n')
						lx := c02Alphabet[s]
						if lx == "." || lx == "!." || lx == "(" {
							nt = true
						}
					} else {
						sb.WriteByte(' ')
					}
				}
				sb.WriteString(c02Alphabet[s])
			}
			text := sb.String()
			run.Count(nt, "")
			if nt && len(seq) == k && mask == 1 {
				run.Sample("nl", text)
			}
			if msg := checkGrammar(text, ""); msg != "" {
				run.Fail("c02", mkTextCase(text, ""), msg)
			}
		}
	})
	run.Exhaustive()
}

// TestC02OperatorTriples: a op1 b op2 c op3 d for every triple over the 19
// ladder operators plus '=', ',' and '? x :'.
func TestC02OperatorTriples(t *testing.T) {
	run := h.Begin("C02", "operator-triples", "bounded-exhaustive: 'a OP1 b OP2 c OP3 d' for every triple (and every pair) over the 19 binary operators, '=', ',' and '? x :'; oracle: reference parser; non-trivial: at least two different precedence levels")
	defer run.End(t)
	ops := append([]string{}, ref.BinOps...)
	ops = append(ops, "=", ",", "? x :")
	var idx int64
	try := func(text string) {
		idx++
		if !h.Mine(idx) || run.NViolations() >= 3 {
			return
		}
		want := ref.Parse([]byte(text))
		run.Count(c02Nontrivial(text, want, true), "")
		if idx%997 == 0 {
			run.Sample("triple", text)
		}
		if msg := checkGrammar(text, ""); msg != "" {
			run.Fail("c02", mkTextCase(text, ""), msg)
		}
	}
	for _, o1 := range ops {
		for _, o2 := range ops {
			try("a " + o1 + " b " + o2 + " c")
			for _, o3 := range ops {
				try("a " + o1 + " b " + o2 + " c " + o3 + " d")
			}
		}
	}
	run.Exhaustive()
}

// TestC02UnaryPostfix: prefix x prefix x primary x postfix x postfix, alone and
// with a binary operator on either side, inside lists as well.
func TestC02UnaryPostfix(t *testing.T) {
	run := h.Begin("C02", "unary-postfix", "bounded-exhaustive: {none,+,-,!,!!,~,typeof}^2 x primary {a,1,'s',(a),[a],null} x postfix {none,.b,!.b,(c),(c...),()}^2 x context {alone, 'x OP _', '_ OP x', '[_]', 'f(_)', '[x, _]', '_ ? _ : _'} for OP in {*,+,==,&&,=}; oracle: reference parser; non-trivial: every case with at least one prefix and one postfix")
	defer run.End(t)
	pres := []string{"", "+", "-", "!", "!!", "~", "typeof"}
	prims := []string{"a", "1", "'s'", "(a)", "[a]", "null"}
	posts := []string{"", ".b", "!.b", "(c)", "(c...)", "()"}
	ctxs := []string{"_", "x * _", "_ * x", "x + _", "_ == x", "x && _", "_ = x", "$v = _", "[_]", "f(_)", "[x, _]", "f(x, _)", "_ ? _ : _", "(_)", "_ , _"}
	var idx int64
	for _, p1 := range pres {
		for _, p2 := range pres {
			for _, pr := range prims {
				for _, q1 := range posts {
					for _, q2 := range posts {
						core := strings.TrimSpace(p1 + " " + p2 + " " + pr + q1 + q2)
						for _, cx := range ctxs {
							idx++
							if !h.Mine(idx) || run.NViolations() >= 3 {
								continue
							}
							text := strings.ReplaceAll(cx, "_", core)
							nt := (p1 != "" || p2 != "") && (q1 != "" || q2 != "")
							run.Count(nt, "")
							if idx%4001 == 0 {
								run.Sample("unary-postfix", text)
							}
							if msg := checkGrammar(text, ""); msg != "" {
								run.Fail("c02", mkTextCase(text, ""), msg)
							}
						}
					}
				}
			}
		}
	}
	run.Exhaustive()
}

// TestC02Generated: random grammar-directed programs, minimal parentheses,
// random layout; the expected tree is the generated one.
func TestC02Generated(t *testing.T) {
	run := h.Begin("C02", "generated", "rapid: random ASTs (depth<=6, all node kinds, spread, keywords after dots) printed with parentheses only where the grammar level requires them and a random layout (never a line break before '.', '!.', call '('); oracle: the generated tree itself, cross-checked with the reference parser; non-trivial: >=2 precedence levels or unary/postfix mix or list; distinct by text")
	defer run.End(t)
	h.RapidSetup(h.N(4000, 1200000), "c02gen")
	rapid.Check(t, func(rt *rapid.T) {
		depth := rapid.IntRange(1, 6).Draw(rt, "depth")
		ast := genExpr(rt, &syntaxCfg, depth, ref.LvComma)
		toks := ast.Flatten()
		seps := genLayout(rt, toks, rapid.IntRange(0, 3).Draw(rt, "nlw"))
		text := ref.Join(toks, seps)
		expect := ast.Dump()
		run.CountKey(text, c02Nontrivial(text, ast, true), "")
		run.Sample("generated", text)
		if msg := checkGrammar(text, expect); msg != "" {
			run.Pending("gen", "c02", mkTextCase(text, expect), msg)
			rt.Fatalf("%s", msg)
		}
	})
}

// TestC02Mutated: token-level mutations of valid programs (delete / insert /
// swap / duplicate one token, insert a line break anywhere).
func TestC02Mutated(t *testing.T) {
	run := h.Begin("C02", "mutated", "rapid: a generated valid program with one or two token-level mutations (delete, insert a random lexeme, swap neighbours, duplicate, turn a gap into a line break); oracle: reference parser; non-trivial: as for token sequences; distinct by text")
	defer run.End(t)
	h.RapidSetup(h.N(4000, 1200000), "c02mut")
	rapid.Check(t, func(rt *rapid.T) {
		depth := rapid.IntRange(1, 4).Draw(rt, "depth")
		ast := genExpr(rt, &syntaxCfg, depth, ref.LvComma)
		toks := ast.Flatten()
		nm := rapid.IntRange(1, 2).Draw(rt, "nmut")
		for m := 0; m < nm && len(toks) > 0; m++ {
			at := rapid.IntRange(0, len(toks)-1).Draw(rt, "at")
			switch rapid.IntRange(0, 4).Draw(rt, "mut") {
			case 0:
				toks = append(toks[:at:at], toks[at+1:]...)
			case 1:
				lx := rapid.SampledFrom(c01Alphabet).Draw(rt, "lexeme") // full alphabet incl. hostile lexemes
				toks = append(toks[:at:at], append([]ref.PTok{{Text: lx}}, toks[at:]...)...)
			case 2:
				if at+1 < len(toks) {
					toks[at], toks[at+1] = toks[at+1], toks[at]
				}
			case 3:
				toks = append(toks[:at:at], append([]ref.PTok{toks[at]}, toks[at:]...)...)
			case 4:
				toks[at].NoNLBefore = false // allow a line break here
			}
		}
		seps := make([]string, len(toks)+1)
		for i := 1; i < len(toks); i++ {
			seps[i] = " "
			afterDot := toks[i-1].Text == "." || toks[i-1].Text == "!."
			if !toks[i].NoNLBefore && (rapid.IntRange(0, 7).Draw(rt, "nl") == 0 || afterDot && rapid.Bool().Draw(rt, "nldot")) {
				seps[i] = "\n"
			}
		}
		var sb strings.Builder
		for i, tk := range toks {
			sb.WriteString(seps[i])
			sb.WriteString(tk.Text)
		}
		text := sb.String()
		lr := ref.Lex([]byte(text))
		want := ref.Parse([]byte(text))
		cls := "rejected"
		if want != nil {
			cls = "accepted"
		}
		run.CountKey(text, c02Nontrivial(text, want, !lr.Err), cls)
		run.Sample(cls, text)
		if msg := checkGrammar(text, ""); msg != "" {
			run.Pending("mut", "c02", mkTextCase(text, ""), msg)
			rt.Fatalf("%s", msg)
		}
	})
}

// TestC02SameLine: postfix chains with a line break inserted before exactly one
// '.', '!.' or call '(' (or none): member access and calls must start on the
// line of their target.
func TestC02SameLine(t *testing.T) {
	run := h.Begin("C02", "same-line", "bounded-exhaustive: primary {a, f(x), (a), [a], 1} followed by every chain of 1..4 postfix operations over {.b, !.b, (), (c)} with one of six line-break forms inserted before one chosen postfix token (or none), alone and inside 'x + _' / '[_]'; oracle: reference parser; non-trivial: the cases that contain a line break")
	defer run.End(t)
	sameLineSweep(run, "c02")
	run.Exhaustive()
}

// sameLineSweep enumerates the postfix chains with a line break before one
// postfix token; shared by C02 (grammar) and C14 (significance of line breaks).
func sameLineSweep(run *h.Run, kind string) {
	prims := []string{"a", "f(x)", "(a)", "[a]", "1"}
	posts := []string{" .b", " !.b", " ()", " (c)"}
	nls := []string{"\n", "\r\n", "\r", "\u2028", "\u2029", "\u0085"}
	var idx int64
	enumSeqAll(len(posts), 4, func(seq []int) {
		for _, pr := range prims {
			for at := -1; at < len(seq); at++ {
				for ni, nl := range nls {
					if at < 0 && ni > 0 {
						break
					}
					idx++
					if !h.Mine(idx) || run.NViolations() >= 3 {
						continue
					}
					core := pr
					for i, s := range seq {
						p := posts[s]
						if i == at {
							p = nl + p[1:]
						}
						core += p
					}
					for _, cx := range []string{"_", "x + _", "[_]"} {
						text := strings.ReplaceAll(cx, "_", core)
						run.Count(at >= 0, "")
						if idx%1511 == 0 {
							run.Sample("same-line", text)
						}
						if msg := checkGrammar(text, ""); msg != "" {
							run.Fail("c02", mkTextCase(text, ""), msg)
						}
					}
				}
			}
		}
	})
	_ = kind
}

// enumSeqAll is enumSeq without shard filtering (the caller shards).
func enumSeqAll(n, k int, f func(seq []int)) {
	for l := 1; l <= k; l++ {
		seq := make([]int, l)
		for {
			f(seq)
			p := l - 1
			for p >= 0 {
				seq[p]++
				if seq[p] < n {
					break
				}
				seq[p] = 0
				p--
			}
			if p < 0 {
				break
			}
		}
	}
}

// TestC02DotNewline: a member name on the line after its dot (the parser's
// speculative path), followed by every pair of tokens of the full alphabet.
func TestC02DotNewline(t *testing.T) {
	run := h.Begin("C02", "dot-newline", "bounded-exhaustive: context {_, [_], f(_), (_), [x, _], f(x, _), _ + y} x 'a' ('.'|'!.') <line break> name(b|null|typeof) x every pair of following tokens over the full 54-lexeme alphabet (incl. hostile lexemes) and the empty token; oracle: reference parser; non-trivial: all (a line break inside a member access plus trailing tokens)")
	defer run.End(t)
	ctxs := []string{"_", "[_]", "f(_)", "(_)", "[x, _]", "f(x, _)", "_ + y"}
	tail := append([]string{""}, c01Alphabet...)
	var idx int64
	for _, cx := range ctxs {
		for _, sel := range []string{".", "!."} {
			for _, name := range []string{"b", "null", "typeof"} {
				for _, t1 := range tail {
					for _, t2 := range tail {
						idx++
						if !h.Mine(idx) || run.NViolations() >= 3 {
							continue
						}
						core := "a" + sel + "\n" + name + " " + t1 + " " + t2
						text := strings.ReplaceAll(cx, "_", core)
						run.Count(true, "")
						if idx%7919 == 0 {
							run.Sample("dot-newline", text)
						}
						if msg := checkGrammar(text, ""); msg != "" {
							run.Fail("c02", mkTextCase(text, ""), msg)
						}
					}
				}
			}
		}
	}
	run.Exhaustive()
}

// TestC02Long: formulas that are long rather than deep. The grammar puts no
// bound on how many assignments, list elements, operands or arguments a
// formula has.
func TestC02Long(t *testing.T) {
	run := h.Begin("C02", "long", "rapid: formulas with 60..500 small generated items in a flat construct (comma sequence, array elements, call arguments, one left-associative operator chain, a chain mixing all binary operators) and right-nested / prefix / parenthesis chains of up to 60 links, optionally after a run of assignments; oracle: the generated tree itself, cross-checked with the reference parser; non-trivial: >=100 items or >=30 links; distinct by text")
	defer run.End(t)
	h.RapidSetup(h.N(250, 40000), "c02long")
	rapid.Check(t, func(rt *rapid.T) {
		shape := rapid.IntRange(0, 8).Draw(rt, "shape")
		n := rapid.IntRange(60, 500).Draw(rt, "n")
		if shape >= 5 {
			n = rapid.IntRange(10, 60).Draw(rt, "links")
		}
		item := func(min int) *ref.Node {
			return genExpr(rt, &syntaxCfg, rapid.IntRange(0, 2).Draw(rt, "depth"), min)
		}
		var ast *ref.Node
		switch shape {
		case 0: // e1, e2, ..., en
			ast = item(ref.LvAssign)
			for i := 1; i < n; i++ {
				ast = &ref.Node{Kind: "bin", Op: ",", Kids: []*ref.Node{ast, item(ref.LvAssign)}}
			}
		case 1:
			ast = &ref.Node{Kind: "arr"}
			for i := 0; i < n; i++ {
				ast.Kids = append(ast.Kids, item(ref.LvAssign))
			}
		case 2:
			ast = &ref.Node{Kind: "call", Kids: []*ref.Node{{Kind: "id", Val: "f"}}}
			for i := 0; i < n; i++ {
				ast.Kids = append(ast.Kids, item(ref.LvAssign))
			}
		case 3: // one operator, left-associative
			op := rapid.SampledFrom(ref.BinOps).Draw(rt, "op")
			lv := ref.BinLevel[op]
			ast = item(lv)
			for i := 1; i < n; i++ {
				ast = &ref.Node{Kind: "bin", Op: op, Kids: []*ref.Node{atLevel(ast, lv), item(lv + 1)}}
			}
		case 4: // every operator, no parentheses: grouped by the ladder alone
			operands := []*ref.Node{item(ref.LvUnary)}
			var ops []string
			for i := 1; i < n; i++ {
				ops = append(ops, rapid.SampledFrom(ref.BinOps).Draw(rt, "op"))
				operands = append(operands, item(ref.LvUnary))
			}
			pos := 0
			var climb func(min int) *ref.Node
			climb = func(min int) *ref.Node {
				lhs := operands[pos]
				pos++
				for pos-1 < len(ops) && ref.BinLevel[ops[pos-1]] >= min {
					op := ops[pos-1]
					lhs = &ref.Node{Kind: "bin", Op: op, Kids: []*ref.Node{lhs, climb(ref.BinLevel[op] + 1)}}
				}
				return lhs
			}
			ast = climb(0)
		case 5: // $a = $b = ... = e
			ast = item(ref.LvAssign)
			for i := 0; i < n; i++ {
				ast = &ref.Node{Kind: "bin", Op: "=", Kids: []*ref.Node{{Kind: "id", Val: fmt.Sprintf("$v%d", i)}, ast}}
			}
		case 6: // c1 ? x1 : c2 ? x2 : ...
			ast = item(ref.LvAssign)
			for i := 0; i < n; i++ {
				ast = &ref.Node{Kind: "cond", Kids: []*ref.Node{item(2), item(ref.LvAssign), ast}}
			}
		case 7:
			ast = item(ref.LvUnary)
			for i := 0; i < n; i++ {
				if rapid.IntRange(0, 5).Draw(rt, "typeof") == 0 {
					ast = &ref.Node{Kind: "typeof", Kids: []*ref.Node{ast}}
				} else {
					ast = &ref.Node{Kind: "pre", Op: rapid.SampledFrom(ref.PrefixOps).Draw(rt, "pre"), Kids: []*ref.Node{ast}}
				}
			}
		default:
			ast = item(ref.LvComma)
			for i := 0; i < n; i++ {
				switch rapid.IntRange(0, 2).Draw(rt, "wrap") {
				case 0:
					ast = paren(ast)
				case 1:
					ast = &ref.Node{Kind: "arr", Kids: []*ref.Node{atLevel(ast, ref.LvAssign)}}
				default:
					ast = &ref.Node{Kind: "call", Kids: []*ref.Node{{Kind: "id", Val: "f"}, atLevel(ast, ref.LvAssign)}}
				}
			}
		}
		// optionally after a run of assignments
		if k := rapid.SampledFrom([]int{0, 0, 70, 130, 260}).Draw(rt, "assignments"); k > 0 {
			var pre *ref.Node
			for i := 0; i < k; i++ {
				a := &ref.Node{Kind: "bin", Op: "=", Kids: []*ref.Node{{Kind: "id", Val: fmt.Sprintf("$w%d", i)}, item(ref.LvAssign)}}
				if pre == nil {
					pre = a
				} else {
					pre = &ref.Node{Kind: "bin", Op: ",", Kids: []*ref.Node{pre, a}}
				}
			}
			ast = &ref.Node{Kind: "bin", Op: ",", Kids: []*ref.Node{pre, atLevel(ast, ref.LvAssign)}}
			n += k
		}
		toks := ast.Flatten()
		text := ref.Join(toks, genLayout(rt, toks, rapid.IntRange(0, 2).Draw(rt, "nlw")))
		expect := ast.Dump()
		run.CountKey(text, (shape < 5 && n >= 100) || (shape >= 5 && n >= 30), fmt.Sprintf("shape%d", shape))
		if len(text) < 400 {
			run.Sample("long", text)
		}
		if msg := checkGrammar(text, expect); msg != "" {
			if len(msg) > 1500 {
				msg = msg[:700] + " ... " + msg[len(msg)-700:]
			}
			run.Pending("long", "c02", mkTextCase(text, expect), msg)
			rt.Fatalf("%s", msg)
		}
	})
}

// c02ListAlphabet: the lexemes of calls, lists and spread.
var c02ListAlphabet = []string{"f", "(", ")", "a", ",", "...", "[", "]", "."}

// TestC02Lists: longer sequences over the small alphabet of calls, lists and
// spread: where `...` and `,` may stand in an argument list is decided by
// sequences of 6 and more tokens.
func TestC02Lists(t *testing.T) {
	k := h.N(7, 8)
	run := h.Begin("C02", "lists", fmt.Sprintf("bounded-exhaustive: every sequence of 1..%d tokens over {f, (, ), a, ',', ..., [, ], .}, space separated; oracle: reference parser (accept/reject and tree dump); non-trivial: accepted with a spread or two list levels, or rejected with a spread", k))
	defer run.End(t)
	var sb strings.Builder
	enumSeq(len(c02ListAlphabet), k, func(seq []int) {
		if run.NViolations() >= 3 {
			return
		}
		sb.Reset()
		spread, opens := false, 0
		for i, s := range seq {
			if i > 0 {
				sb.WriteByte(' ')
			}
			sb.WriteString(c02ListAlphabet[s])
			switch c02ListAlphabet[s] {
			case "...":
				spread = true
			case "(", "[":
				opens++
			}
		}
		text := sb.String()
		want := ref.Parse([]byte(text))
		cls := "rejected"
		if want != nil {
			cls = "accepted"
		}
		run.Count(spread || (want != nil && opens >= 2), cls)
		if len(seq) == k && want != nil && spread && (seq[1]+seq[k-2])%5 == 0 {
			run.Sample(cls, text)
		}
		if msg := checkGrammar(text, ""); msg != "" {
			run.Fail("c02", mkTextCase(text, ""), msg)
		}
	})
	run.Exhaustive()
}
