package props

import (
	"context"
	"encoding/json"
	"fmt"
	"os"
	"os/exec"
	"runtime/debug"
	"strings"
	"sync"
	"testing"
	"time"

	"github.com/aundis/formula"
	"github.com/ericlagergren/decimal"
	"pgregory.net/rapid"

	"verif/internal/h"
	"verif/internal/obs"
	"verif/internal/ref"
	"verif/internal/spec"
)

// C03 — evaluation is total: a value or an error, never a panic.

type evalCase struct {
	Formula string            `json:"formula_quoted"`
	Data    map[string]spec.V `json:"data,omitempty"` // nil = the standard world
	Must    string            `json:"must,omitempty"` // "error": the misuse must be reported as an error
}

func (c evalCase) formula() string { return textCase{Text: c.Formula}.text() }

func mkEvalCase(f string, data map[string]spec.V, must string) evalCase {
	return evalCase{Formula: mkTextCase(f, "").Text, Data: data, Must: must}
}

// watchdog turns a hang into a recorded violation (the process then exits).
type watchdog struct {
	prop  string
	trace bool
	mu    sync.Mutex
	cur   interface{}
	kind  string
	since time.Time
	stop  chan struct{}
}

func startWatchdog(t testing.TB, run *h.Run, limit time.Duration) *watchdog {
	w := &watchdog{stop: make(chan struct{}), prop: os.Getenv("VERIF_PROP"), trace: os.Getenv("VERIF_TRACE") != ""}
	go func() {
		// only ticks that arrive on time count: if the machine or the process stalls (load, memory pressure) the
		// late ticks show it and the stalled interval is not held against the case; a real hang (busy loop or
		// deadlock) still collects `limit` worth of on-time ticks
		var lastSince time.Time
		var good time.Duration
		last := time.Now()
		for {
			select {
			case <-w.stop:
				return
			case <-time.After(250 * time.Millisecond):
				el := time.Since(last)
				last = time.Now()
				w.mu.Lock()
				cur, kind, since := w.cur, w.kind, w.since
				w.mu.Unlock()
				if cur == nil || !since.Equal(lastSince) {
					lastSince, good = since, 0
					continue
				}
				if el < time.Second {
					good += el
				}
				if good > limit {
					run.Fail(kind, cur, fmt.Sprintf("did not return within %v (hang)", limit))
					run.End(t)
					fmt.Println("WATCHDOG: case exceeded", limit)
					os.Exit(1)
				}
			}
		}
	}()
	return w
}

func (w *watchdog) enter(kind string, c interface{}) {
	if w.trace {
		// trace mode (the driver re-runs a shard that died without a recorded case): remember the case on disk first
		writeCurrentCase(kind, w.prop, c)
	}
	w.mu.Lock()
	w.cur, w.kind, w.since = c, kind, time.Now()
	w.mu.Unlock()
}
func (w *watchdog) leave() { w.mu.Lock(); w.cur = nil; w.mu.Unlock() }
func (w *watchdog) close() { close(w.stop) }

// checkEvalTotal evaluates the case; returns a message on violation and a class label.
func checkEvalTotal(c evalCase) (msg string, class string) {
	f := c.formula()
	p := obs.Parse([]byte(f))
	if !p.OK() {
		return "", "not-parsed"
	}
	ds := c.Data
	if ds == nil {
		ds = worldSpec()
	}
	rec := &spec.Recorder{}
	data := spec.BuildMap(ds, rec)
	// host functions of the plainest Go signatures (concrete parameter and result types, as a host writes them)
	data["hsUp"] = func(s string) (string, error) { return strings.ToUpper(s), nil }
	data["hsEq"] = func(a, b string) (bool, error) { return a == b, nil }
	data["hsCat3"] = func(a, b, c string) (string, error) { return a + b + c, nil }
	data["hsDec"] = func(n *decimal.Big) (*decimal.Big, error) { return n, nil }
	data["hsNum"] = func(a, b float64) (float64, error) { return a + b, nil }
	data["hsInt"] = func(n int) (int, error) { return n, nil }
	r := formula.NewRunner()
	r.SetThis(data)
	// the caller's context varies: plain, cancellable (never cancelled), with a distant deadline
	ctx := context.WithValue(context.Background(), ctxKey{}, "c03")
	evalCounter++
	switch evalCounter % 3 {
	case 1:
		var cancel context.CancelFunc
		ctx, cancel = context.WithCancel(ctx)
		defer cancel()
	case 2:
		var cancel context.CancelFunc
		ctx, cancel = context.WithTimeout(ctx, time.Hour)
		defer cancel()
	}
	if c.Must == "error" {
		// the tree may have served another record before, one in which the same names were all callable (and
		// the members of maps too): what is misuse over this record is misuse all the same
		anyFn := func(args ...interface{}) (interface{}, error) { return "called", nil }
		callable := map[string]interface{}{}
		for k, v := range data {
			callable[k] = anyFn
			if m, isMap := v.(map[string]interface{}); isMap {
				mm := map[string]interface{}{}
				for mk := range m {
					mm[mk] = anyFn
				}
				callable[k] = mm
			}
		}
		for _, k := range []string{"undefinedName", "nosuch", "zz", "x", "f"} {
			callable[k] = anyFn
		}
		r0 := formula.NewRunner()
		r0.SetThis(callable)
		obs.Eval(r0, ctx, p.Src.Expression)
	}
	out := obs.Eval(r, ctx, p.Src.Expression)
	if out.Panic == nil {
		// the runner is the caller's to keep: the same evaluation once more on the runner that has just
		// served (and possibly failed) the first one must again come back with a value or an error
		// (by then it also holds locals of every kind, composite ones included)
		r.SetThisValue("$heldList", []interface{}{1, "two", map[string]interface{}{"k": nil}})
		r.SetThisValue("$heldMap", map[string]interface{}{"a": []interface{}{}})
		r.SetThisValue("$heldFn", data["fn0"])
		again := obs.Eval(r, ctx, p.Src.Expression)
		if again.Panic != nil {
			return fmt.Sprintf("Resolve(%q) on the runner that had evaluated the same formula before (outcome %s) panicked: %v", f, out, again.Panic), "panic"
		}
		if again.Err != nil && again.Val != nil {
			return fmt.Sprintf("Resolve(%q), second time on the same runner, returned both a value (%s) and an error (%v)", f, obs.Show(again.Val), again.Err), "both"
		}
	}
	if out.Panic == nil {
		// ... and on a runner that has served every earlier case of this process, failures included
		if c03Shared == nil {
			c03Shared = formula.NewRunner()
		}
		c03Shared.SetThis(data)
		if so := obs.Eval(c03Shared, ctx, p.Src.Expression); so.Panic != nil {
			return fmt.Sprintf("Resolve(%q) on a runner that served many other evaluations before (failed ones included) panicked: %v; on a new runner: %s", f, so.Panic, out), "panic"
		}
	}
	switch {
	case out.Panic != nil:
		return fmt.Sprintf("Resolve(%q) panicked: %v", f, out.Panic), "panic"
	case out.Err != nil && out.Val != nil:
		return fmt.Sprintf("Resolve(%q) returned both a value (%s) and an error (%v)", f, obs.Show(out.Val), out.Err), "both"
	case out.Err != nil:
		return "", "error"
	}
	if c.Must == "error" {
		return fmt.Sprintf("Resolve(%q) = %s with nil error; this misuse must be reported through the error", f, obs.Show(out.Val)), "missing-error"
	}
	return "", "value"
}

type ctxKey struct{}

var c03Shared *formula.Runner

var evalCounter int

func init() {
	h.RegisterReplay("c03", func(raw json.RawMessage) string {
		c, err := h.Decode[evalCase](raw)
		if err != nil {
			return "bad replay: " + err.Error()
		}
		for i := 0; i < 3; i++ { // one evaluation under each kind of caller context
			if m, _ := checkEvalTotal(c); m != "" {
				return m
			}
		}
		return ""
	})
}

// representative argument values (formula text over the world's names)
var c03Args = []string{"null", "true", "-1", "0", "1", "1.5", "1000000", "''", "'a'", "'('", "[]", "['a',1]", "m", "t", "len", "arr", "st", "np", "nan", "strs", "u64", "fnV", "'12'", "maps", "nsl", "nmp", "t0", "ndec", "fnND()"}

// TestC03BuiltinMisuse: every builtin x every argument tuple of length 0..2
// (and a sweep of length 3/4 with one varying position).
func TestC03BuiltinMisuse(t *testing.T) {
	run := h.Begin("C03", "builtin-misuse", fmt.Sprintf("bounded-exhaustive: every builtin (%d names) called with every argument tuple of length 0..2 over %d representative values (null, booleans, numbers incl. -1/0/1e6/NaN/2^64-1, strings incl. '(' and numeric text, arrays, typed slices, maps, struct, typed nil pointer, time, functions), plus tuples of length 3 and 4 with one varying position around two plausible fixed tuples, and the full product of triples for the ternary builtins (lpad, rpad, mid, replace, ...: empty pad strings, lengths beyond the text); oracle: Resolve returns (value,nil) or (nil,error), never panics, under a 30 s watchdog; non-trivial: every case (each executes a call with non-literal operands)", len(builtinArity), len(c03Args)))
	defer run.End(t)
	wd := startWatchdog(t, run, 30*time.Second)
	defer wd.close()
	var idx int64
	try := func(f string, must string) {
		idx++
		if !h.Mine(idx) || run.NViolations() >= 3 {
			return
		}
		c := mkEvalCase(f, nil, must)
		wd.enter("c03", c)
		msg, cls := checkEvalTotal(c)
		wd.leave()
		run.Count(true, cls)
		if idx%4099 == 0 {
			run.Sample(cls, f)
		}
		if msg != "" {
			run.Fail("c03", c, msg)
		}
	}
	for _, b := range builtinNames() {
		// (no argument count is demanded to fail for a builtin: which counts a builtin accepts is the builtin's
		// signature, and that may grow optional parameters; the count rule is enforced where the signature is
		// ours - host functions, in the must-error part and in C11)
		must := func(n int) string { return "" }
		try(b+"()", must(0))
		for _, a1 := range c03Args {
			try(b+"("+a1+")", must(1))
			for _, a2 := range c03Args {
				try(b+"("+a1+","+a2+")", must(2))
			}
		}
		// length 3 and 4: vary each position over all values, others fixed to plausible ones
		fixedSets := [][]string{{"'hello'", "'l'", "2", "1"}, {"'hi'", "'l'", "7", "1"}}
		if b == "addDate" || b == "date" {
			fixedSets = [][]string{{"t", "1", "2", "3"}}
		}
		for _, fixed := range fixedSets {
			for n := 3; n <= 4; n++ {
				for pos := 0; pos < n; pos++ {
					for _, v := range c03Args {
						args := append([]string{}, fixed[:n]...)
						args[pos] = v
						try(b+"("+strings.Join(args, ",")+")", must(n))
					}
				}
			}
		}
		if builtinArity[b] == 3 {
			// the full product for the ternary builtins (without the 10^6 length)
			for _, a1 := range c03Args {
				for _, a2 := range c03Args {
					for _, a3 := range c03Args {
						if a3 != "1000000" && a2 != "1000000" && a1 != "1000000" {
							try(b+"("+a1+","+a2+","+a3+")", "")
						}
					}
				}
			}
		}
		try(b+"(arr...)", "")
		try(b+"('a', strs...)", "")
	}
	run.Exhaustive()
}

// mustErrorCases lists the misuse classes the statement names.
func mustErrorCases() []string {
	var out []string
	// calling something that is not a function
	for _, x := range []string{"n", "undefinedName", "null", "i", "s", "m", "arr", "t", "st", "np", "b", "1", "'f'", "[1]", "m.a", "m.zz", "(1+1)", "dec", "true", "f64"} {
		out = append(out, x+"()", x+"(1)", x+"(1, 2)")
	}
	// wrong argument count for host functions of fixed arity
	out = append(out, "fn0(1)", "fnS()", "fnS('a','b')", "fnI()", "fnI(1,2)", "fnC()", "fnC(1,2)")
	out = append(out, "hsUp('a','b')", "hsUp()", "hsEq('a')", "hsEq('a','b','c')", "hsCat3('a','b')", "hsCat3('a','b','c','d')", "hsDec(1,2)", "hsDec()", "hsNum(1)", "hsNum(1,2,3)", "hsInt()", "hsInt(1,2)",
		"hsUp(s, s)", "hsEq(s, s, s)", "hsInt(i, i)", "hsNum(f64)", "hsDec(dec, dec)")
	// spread on a non-variadic function / of a non-array
	out = append(out, "fnS(strs...)", "fnV(1 ...)", "fnV('a'...)", "fnV(m...)", "fnV(null...)")
	// argument of a kind without conversion
	for _, a := range []string{"'x'", "true", "[1]", "m", "t", "st", "len"} {
		out = append(out, "left('abc',"+a+")", "fnI("+a+")", "date("+a+",1,1)", "abs("+a+")", "floor("+a+")")
	}
	for _, a := range []string{"1", "'2024-01-01'", "true", "[1]", "m", "null", "st"} {
		out = append(out, "year("+a+")", "fnT("+a+")", "timeFormat("+a+",'2006')", "addDate("+a+",1,1,1)")
	}
	out = append(out, "fnV('a')", "fnV(1,'a')", "fnV(1,[2])", "fnSl(['a'])", "fnM(1)", "fnM('a')", "fnSt(m)", "fnSt(1)", "join([1,[2]],',') + fnI([1])")
	// out-of-range string positions
	for _, f := range []string{"left('abc',-1)", "right('abc',-1)", "left(s,-2)", "right(s,ineg)", "mid('hello',3,1)", "mid('hello',-1,-2)", "mid(s,9,2)", "mid('abc',2,1)",
		"lpad('a','x',-1)", "rpad('a','x',-1)", "lpad('abc','x',-2)", "rpad(s,'-',ineg)"} {
		out = append(out, f)
	}
	// invalid regular expressions
	for _, re := range []string{"(", "[a-", "a**", "(?P<", "\\\\", "a{2,1}", "[[:nope:]]", "(?z)"} {
		out = append(out, "regexp('a','"+re+"')")
	}
	// comparing arrays or maps
	for _, op := range []string{"==", "!=", "===", "!=="} {
		out = append(out, "[1] "+op+" [1]", "arr "+op+" arr", "arr "+op+" earr", "m "+op+" m", "m "+op+" m.b", "[] "+op+" []", "strs "+op+" strs", "maps "+op+" maps", "mi "+op+" mi", "[1,2] "+op+" [1,2]")
	}
	// reading a missing or unexported struct field
	out = append(out, "st.Nope", "st.hidden", "st.name", "st.Inner.Nope", "st!.Nope", "st.Inner.label", "st.Nope.x")
	// assignment to anything but a $-name (C07 overlaps)
	out = append(out, "x = 1", "m.a = 1", "1 = 2", "(a) = 1")
	// a returned error aborts evaluation (functions with other result shapes than (value, error) are outside the
	// statement's domain: they are only required not to panic, see the operator grid)
	out = append(out, "fnE(1)", "fnE(null)")
	return out
}

// TestC03MustError: the listed misuse classes must come back as errors.
func TestC03MustError(t *testing.T) {
	run := h.Begin("C03", "must-error", "enumerated misuse templates for each class the statement names (calling a non-function incl. undefined names and null, wrong argument count, spread misuse, arguments of a kind without conversion, negative or inverted string positions, invalid regular expressions, ==/!=/===/!== between two arrays or two maps, missing or unexported struct fields, host functions returning an error), alone and embedded in 6 contexts; oracle: nil value and non-nil error, no panic; every case non-trivial")
	defer run.End(t)
	wd := startWatchdog(t, run, 30*time.Second)
	defer wd.close()
	ctxs := []string{"_", "[1, _]", "true ? (_) : 0", "len('x') + (_)", "$r = (_)", "fnA(_)", "!!(_)"}
	var idx int64
	for _, f := range mustErrorCases() {
		for _, cx := range ctxs {
			idx++
			if !h.Mine(idx) || run.NViolations() >= 3 {
				continue
			}
			if strings.Contains(f, " = ") && cx != "_" && cx != "[1, _]" {
				continue
			}
			text := strings.ReplaceAll(cx, "_", f)
			c := mkEvalCase(text, nil, "error")
			wd.enter("c03", c)
			msg, cls := checkEvalTotal(c)
			wd.leave()
			if cls == "not-parsed" {
				msg = "HARNESS: must-error template does not parse: " + text
			}
			run.Count(true, cls)
			if idx%29 == 0 {
				run.Sample(cls, text)
			}
			if msg != "" {
				run.Fail("c03", c, msg)
			}
		}
	}
	run.Exhaustive()
}

// worldNames: identifiers used as leaves by the random programs.
func worldNames() []string {
	var out []string
	for k := range worldSpec() {
		out = append(out, k)
	}
	sortStrings(out)
	return append(out, "undefinedName", "$unset")
}

var c03Cfg = func() genCfg {
	cfg := genCfg{
		Names:    worldNames(),
		SelNames: []string{"a", "b", "c", "n", "s", "z", "k", "Name", "Age", "Score", "Inner", "P", "Any", "hidden", "Nope", "Label", "N", "SetHidden", "len", "typeof", "null"},
		Nums:     []string{"0", "1", "2", "3", "1.5", "0.1", "10", "1000000", "1e20", "1234567890123456789012345678901234", "1e-7", "1e400", "5e-324", "007", "1_0"},
		Strs:     []string{"", "a", "hello", "(", "[a-", "l", "12", "1.5", "中文", "2006-01-02", "UTC", "Asia/Shanghai", "No/Where", " x ", "%v", "a\x00b"},
		Kws:      []string{"null", "true", "false", "this", "ctx"},
		MaxArgs:  4,
		Targets:  []string{"$a", "$b", "$unset", "$loc"}, // most assignments bind a local (nested, chained, inside arguments)
	}
	cfg.Names = append(cfg.Names, "$a", "$b")
	cfg.Callees = append(cfg.Callees, builtinNames()...)
	for k, v := range worldSpec() {
		if v.K == "func" {
			cfg.Callees = append(cfg.Callees, k, k)
		}
	}
	sortStrings(cfg.Callees)
	cfg.Callees = append(cfg.Callees, "i", "s", "n", "m", "undefinedName")
	return cfg
}()

// boundPads rewrites the tree so that pad lengths stay <= 10^6 (the statement's
// bound): the third argument of lpad/rpad becomes a small literal or name.
func boundPads(t *rapid.T, n *ref.Node) {
	n.Walk(func(x *ref.Node) {
		if x.Kind == "call" && x.Kids[0].Kind == "id" && (x.Kids[0].Val == "lpad" || x.Kids[0].Val == "rpad") {
			for i := 1; i < len(x.Kids); i++ {
				if i == 3 || x.Spread {
					x.Kids[i] = numNode(rapid.SampledFrom([]string{"0", "1", "5", "1000000", "12"}).Draw(t, "padlen"))
					if rapid.IntRange(0, 5).Draw(t, "negpad") == 0 {
						x.Kids[i] = &ref.Node{Kind: "pre", Op: "-", Kids: []*ref.Node{x.Kids[i]}}
					}
				}
			}
			if len(x.Kids) > 2 {
				// pad strings of at most 8 bytes, the empty one included
				pad := rapid.SampledFrom([]string{"xy", "xy", "", "-", "01234567"}).Draw(t, "pad")
				if pad == "01234567" && len(x.Kids) > 3 && strings.Contains(x.Kids[3].Text(), "1000000") {
					// eight million digits are a number whose conversion alone takes minutes (quadratic in the
					// length of the value, not a matter of this property): digits only with short lengths
					pad = "xy"
				}
				x.Kids[2] = &ref.Node{Kind: "str", Val: pad, Src: "'" + pad + "'"}
			}
			x.Spread = false
		}
	})
}

// TestC03RandomPrograms: grammar-directed programs over every operator, keyword
// and builtin, evaluated against the world.
func TestC03RandomPrograms(t *testing.T) {
	run := h.Begin("C03", "random-programs", "rapid: grammar-directed programs (depth<=5) over every operator, keyword, all builtin names, host functions of the world and its data names of every kind (nil, bools, strings, every Go integer/float kind incl. NaN/Inf/uint64 max, time, slices, typed slices, nested maps, typed maps, int-keyed map, struct, pointer to struct, typed nil pointers, functions with odd signatures), calls of arity 0..4 with and without spread, '.'/'!.' chains; pad lengths bounded by 10^6; oracle: (value,nil) or (nil,error), no panic, 30 s watchdog; non-trivial: the program contains a call, member access or operator and is not a parse error; distinct by text")
	defer run.End(t)
	wd := startWatchdog(t, run, 30*time.Second)
	defer wd.close()
	h.RapidSetup(h.N(20000, 1500000), "c03rand")
	rapid.Check(t, func(rt *rapid.T) {
		ast := genExpr(rt, &c03Cfg, rapid.IntRange(1, 5).Draw(rt, "depth"), ref.LvComma)
		boundPads(rt, ast)
		if n := excludeSelfReference(ast); n > 0 {
			run.Class("excluded-known-finding-KF-C03-cycle")
		}
		text := ast.Text()
		c := mkEvalCase(text, nil, "")
		wd.enter("c03", c)
		msg, cls := checkEvalTotal(c)
		wd.leave()
		run.CountKey(text, ast.Count() >= 2 && cls != "not-parsed", cls+"/"+ast.Kind)
		run.Sample(cls, text)
		if msg != "" {
			run.Pending("rand", "c03", c, msg)
			rt.Fatalf("%s", msg)
		}
	})
}

// TestC03OperatorGrid: every unary operator on every name, every binary
// operator on every pair of names, member access with every key on every name.
func TestC03OperatorGrid(t *testing.T) {
	names := worldNames()
	run := h.Begin("C03", "operator-grid", fmt.Sprintf("bounded-exhaustive over the %d names of the world (one per data kind): OP x for the 6 prefix operators and typeof; x OP y for all 19 binary operators, '=', ',' and x ? y : x over every ordered pair; x.k, x!.k, x.k.k for k in {a, b, Name, hidden, Nope, SetHidden, len}; x(y); oracle: (value,nil) or (nil,error), no panic; every case non-trivial", len(names)))
	defer run.End(t)
	wd := startWatchdog(t, run, 30*time.Second)
	defer wd.close()
	var idx int64
	try := func(f string) {
		idx++
		if !h.Mine(idx) || run.NViolations() >= 3 {
			return
		}
		c := mkEvalCase(f, nil, "")
		wd.enter("c03", c)
		msg, cls := checkEvalTotal(c)
		wd.leave()
		run.Count(true, cls)
		if idx%3001 == 0 {
			run.Sample(cls, f)
		}
		if msg != "" {
			run.Fail("c03", c, msg)
		}
	}
	for _, x := range names {
		for _, op := range []string{"+", "-", "!", "!!", "~", "typeof "} {
			try(op + x)
		}
		for _, k := range []string{"a", "b", "Name", "hidden", "Nope", "SetHidden", "len", "Inner", "P", "k"} {
			try(x + "." + k)
			try(x + "!." + k)
			try(x + "." + k + ".c")
			try(x + "." + k + "!.Label")
		}
		for _, y := range names {
			for _, op := range ref.BinOps {
				try(x + " " + op + " " + y)
			}
			try("$w = " + y + ", " + x)
			try("$w = $v = " + y + ", [$w, $v, " + x + "]")
			try("$w = ($v = " + x + ") + fnA($u = " + y + ")")
			try(x + " ? " + y + " : " + x)
			try(x + "(" + y + ")")
			try("[" + x + "," + y + "...]")
		}
	}
	run.Exhaustive()
}

// FuzzC03EvalTotal: native fuzzing of formula text against the world.
func FuzzC03EvalTotal(f *testing.F) {
	for _, s := range []string{"1+1", "left(s, 2)", "m.b.c", "fnV(1, ints...)", "st.Name", "$a = 1, $a + i64", "[1] == [1]", "regexp(s, '(')", "date(2024,1,1)", "x ? y : z", "max(1,2,3)", "u64 % 7", "typeof np", "mid(s,1,3) + 'x'"} {
		f.Add(s)
	}
	for _, b := range builtinNames() {
		f.Add(b + "(s, 1)")
	}
	f.Fuzz(func(t *testing.T, text string) {
		if len(text) > 4096 {
			text = text[:4096]
		}
		if strings.Contains(text, "this") && strings.Contains(text, "=") {
			t.Skip() // known finding KF-C03-cycle is excluded by construction
		}
		// keep pad lengths within the statement's bound: skip inputs that could
		// request huge pads (any digit run longer than 6 near lpad/rpad)
		if strings.Contains(text, "pad") {
			digits := 0
			for _, c := range text {
				if c >= '0' && c <= '9' || c == 'e' || c == 'E' {
					digits++
				}
			}
			if digits > 6 {
				t.Skip()
			}
		}
		done := make(chan string, 1)
		go func() {
			m, _ := checkEvalTotal(mkEvalCase(text, nil, ""))
			done <- m
		}()
		select {
		case m := <-done:
			if m != "" {
				t.Fatalf("%s", m)
			}
		case <-time.After(30 * time.Second):
			t.Fatalf("evaluation of %q did not return within 30s", text)
		}
	})
}

// excludeSelfReference removes the shape of known finding KF-C03-cycle from a
// generated program: a `this` keyword inside the right-hand side of an
// assignment (which would make the data map reachable from itself) is
// replaced by null. It returns the number of replacements.
func excludeSelfReference(n *ref.Node) int {
	count := 0
	var visit func(x *ref.Node, inRHS bool)
	visit = func(x *ref.Node, inRHS bool) {
		if inRHS && x.Kind == "kw" && x.Op == "this" {
			x.Op = "null"
			count++
		}
		for i, k := range x.Kids {
			visit(k, inRHS || (x.Kind == "bin" && x.Op == "=" && i == 1))
		}
	}
	visit(n, false)
	return count
}

// TestC03KnownFindings re-confirms the recorded finding in a child process
// (the failure mode is an unrecoverable stack overflow) and reports it.
func TestC03KnownFindings(t *testing.T) {
	if os.Getenv("VERIF_CHILD") == "cycle" {
		debug.SetMaxStack(64 << 20)
		out := obs.EvalText("$a = this, toString(this)", map[string]interface{}{})
		fmt.Println("CHILD-RETURNED", out)
		return
	}
	if os.Getenv("VERIF_CHILD") == "bigcoef" {
		out := obs.EvalText("toInt(123456789012345678901234567890123456789e-99999999)", nil)
		fmt.Println("CHILD-RETURNED", out)
		return
	}
	if i, _ := h.Shard(); i != 0 {
		return
	}
	defer confirmBigCoefFinding(t)
	run := h.Begin("C03", "known-findings", "re-confirmation of the recorded finding KF-C03-cycle in a child process with a 64 MiB stack limit; not counted as exploration")
	defer run.End(t)
	cmd := exec.Command(os.Args[0], "-test.run", "^TestC03KnownFindings$", "-test.count=1")
	cmd.Env = append(os.Environ(), "VERIF_CHILD=cycle", "VERIF_OUT=")
	done := make(chan struct{})
	var outb []byte
	go func() { outb, _ = cmd.CombinedOutput(); close(done) }()
	select {
	case <-done:
	case <-time.After(60 * time.Second):
		cmd.Process.Kill()
		<-done
		outb = append(outb, []byte("\nHUNG")...)
	}
	s := string(outb)
	run.Count(true, "")
	run.Count(true, "")
	if strings.Contains(s, "CHILD-RETURNED") {
		run.Note("known finding KF-C03-cycle did not reproduce: " + strings.TrimSpace(s))
		return
	}
	if strings.Contains(s, "stack overflow") || strings.Contains(s, "stack exceeds") || strings.Contains(s, "HUNG") {
		if !h.KnownOpen("KF-C03-cycle") {
			run.Fail("c03", mkEvalCase("$a = this, toString(this)", map[string]spec.V{}, ""), "evaluation does not terminate (stack overflow in a child process)")
			return
		}
		run.Known("KF-C03-cycle: '$a = this, toString(this)' (a formula that stores the data map into itself and then formats it) does not terminate: fmt recurses through the cyclic map until the goroutine stack overflows, which no recover can catch")
		run.Sample("known-finding", "$a = this, toString(this)")
	} else {
		run.Note("child process for KF-C03-cycle ended unexpectedly: " + s[:min(len(s), 300)])
	}
}

// confirmBigCoefFinding re-confirms KF-C03-bigcoef: a child process evaluates
// toInt(123456789012345678901234567890123456789e-99999999) and is given 8 s.
func confirmBigCoefFinding(t *testing.T) {
	const text = "toInt(123456789012345678901234567890123456789e-99999999)"
	run := h.Begin("C03", "known-findings-bigcoef", "re-confirmation of the recorded finding KF-C03-bigcoef: a child process evaluates "+text+" and is given 8 s; not counted as exploration")
	defer run.End(t)
	cmd := exec.Command(os.Args[0], "-test.run", "^TestC03KnownFindings$", "-test.count=1")
	cmd.Env = append(os.Environ(), "VERIF_CHILD=bigcoef", "VERIF_OUT=")
	done := make(chan struct{})
	var outb []byte
	go func() { outb, _ = cmd.CombinedOutput(); close(done) }()
	hung := false
	select {
	case <-done:
	case <-time.After(8 * time.Second):
		cmd.Process.Kill()
		<-done
		hung = true
	}
	run.Count(true, "")
	if !hung {
		o := strings.TrimSpace(string(outb))
		run.Note("known finding KF-C03-bigcoef did not reproduce: " + o[:min(len(o), 200)])
		return
	}
	if !h.KnownOpen("KF-C03-bigcoef") {
		run.Fail("c03", mkEvalCase(text, map[string]spec.V{}, ""), "evaluation did not return within 8 s in a child process (running time follows the magnitude of the exponent, not the length of the formula)")
		return
	}
	run.Known("KF-C03-bigcoef: '" + text + "' (a number of more than 19 significant digits whose exponent lies millions away from zero, handed to an integer conversion - toInt, & | ^ ~, an integer parameter - or to ln / log) does not return in any useful time: the decimal library's Int64 / Uint64 multiply or divide such a coefficient by the full power of ten")
	run.Sample("known-finding", text)
}

// c03Extremes lists formulas over numbers whose exponents lie millions away
// from zero: the arithmetic operators and every builtin that takes a number
// (string lengths and dates are left out: the statement bounds pad / repeat
// lengths, and a date of year 1e99999999 is not a supported value).
func c03Extremes() []string {
	nums := []string{"1e-99999999", "-1e-99999999", "1e99999999", "-7e-999999999", "3e999999999", "'1e-99999999'", "(1e-50000000*1e-50000000)", "1e-9999999", "-5e-1000000", "123456789e-99999999", "toFloat('-1e-77777777')"}
	fns := []string{"abs(%s)", "ceil(%s)", "floor(%s)", "round(%s)", "roundBank(%s)", "roundCash(%s, 2)", "roundCash(2, %s)", "sqrt(%s)", "finite(%s)", "max(%s, 1)", "min(%s, 1)", "toInt(%s)", "toFloat(%s)", "toString(%s)", "%s %% 7", "7 %% %s", "-7 %% %s", "%s %% -7", "%s + 1", "1 - %s", "%s * 3", "3 / %s", "%s / 3", "%s == 1", "%s < 1", "1 > %s", "-%s", "%s %% 1e-5", "%s %% %[1]s", "exp(%s)", "ln(%s)", "log(%s)", "%s & 1", "1 | %s", "%s ? 1 : 2", "'' + %s", "[%s, %[1]s]", "ceil(floor(%s) + %[1]s)", "round(%s %% 3)"}
	var out []string
	for _, n := range nums {
		for _, f := range fns {
			out = append(out, fmt.Sprintf(f, n))
		}
	}
	// numbers of more than 19 significant digits: everything but the shapes of
	// the recorded finding KF-C03-bigcoef (integer conversion, ln, log)
	c03ExtremesExcluded = 0
	for _, n := range []string{"123456789012345678901234567890123456789e-99999999", "-12345678901234567890123e99999999", "toFloat('98765432109876543210.5e-88888888')"} {
		for _, f := range fns {
			if c03BigCoefShape(f) {
				c03ExtremesExcluded++
				continue
			}
			out = append(out, fmt.Sprintf(f, n))
		}
	}
	return out
}

var c03ExtremesExcluded int

// c03BigCoefShape: the formula shape hands its number to an integer conversion
// (toInt, the bit operators) or to ln / log.
func c03BigCoefShape(f string) bool {
	for _, m := range []string{"toInt(", " & ", " | ", "ln(", "log("} {
		if strings.Contains(f, m) {
			return true
		}
	}
	return false
}

// TestC03Extremes: the running time of an evaluation must not follow the
// magnitude of an exponent. A child process evaluates the formulas of
// c03Extremes (the unchanged tree needs milliseconds for all of them) and is
// given 60 s; the formula it was working on when the time ran out is reported.
func TestC03Extremes(t *testing.T) {
	all := c03Extremes()
	if os.Getenv("VERIF_CHILD") == "extremes" {
		for _, f := range all {
			fmt.Println("EVAL", f)
			out := obs.EvalText(f, nil)
			if out.Panic != nil {
				fmt.Println("PANICKED", f, out.Panic)
			}
		}
		fmt.Println("CHILD-DONE", len(all))
		return
	}
	if i, _ := h.Shard(); i != 0 {
		return
	}
	run := h.Begin("C03", "extremes", "bounded-exhaustive: 39 operators and number builtins x 11 numbers whose exponents lie between 10^6 and 10^9 away from zero (literals, numeric strings, a computed product) and x 3 such numbers of more than 19 significant digits (without the shapes of the recorded finding KF-C03-bigcoef, which are counted as excluded), evaluated in a child process that is given 60 s for all of them (the unchanged tree needs milliseconds); oracle: every evaluation returns a value or an error - a formula of 17 bytes whose running time follows the magnitude of its exponent does not terminate in any useful sense; every case non-trivial")
	defer run.End(t)
	cmd := exec.Command(os.Args[0], "-test.run", "^TestC03Extremes$", "-test.count=1")
	cmd.Env = append(os.Environ(), "VERIF_CHILD=extremes", "VERIF_OUT=")
	done := make(chan struct{})
	var outb []byte
	go func() { outb, _ = cmd.CombinedOutput(); close(done) }()
	hung := false
	select {
	case <-done:
	case <-time.After(60 * time.Second):
		cmd.Process.Kill()
		<-done
		hung = true
	}
	s := string(outb)
	last, reached := "", 0
	for _, line := range strings.Split(s, "\n") {
		if strings.HasPrefix(line, "EVAL ") {
			last = strings.TrimPrefix(line, "EVAL ")
			reached++
		}
		if strings.HasPrefix(line, "PANICKED ") {
			run.Fail("c03", mkEvalCase(strings.Fields(line)[1], map[string]spec.V{}, ""), "evaluation panicked: "+line)
			return
		}
	}
	for i := 0; i < reached; i++ {
		run.Count(true, "extreme exponent")
	}
	for i := 0; i < c03ExtremesExcluded; i++ {
		run.Class("excluded-known-finding-KF-C03-bigcoef")
	}
	if reached > 0 {
		run.Sample("extreme exponent", all[0])
		run.Sample("extreme exponent", all[(len(all)-1)%reached])
	}
	switch {
	case hung && last != "":
		run.Fail("c03", mkEvalCase(last, map[string]spec.V{}, ""), fmt.Sprintf("evaluation did not return: the child process was still working on it when its 60 s for %d formulas (milliseconds on the unchanged tree) ran out - the running time follows the magnitude of the exponent, not the length of the formula", len(all)))
	case hung:
		run.Note("child process produced no output within 60 s (machine overloaded?): inconclusive")
	case !strings.Contains(s, "CHILD-DONE"):
		if last != "" && (strings.Contains(s, "fatal error") || strings.Contains(s, "panic:")) {
			run.Fail("c03", mkEvalCase(last, map[string]spec.V{}, ""), "the child process died while evaluating it: "+s[max(0, len(s)-300):])
			return
		}
		run.Note("child process ended unexpectedly: " + s[max(0, len(s)-300):])
	}
}

// TestC03Shapes: long operator chains and deep nestings must still terminate.
func TestC03Shapes(t *testing.T) {
	run := h.Begin("C03", "shapes", "bounded-exhaustive: for every binary operator a chain of 40 and of 400 operands over each of {1, 0, null, 's', i, m.a} ('1 && 1 && ...'), right-nested and left-nested parenthesised forms, ?: ladders, prefix-operator towers, nested calls / arrays / member chains of depth 200, long comma and chained-assignment sequences; oracle: (value,nil) or (nil,error) under a 30 s watchdog (an evaluation whose cost doubles per operand does not return); every case non-trivial")
	defer run.End(t)
	wd := startWatchdog(t, run, 30*time.Second)
	defer wd.close()
	var idx int64
	try := func(f string) {
		idx++
		if !h.Mine(idx) || run.NViolations() >= 3 {
			return
		}
		c := mkEvalCase(f, nil, "")
		wd.enter("c03", c)
		msg, cls := checkEvalTotal(c)
		wd.leave()
		if cls == "not-parsed" {
			msg = "HARNESS: shape does not parse: " + f[:min(len(f), 80)]
		}
		run.Count(true, cls)
		if idx%23 == 0 {
			run.Sample(cls, f[:min(len(f), 120)])
		}
		if msg != "" {
			run.Fail("c03", c, msg)
		}
	}
	ops := append(append([]string{}, ref.BinOps...), ",")
	for _, n := range []int{40, 400} {
		for _, op := range ops {
			for _, x := range []string{"1", "0", "null", "'s'", "i", "m.a"} {
				parts := make([]string, n)
				for k := range parts {
					parts[k] = x
				}
				try(strings.Join(parts, " "+op+" "))
				if n == 40 {
					try(strings.Repeat("(", n-1) + x + strings.Repeat(" "+op+" "+x+")", n-1))
					try(strings.Repeat(x+" "+op+" (", n-1) + x + strings.Repeat(")", n-1))
				}
			}
		}
		try(strings.Repeat("i ? ", n) + "1" + strings.Repeat(" : 2", n))
		try(strings.Repeat("iz ? 1 : ", n) + "2")
		for _, pre := range []string{"-", "!", "!!", "~", "+", "typeof "} {
			try(strings.Repeat(pre, n) + "i")
		}
		k := n
		if k > 200 {
			k = 200
		}
		try(strings.Repeat("fnA(", k) + "i" + strings.Repeat(")", k))
		try(strings.Repeat("len(toString(", k/2) + "s" + strings.Repeat("))", k/2))
		try(strings.Repeat("[", k) + "i" + strings.Repeat("]", k))
		try("m" + strings.Repeat(".a", k))
		try("m" + strings.Repeat("!.b", 3) + strings.Repeat(".c", k))
		try(strings.Repeat("$a = ", k) + "1")
		try(strings.Repeat("$a = $a + 1, ", k) + "$a")
		try("max(" + strings.Repeat("i, ", k) + "1)")
		try("fnV(" + strings.Repeat("1, ", k) + "1)")
	}
	run.Exhaustive()
}
