package props

import (
	"context"
	"encoding/json"
	"fmt"
	"math"
	"math/big"
	"strconv"
	"strings"
	"testing"

	"github.com/aundis/formula"
	"github.com/ericlagergren/decimal"
	"pgregory.net/rapid"

	"verif/internal/h"
	"verif/internal/obs"
	"verif/internal/ref"
)

// C04 — decimal arithmetic is exact; nothing passes through binary floating point.

// decOperand is a decimal operand: sign, coefficient digits, exponent.
type decOperand struct {
	Neg  bool   `json:"neg,omitempty"`
	Coef string `json:"coef"`
	Exp  int    `json:"exp"`
}

func (d decOperand) rat() *big.Rat {
	n, _ := new(big.Int).SetString(d.Coef, 10)
	r := new(big.Rat).Mul(new(big.Rat).SetInt(n), ref.Pow10Rat(d.Exp))
	if d.Neg {
		r.Neg(r)
	}
	return r
}

// lit spells the operand as formula text; style chooses exponent or plain notation.
func (d decOperand) lit(style int) string {
	var s string
	switch {
	case style%2 == 0 || d.Exp > 40 || d.Exp < -40:
		s = d.Coef + "e" + strconv.Itoa(d.Exp)
	case d.Exp >= 0:
		s = d.Coef + strings.Repeat("0", d.Exp)
	default:
		c := d.Coef
		for len(c) <= -d.Exp {
			c = "0" + c
		}
		s = c[:len(c)+d.Exp] + "." + c[len(c)+d.Exp:]
	}
	if (style/4)%2 == 1 {
		// zero-padded: the same decimal number (`007`, `010.50`, `01e3`)
		s = strings.Repeat("0", 1+style%3) + s
	}
	if d.Neg {
		return "(-" + s + ")"
	}
	return s
}

type arithCase struct {
	Ops   []string     `json:"ops"`      // n-1 operators, applied left to right with explicit parentheses
	Vals  []decOperand `json:"operands"` // n operands
	Style int          `json:"style"`
}

func (c arithCase) formula() string {
	f := c.Vals[0].lit(c.Style)
	for i, op := range c.Ops {
		f = "(" + f + " " + op + " " + c.Vals[i+1].lit(c.Style+i+1) + ")"
	}
	return f
}

// expected computes the reference result; ok=false if the case leaves the
// property's domain (division by zero, % with an integer quotient over 34 digits).
func (c arithCase) expected() (*big.Rat, bool) {
	acc := c.Vals[0].rat()
	for i, op := range c.Ops {
		b := c.Vals[i+1].rat()
		var ex *big.Rat
		switch op {
		case "+":
			ex = ref.RoundSig(new(big.Rat).Add(acc, b), 34)
		case "-":
			ex = ref.RoundSig(new(big.Rat).Sub(acc, b), 34)
		case "*":
			ex = ref.RoundSig(new(big.Rat).Mul(acc, b), 34)
		case "/":
			if b.Sign() == 0 {
				return nil, false
			}
			ex = ref.RoundSig(new(big.Rat).Quo(acc, b), 34)
		case "%":
			if b.Sign() == 0 {
				return nil, false
			}
			q := ref.TruncRat(new(big.Rat).Quo(acc, b))
			if len(new(big.Int).Abs(q).String()) > 34 {
				return nil, false
			}
			ex = ref.RemTrunc(acc, b)
		}
		acc = ex
	}
	return acc, true
}

func checkArith(c arithCase) string {
	want, ok := c.expected()
	if !ok {
		return ""
	}
	f := "[" + c.formula() + "]"
	out := obs.EvalText(f, nil)
	arr, isArr := out.Val.([]interface{})
	if out.Panic != nil || out.Err != nil || !isArr || len(arr) != 1 {
		return fmt.Sprintf("%s -> %s", f, out)
	}
	got, isNum := obs.Rat(arr[0])
	if !isNum {
		return fmt.Sprintf("%s = %s, want %s", f, obs.Show(arr[0]), ref.DecString(want))
	}
	if got.Cmp(want) != 0 {
		return fmt.Sprintf("%s = %s, want exactly %s", f, obs.Show(arr[0]), ref.DecString(want))
	}
	// the number a host function receives as *decimal.Big (and hands back) is the same number
	if arithLocalCount%3 == 1 {
		var seen []*decimal.Big
		probe := func(n *decimal.Big) (*decimal.Big, error) {
			seen = append(seen, n)
			return n, nil
		}
		pf := "[probe(" + c.formula() + "), max(" + c.formula() + "), 0 + abs(" + c.formula() + ") * 1]"
		pout := obs.EvalText(pf, map[string]interface{}{"probe": probe})
		parr, isArr := pout.Val.([]interface{})
		if pout.Panic != nil || pout.Err != nil || !isArr || len(parr) != 3 || len(seen) == 0 {
			return fmt.Sprintf("%s -> %s (host function invoked %d times)", pf, pout, len(seen))
		}
		if sr, ok := obs.Rat(seen[0]); !ok || sr.Cmp(want) != 0 {
			return fmt.Sprintf("the host function in %s received %s, want exactly %s", pf, obs.Show(seen[0]), ref.DecString(want))
		}
		wabs := new(big.Rat).Abs(want)
		for i, w := range []*big.Rat{want, want, wabs} {
			if g, ok := obs.Rat(parr[i]); !ok || g.Cmp(w) != 0 {
				return fmt.Sprintf("element %d of %s = %s, want exactly %s", i, pf, obs.Show(parr[i]), ref.DecString(w))
			}
		}
	}
	// the same computation with every intermediate value held in a local: a number keeps all its digits
	// when it is bound to a `$` name and read back
	arithLocalCount++
	if arithLocalCount%3 == 0 {
		lf := "($t0 = " + c.Vals[0].lit(c.Style)
		for i, op := range c.Ops {
			lf += fmt.Sprintf(", $t%d = $t%d %s %s", i+1, i, op, c.Vals[i+1].lit(c.Style+i+1))
		}
		lf = "[" + lf + fmt.Sprintf(", $t%d)]", len(c.Ops))
		lout := obs.EvalText(lf, map[string]interface{}{})
		larr, isArr := lout.Val.([]interface{})
		if lout.Panic != nil || lout.Err != nil || !isArr || len(larr) != 1 {
			return fmt.Sprintf("%s -> %s", lf, lout)
		}
		if lgot, isNum := obs.Rat(larr[0]); !isNum || lgot.Cmp(want) != 0 {
			return fmt.Sprintf("%s = %s, but without the locals %s = %s", lf, obs.Show(larr[0]), f, obs.Show(arr[0]))
		}
	}
	return ""
}

var arithLocalCount int

func arithNontrivial(c arithCase) bool {
	// the exact result of some step needed rounding, or alignment spans >= 20 digits
	acc := c.Vals[0].rat()
	for i, op := range c.Ops {
		b := c.Vals[i+1].rat()
		var exact *big.Rat
		switch op {
		case "+":
			exact = new(big.Rat).Add(acc, b)
		case "-":
			exact = new(big.Rat).Sub(acc, b)
		case "*":
			exact = new(big.Rat).Mul(acc, b)
		case "/":
			if b.Sign() == 0 {
				return false
			}
			exact = new(big.Rat).Quo(acc, b)
		case "%":
			return true
		}
		if n, ok := ref.SigDigits(exact); !ok || n > 34 {
			return true
		}
		if acc.Sign() != 0 && b.Sign() != 0 {
			if d := ref.MagExp(acc) - ref.MagExp(b); d >= 20 || d <= -20 {
				return true
			}
		}
		acc = ref.RoundSig(exact, 34)
	}
	return false
}

func init() {
	h.RegisterReplay("c04-arith", func(raw json.RawMessage) string {
		c, err := h.Decode[arithCase](raw)
		if err != nil {
			return "bad replay: " + err.Error()
		}
		return checkArith(c)
	})
	h.RegisterReplay("c04-entry", func(raw json.RawMessage) string {
		c, err := h.Decode[entryCase](raw)
		if err != nil {
			return "bad replay: " + err.Error()
		}
		return checkEntry(c)
	})
	h.RegisterReplay("c04-exit", func(raw json.RawMessage) string {
		c, err := h.Decode[arithCase](raw)
		if err != nil {
			return "bad replay: " + err.Error()
		}
		return checkExit(c)
	})
}

func genCoef(t *rapid.T, label string) string {
	digits := func(n int) string {
		b := make([]byte, n)
		for i := range b {
			b[i] = byte('0' + rapid.IntRange(0, 9).Draw(t, label+"d"))
		}
		if b[0] == '0' {
			b[0] = byte('1' + rapid.IntRange(0, 8).Draw(t, label+"d0"))
		}
		return string(b)
	}
	switch rapid.IntRange(0, 7).Draw(t, label+"cls") {
	case 0:
		return digits(rapid.IntRange(1, 3).Draw(t, label+"n"))
	case 1:
		return digits(34)
	case 2:
		return strings.Repeat("9", rapid.IntRange(1, 34).Draw(t, label+"n"))
	case 3:
		return "1"
	case 4: // trailing zeros
		n := rapid.IntRange(1, 20).Draw(t, label+"n")
		return digits(n) + strings.Repeat("0", rapid.IntRange(1, 34-n).Draw(t, label+"z"))
	case 5:
		return digits(rapid.IntRange(16, 19).Draw(t, label+"n"))
	case 6:
		return rapid.SampledFrom([]string{"0", "5", "25", "125", "2", "4", "8", "3", "7", "11"}).Draw(t, label+"small")
	default:
		return digits(rapid.IntRange(1, 34).Draw(t, label+"n"))
	}
}

// integer boundaries at which machine-integer or float fast paths would break
var c04IntBoundaries = []string{"9007199254740992", "9007199254740993", "9223372036854775807", "9223372036854775808", "18446744073709551615", "18446744073709551616",
	"4294967296", "4294967295", "3037000500", "2147483648", "1000000000000000", "999999999999999", "10000000000000000000", "99999999999999999999", "4611686018427387904"}

func genOperand(t *rapid.T, label string) decOperand {
	switch rapid.IntRange(0, 7).Draw(t, label+"int") {
	case 0: // plain integers of 8-20 digits (exponent 0)
		n := rapid.IntRange(8, 20).Draw(t, label+"nd")
		b := make([]byte, n)
		for i := range b {
			b[i] = byte('0' + rapid.IntRange(0, 9).Draw(t, label+"id"))
		}
		if b[0] == '0' {
			b[0] = '9'
		}
		return decOperand{Neg: rapid.Bool().Draw(t, label+"neg"), Coef: string(b)}
	case 1: // at or next to a machine boundary
		v, _ := new(big.Int).SetString(rapid.SampledFrom(c04IntBoundaries).Draw(t, label+"bnd"), 10)
		v.Add(v, big.NewInt(int64(rapid.IntRange(-2, 2).Draw(t, label+"bd"))))
		return decOperand{Neg: rapid.Bool().Draw(t, label+"neg"), Coef: v.String()}
	}
	return decOperand{Neg: rapid.Bool().Draw(t, label+"neg"), Coef: genCoef(t, label), Exp: rapid.IntRange(-30, 30).Draw(t, label+"exp")}
}

// genTiePair constructs operands whose exact sum/product needs rounding with
// the discarded part exactly at, just above or just below half a unit.
func genTiePair(t *rapid.T) (a, b decOperand, op string) {
	// a = 34-digit integer X; b = tail * 10^-k  => X + b has 34+k digits with chosen tail
	x := decOperand{Coef: genCoefN(t, 34), Exp: 0, Neg: rapid.Bool().Draw(t, "tneg")}
	tail := rapid.SampledFrom([]string{"5", "50", "500000", "49", "51", "4999999999", "5000000001", "05", "95", "5000000000000000000000000000000000"}).Draw(t, "tail")
	y := decOperand{Coef: strings.TrimLeft(tail, "0"), Exp: -len(tail), Neg: x.Neg != rapid.Bool().Draw(t, "opp")}
	if y.Coef == "" {
		y.Coef = "0"
	}
	if rapid.Bool().Draw(t, "mulform") {
		// product form: (X) * (1 + tail*10^-k) is not controlled; use scaling instead: X * 10^-17 * (10^17 + 5)
		return x, decOperand{Coef: "1" + strings.Repeat("0", 16) + rapid.SampledFrom([]string{"5", "4", "6"}).Draw(t, "m"), Exp: -17}, "*"
	}
	return x, y, rapid.SampledFrom([]string{"+", "-"}).Draw(t, "tieop")
}

// genGapPair constructs a +/- pair whose leading digits are 30-40 places
// apart, the larger operand often a power of ten: the small operand only
// decides the rounding of the result (and, when the subtraction cancels the
// leading digit, a digit the result actually keeps).
func genGapPair(t *rapid.T) (a, b decOperand, op string) {
	ac := rapid.SampledFrom([]string{"1", "1", "10", "1000000", "5", "25", "9", "99", "1000000000000000000000000000000000", "9999999999999999999999999999999999", "1000000000000000000000000000000001"}).Draw(t, "gapA")
	if rapid.IntRange(0, 3).Draw(t, "gapArand") == 0 {
		ac = genCoef(t, "gapAc")
	}
	ea := rapid.IntRange(-5, 30).Draw(t, "gapEa")
	gap := rapid.IntRange(30, 40).Draw(t, "gap")
	bc := strings.TrimLeft(rapid.StringMatching(`[0-9]{1,6}`).Draw(t, "gapB"), "0")
	if bc == "" {
		bc = "6"
	}
	// leading digit of a sits at 10^(ea+len(ac)-1); that of b must sit gap places below
	eb := ea + len(ac) - 1 - gap - (len(bc) - 1)
	a = decOperand{Neg: rapid.Bool().Draw(t, "gapAneg"), Coef: ac, Exp: ea}
	b = decOperand{Neg: rapid.Bool().Draw(t, "gapBneg"), Coef: bc, Exp: eb}
	if rapid.Bool().Draw(t, "gapSwap") {
		a, b = b, a
	}
	return a, b, rapid.SampledFrom([]string{"+", "-"}).Draw(t, "gapOp")
}

func genCoefN(t *rapid.T, n int) string {
	b := make([]byte, n)
	for i := range b {
		b[i] = byte('0' + rapid.IntRange(0, 9).Draw(t, "cd"))
	}
	if b[0] == '0' {
		b[0] = '7'
	}
	// make the last retained digit even or odd at random (ties-to-even matters)
	return string(b)
}

// TestC04Pairs: single operations.
func TestC04Pairs(t *testing.T) {
	run := h.Begin("C04", "pairs", "rapid: pairs of decimal operands (sign x coefficient of 1-34 digits from classes tiny / full 34 / all nines / powers of ten / trailing zeros / 16-19 digits x exponent in [-30,30]) under + - * / %, plus constructed rounding cases (discarded part exactly half a unit, just above, just below, even and odd retained digit; sums and differences of operands whose leading digits are 30-40 places apart, the larger often a power of ten, so that cancellation moves the rounding position); both literal spellings (exponent and plain); oracle: exact rational arithmetic, half-even rounding to 34 significant digits, % as a - b*trunc(a/b); compared by value through '[e]'; non-trivial: the exact result needed rounding, or the operands are >=20 orders of magnitude apart, or the operator is %; distinct by formula")
	defer run.End(t)
	h.RapidSetup(h.N(20000, 2000000), "c04pairs")
	rapid.Check(t, func(rt *rapid.T) {
		var c arithCase
		if k := rapid.IntRange(0, 5).Draw(rt, "tie"); k == 0 {
			a, b, op := genTiePair(rt)
			c = arithCase{Ops: []string{op}, Vals: []decOperand{a, b}}
		} else if k == 1 {
			a, b, op := genGapPair(rt)
			c = arithCase{Ops: []string{op}, Vals: []decOperand{a, b}}
		} else {
			c = arithCase{Ops: []string{rapid.SampledFrom([]string{"+", "-", "*", "/", "%"}).Draw(rt, "op")}, Vals: []decOperand{genOperand(rt, "a"), genOperand(rt, "b")}}
		}
		c.Style = rapid.IntRange(0, 7).Draw(rt, "style")
		if _, ok := c.expected(); !ok {
			run.Class("outside-domain")
			return
		}
		f := c.formula()
		run.CountKey(f, arithNontrivial(c), c.Ops[0])
		run.Sample(c.Ops[0], f)
		if msg := checkArith(c); msg != "" {
			run.Pending("pairs", "c04-arith", c, msg)
			rt.Fatalf("%s", msg)
		}
	})
}

// TestC04Chains: chains of up to 4 operations, every intermediate rounded.
func TestC04Chains(t *testing.T) {
	run := h.Begin("C04", "chains", "rapid: chains of 2-4 operations over + - * / % with explicit parentheses; the reference rounds every intermediate result to 34 digits as every computed number is; oracle and non-trivial rule as for pairs; distinct by formula")
	defer run.End(t)
	h.RapidSetup(h.N(8000, 2000000), "c04chains")
	rapid.Check(t, func(rt *rapid.T) {
		n := rapid.IntRange(2, 4).Draw(rt, "nops")
		c := arithCase{Style: rapid.IntRange(0, 7).Draw(rt, "style")}
		c.Vals = append(c.Vals, genOperand(rt, "v0"))
		for i := 0; i < n; i++ {
			c.Ops = append(c.Ops, rapid.SampledFrom([]string{"+", "-", "*", "/", "%", "+", "*"}).Draw(rt, "op"))
			c.Vals = append(c.Vals, genOperand(rt, "v"))
		}
		if _, ok := c.expected(); !ok {
			run.Class("outside-domain")
			return
		}
		f := c.formula()
		run.CountKey(f, arithNontrivial(c), "")
		run.Sample("chain", f)
		if msg := checkArith(c); msg != "" {
			run.Pending("chains", "c04-arith", c, msg)
			rt.Fatalf("%s", msg)
		}
	})
}

// TestC04Identities: the identities the statement names, verbatim, and a small exhaustive grid.
func TestC04Identities(t *testing.T) {
	run := h.Begin("C04", "identities", "bounded-exhaustive: a op b for all a,b in a grid of 41 decimals ({0, +-1, +-0.1, +-0.2, +-0.3, +-0.5, +-1.5, +-2.5, +-3, +-7, +-10, +-1e-7, +-1e20, +-9999999999999999999999999999999999, ...}) under + - * / %, and the named identities (0.1 + 0.2 === 0.3); oracle as for pairs; every case non-trivial that rounds or uses %")
	defer run.End(t)
	base := []string{"1", "0.1", "0.2", "0.3", "0.5", "1.5", "2.5", "3", "7", "10", "0.0000001", "100000000000000000000", "9999999999999999999999999999999999", "1234567890123456789012345678901234", "0.3333333333333333333333333333333333", "1.10", "2.50", "0.07", "123.456", "6"}
	var ops []decOperand
	ops = append(ops, decOperand{Coef: "0"})
	for _, b := range base {
		c, e, _ := ref.NormNum(b)
		ops = append(ops, decOperand{Coef: c, Exp: int(e)}, decOperand{Coef: c, Exp: int(e), Neg: true})
	}
	var idx int64
	for _, a := range ops {
		for _, b := range ops {
			for _, op := range []string{"+", "-", "*", "/", "%"} {
				idx++
				if !h.Mine(idx) || run.NViolations() >= 3 {
					continue
				}
				c := arithCase{Ops: []string{op}, Vals: []decOperand{a, b}, Style: int(idx % 8)}
				if _, ok := c.expected(); !ok {
					continue
				}
				run.Count(arithNontrivial(c), op)
				if idx%499 == 0 {
					run.Sample(op, c.formula())
				}
				if msg := checkArith(c); msg != "" {
					run.Fail("c04-arith", c, msg)
				}
			}
		}
	}
	if h.Mine(0) {
		for _, f := range []string{"0.1 + 0.2 === 0.3", "0.1 + 0.2 == 0.3", "1.1 * 1.1 === 1.21", "0.3 - 0.1 === 0.2", "1 / 3 * 3 === 0.9999999999999999999999999999999999", "0.1 * 3 === 0.3", "100 * 1.1 === 110", "(0.7 + 0.1) * 10 === 8"} {
			out := obs.EvalText(f, nil)
			run.Count(true, "identity")
			if b, ok := out.Val.(bool); !ok || !b {
				run.Fail("c02", mkTextCase(f, ""), fmt.Sprintf("identity %s evaluates to %s", f, out))
			}
		}
	}
	run.Exhaustive()
}

// ---- entry: Go float64 / int / int64 data values ----------------------------

type entryCase struct {
	Kind string `json:"kind"` // float64 | int | int64
	Bits uint64 `json:"bits"` // float64 bit pattern or the two's-complement integer
}

func (c entryCase) value() (interface{}, *big.Rat, string) {
	switch c.Kind {
	case "float64":
		f := math.Float64frombits(c.Bits)
		return f, ref.ShortestRat(f), strconv.FormatFloat(f, 'e', -1, 64)
	case "int":
		v := int(int64(c.Bits))
		return v, new(big.Rat).SetInt64(int64(v)), strconv.Itoa(v)
	default:
		v := int64(c.Bits)
		return v, new(big.Rat).SetInt64(v), strconv.FormatInt(v, 10)
	}
}

func checkEntry(c entryCase) string {
	val, want, printed := c.value()
	if f, ok := val.(float64); ok && (math.IsNaN(f) || math.IsInf(f, 0)) {
		return ""
	}
	lit := printed
	neg := strings.HasPrefix(lit, "-")
	if neg {
		lit = "(-" + lit[1:] + ")"
	}
	data := map[string]interface{}{"x": val, "m": map[string]interface{}{"k": val}}
	f := "[x, m.k, x === " + lit + ", x == " + lit + ", x - " + lit + ", " + lit + "]"
	out := obs.EvalText(f, data)
	arr, ok := out.Val.([]interface{})
	if out.Panic != nil || out.Err != nil || !ok || len(arr) != 6 {
		return fmt.Sprintf("%s with x=%s(%s) -> %s", f, c.Kind, printed, out)
	}
	for i := 0; i < 2; i++ {
		got, isNum := obs.Rat(arr[i])
		if !isNum || got.Cmp(want) != 0 {
			return fmt.Sprintf("%s data value %s enters as %s, it prints as %s", c.Kind, printed, obs.Show(arr[i]), printed)
		}
	}
	if b, ok := arr[2].(bool); !ok || !b {
		return fmt.Sprintf("%s field x=%s: x === %s is %s", c.Kind, printed, lit, obs.Show(arr[2]))
	}
	if b, ok := arr[3].(bool); !ok || !b {
		return fmt.Sprintf("%s field x=%s: x == %s is %s", c.Kind, printed, lit, obs.Show(arr[3]))
	}
	// the same value supplied through the other entry points: SetThisValue (on a runner with a map and on one
	// without), a struct field, a typed map, a host function result
	for way := 0; way < 4; way++ {
		r := formula.NewRunner()
		expr := "[x, x === " + lit + "]"
		switch way {
		case 0:
			r.SetThis(map[string]interface{}{"other": 1})
			r.SetThisValue("x", val)
		case 1:
			r.SetThisValue("x", val)
		case 2:
			switch v := val.(type) {
			case float64:
				r.SetThis(map[string]interface{}{"st": struct{ X float64 }{v}, "tm": map[string]float64{"x": v}})
			case int64:
				r.SetThis(map[string]interface{}{"st": struct{ X int64 }{v}, "tm": map[string]int64{"x": v}})
			case int:
				r.SetThis(map[string]interface{}{"st": struct{ X int }{v}, "tm": map[string]int{"x": v}})
			default:
				continue
			}
			expr = "[st.X, tm.x === " + lit + "]"
		case 3:
			v := val
			r.SetThis(map[string]interface{}{"get": func() (interface{}, error) { return v, nil }})
			expr = "[get(), get() === " + lit + "]"
		}
		o := obs.Eval(r, context.Background(), obs.Parse([]byte(expr)).Src.Expression)
		a2, ok := o.Val.([]interface{})
		if o.Panic != nil || o.Err != nil || !ok || len(a2) != 2 {
			return fmt.Sprintf("%s with %s(%s) supplied through %s -> %s", expr, c.Kind, printed, []string{"SetThisValue", "SetThisValue on a runner without a map", "a struct field / typed map", "a host function result"}[way], o)
		}
		if got, isNum := obs.Rat(a2[0]); !isNum || got.Cmp(want) != 0 || a2[1] != true {
			return fmt.Sprintf("%s data value %s supplied through %s enters as %s (=== literal: %v), it prints as %s", c.Kind, printed, []string{"SetThisValue", "SetThisValue on a runner without a map", "a struct field / typed map", "a host function result"}[way], obs.Show(a2[0]), a2[1], printed)
		}
	}
	if d, ok := obs.Rat(arr[4]); !ok || d.Sign() != 0 {
		// x - literal is exact when both have <= 34 digits (always true here: float64 shortest form has <=17 digits, int64 <= 19)
		return fmt.Sprintf("%s field x=%s: x - %s = %s, want 0", c.Kind, printed, lit, obs.Show(arr[4]))
	}
	return ""
}

// TestC04Entry: Go float64 / int / int64 data values enter with exactly the value they print as.
func TestC04Entry(t *testing.T) {
	run := h.Begin("C04", "entry", "rapid + boundaries: float64 data values (uniform finite bit patterns, values without a short binary form such as 0.1 and 30.749999000000003, integers up to 2^63 stored in floats, subnormals, max), int and int64 data values (uniform 64-bit, +-2^53+-1, MinInt64, MaxInt64, powers of ten), read as a top-level field and through a nested map, and supplied through SetThisValue (with and without a map), a struct field, a typed map and a host function result; oracle: the element equals the shortest round-trip decimal (float) / the integer exactly, 'x === literal', 'x == literal' and 'x - literal == 0'; non-trivial: |value| > 2^53 or a float with >= 15 significant digits; distinct by (kind, bits)")
	defer run.End(t)
	var fixed []entryCase
	for _, f := range []float64{0.1, 0.2, 0.3, 30.749999000000003, 1e22, 1e23, 9007199254740993, 9223372036854775807, 1.7976931348623157e308, 5e-324, 2.2250738585072014e-308, 123456789.12345679, -0.1, 1e-7, 0.000001, 1e21, 4.35, 0.57, 1.005, -0.0} {
		fixed = append(fixed, entryCase{"float64", math.Float64bits(f)})
	}
	for _, v := range []int64{0, 1, -1, 1 << 53, 1<<53 + 1, 1<<53 - 1, -(1 << 53) - 1, math.MaxInt64, math.MinInt64, math.MaxInt64 - 1, 1e18, 999999999999999999, 123456789012345678, -9007199254740993, 9007199254740993} {
		fixed = append(fixed, entryCase{"int64", uint64(v)}, entryCase{"int", uint64(v)})
	}
	if h.Mine(0) {
		for _, c := range fixed {
			_, _, printed := c.value()
			run.CountKey(c.Kind+printed, true, c.Kind)
			run.Sample(c.Kind+"-boundary", c.Kind+" "+printed)
			if msg := checkEntry(c); msg != "" {
				run.Fail("c04-entry", c, msg)
			}
		}
	}
	if run.NViolations() > 0 {
		return
	}
	h.RapidSetup(h.N(10000, 1000000), "c04entry")
	rapid.Check(t, func(rt *rapid.T) {
		var c entryCase
		switch rapid.IntRange(0, 3).Draw(rt, "kind") {
		case 0:
			c = entryCase{"float64", rapid.Uint64().Draw(rt, "bits")}
		case 1: // decimal-looking floats
			m := rapid.Int64Range(-999999999999999999, 999999999999999999).Draw(rt, "m")
			e := rapid.IntRange(-30, 30).Draw(rt, "e")
			f, _ := strconv.ParseFloat(fmt.Sprintf("%de%d", m, e), 64)
			c = entryCase{"float64", math.Float64bits(f)}
		case 2:
			c = entryCase{"int64", rapid.Uint64().Draw(rt, "i64")}
		case 3:
			c = entryCase{"int", uint64(rapid.Int64Range(-(1<<62), 1<<62).Draw(rt, "i") + rapid.Int64Range(-3, 3).Draw(rt, "d"))}
		}
		val, want, printed := c.value()
		if f, ok := val.(float64); ok && (math.IsNaN(f) || math.IsInf(f, 0)) {
			run.Class("non-finite-skipped")
			return
		}
		limit := new(big.Rat).SetInt64(1 << 53)
		nt := new(big.Rat).Abs(want).Cmp(limit) > 0
		if c.Kind == "float64" {
			coef, _, _ := ref.NormNum(strings.TrimPrefix(printed, "-"))
			nt = nt || len(coef) >= 15
		}
		run.CountKey(c.Kind+printed, nt, c.Kind)
		run.Sample(c.Kind, c.Kind+" "+printed)
		if msg := checkEntry(c); msg != "" {
			run.Pending("entry", "c04-entry", c, msg)
			rt.Fatalf("%s", msg)
		}
	})
}

// ---- exit: the float64 handed back to the caller -----------------------------

func checkExit(c arithCase) string {
	want, ok := c.expected()
	if !ok {
		return ""
	}
	f := c.formula()
	out := obs.EvalText(f, nil)
	got, isF := out.Val.(float64)
	if out.Panic != nil || out.Err != nil || !isF {
		return fmt.Sprintf("%s -> %s", f, out)
	}
	nearest := ref.NearestFloat64(want)
	if math.IsInf(nearest, 0) {
		return ""
	}
	// integer of <= 15 digits scaled by 10^k, |k| <= 22 ?
	strict := false
	if want.Sign() == 0 {
		strict = true
	} else if n, term := ref.SigDigits(want); term && n <= 15 {
		// want = coef * 10^k with coef having n digits
		k := ref.MagExp(want) - (n - 1)
		strict = k >= -22 && k <= 22
	}
	if strict {
		if got != nearest {
			return fmt.Sprintf("%s returns float64 %v, the nearest float64 to the decimal result %s is %v", f, got, ref.DecString(want), nearest)
		}
		return ""
	}
	if d := ref.UlpDistance(got, nearest); d > 4 {
		return fmt.Sprintf("%s returns float64 %v, %d ulps away from the nearest float64 %v of the decimal result %s", f, got, d, nearest, ref.DecString(want))
	}
	return ""
}

// TestC04Exit: the float64 returned for a top-level number.
func TestC04Exit(t *testing.T) {
	run := h.Begin("C04", "exit", "rapid: top-level arithmetic results (single operations and short chains, incl. results that are integers of <=15 digits times 10^k with |k|<=22, results with 16-34 digits, repeating quotients); oracle: the returned float64 equals the correctly rounded nearest float64 of the exact decimal result (strconv.ParseFloat of its exact decimal string) when the result is an integer of at most 15 digits scaled by 10^-22..10^22, and is within 4 ulps otherwise; non-trivial: the strict rule applies and the result is not a small integer; distinct by formula")
	defer run.End(t)
	h.RapidSetup(h.N(10000, 1000000), "c04exit")
	rapid.Check(t, func(rt *rapid.T) {
		var c arithCase
		switch rapid.IntRange(0, 2).Draw(rt, "form") {
		case 0: // coef(<=15 digits) * 10^k as a product / literal
			coef := strconv.FormatInt(rapid.Int64Range(0, 999999999999999).Draw(rt, "coef"), 10)
			k := rapid.IntRange(-22, 22).Draw(rt, "k")
			c = arithCase{Ops: []string{"*"}, Vals: []decOperand{{Coef: coef, Exp: k, Neg: rapid.Bool().Draw(rt, "neg")}, {Coef: "1"}}}
		case 1:
			c = arithCase{Ops: []string{rapid.SampledFrom([]string{"+", "-", "*", "/"}).Draw(rt, "op")}, Vals: []decOperand{genOperand(rt, "a"), genOperand(rt, "b")}}
		case 2: // short decimals, typical money arithmetic
			a := decOperand{Coef: strconv.Itoa(rapid.IntRange(0, 9999999).Draw(rt, "a")), Exp: -rapid.IntRange(0, 4).Draw(rt, "ae")}
			b := decOperand{Coef: strconv.Itoa(rapid.IntRange(1, 9999999).Draw(rt, "b")), Exp: -rapid.IntRange(0, 4).Draw(rt, "be")}
			c = arithCase{Ops: []string{rapid.SampledFrom([]string{"+", "-", "*", "/"}).Draw(rt, "op")}, Vals: []decOperand{a, b}}
		}
		c.Style = rapid.IntRange(0, 7).Draw(rt, "style")
		want, ok := c.expected()
		if !ok {
			run.Class("outside-domain")
			return
		}
		n, term := ref.SigDigits(want)
		strict := term && n <= 15 && want.Sign() != 0
		f := c.formula()
		cls := "ulp-rule"
		if strict {
			cls = "strict-rule"
		}
		run.CountKey(f, strict && n >= 3, cls)
		run.Sample(cls, f)
		if msg := checkExit(c); msg != "" {
			run.Pending("exit", "c04-exit", c, msg)
			rt.Fatalf("%s", msg)
		}
	})
}

// ---- trees: grouping by precedence instead of explicit parentheses -----------

// evalTree is the reference evaluation of an arithmetic tree: every operation
// rounds its result to 34 digits.
func evalTree(n *ref.Node) (*big.Rat, bool) {
	switch n.Kind {
	case "num":
		r, ok := ref.RatOf(n.Val)
		return r, ok
	case "paren":
		return evalTree(n.Kids[0])
	case "pre":
		r, ok := evalTree(n.Kids[0])
		if !ok {
			return nil, false
		}
		return new(big.Rat).Neg(r), true
	case "bin":
		a, ok1 := evalTree(n.Kids[0])
		b, ok2 := evalTree(n.Kids[1])
		if !ok1 || !ok2 {
			return nil, false
		}
		switch n.Op {
		case "+":
			return ref.RoundSig(new(big.Rat).Add(a, b), 34), true
		case "-":
			return ref.RoundSig(new(big.Rat).Sub(a, b), 34), true
		case "*":
			return ref.RoundSig(new(big.Rat).Mul(a, b), 34), true
		case "/":
			if b.Sign() == 0 {
				return nil, false
			}
			return ref.RoundSig(new(big.Rat).Quo(a, b), 34), true
		case "%":
			if b.Sign() == 0 {
				return nil, false
			}
			if len(new(big.Int).Abs(ref.TruncRat(new(big.Rat).Quo(a, b))).String()) > 34 {
				return nil, false
			}
			return ref.RemTrunc(a, b), true
		}
	}
	return nil, false
}

type treeCase struct {
	Tree *ref.Node `json:"tree"`
}

func checkTree(c treeCase) string {
	want, ok := evalTree(c.Tree)
	if !ok {
		return ""
	}
	f := "[" + c.Tree.Text() + "]"
	out := obs.EvalText(f, nil)
	arr, isArr := out.Val.([]interface{})
	if out.Panic != nil || out.Err != nil || !isArr || len(arr) != 1 {
		return fmt.Sprintf("%s -> %s", f, out)
	}
	got, isNum := obs.Rat(arr[0])
	if !isNum || got.Cmp(want) != 0 {
		return fmt.Sprintf("%s = %s, want exactly %s (every operation rounds to 34 digits)", f, obs.Show(arr[0]), ref.DecString(want))
	}
	return ""
}

func init() {
	h.RegisterReplay("c04-tree", func(raw json.RawMessage) string {
		c, err := h.Decode[treeCase](raw)
		if err != nil {
			return "bad replay: " + err.Error()
		}
		return checkTree(c)
	})
}

func genArithTree(t *rapid.T, depth int) *ref.Node {
	if depth <= 0 || rapid.IntRange(0, 4).Draw(t, "leaf") == 0 {
		d := genOperand(t, "v")
		lit := d.Coef + "e" + strconv.Itoa(d.Exp)
		n := &ref.Node{Kind: "num", Val: lit, Src: lit}
		if d.Neg {
			return &ref.Node{Kind: "pre", Op: "-", Kids: []*ref.Node{n}}
		}
		return n
	}
	op := rapid.SampledFrom([]string{"+", "-", "*", "/", "%", "+", "*"}).Draw(t, "op")
	lv := ref.BinLevel[op]
	l, r := genArithTree(t, depth-1), genArithTree(t, depth-1)
	return &ref.Node{Kind: "bin", Op: op, Kids: []*ref.Node{atLevel(l, lv), atLevel(r, lv+1)}}
}

// TestC04Trees: arithmetic trees printed with parentheses only where the grammar requires them.
func TestC04Trees(t *testing.T) {
	run := h.Begin("C04", "trees", "rapid: arithmetic expression trees (depth<=3 over + - * / % and unary minus, operands as in pairs) printed with parentheses only where precedence / associativity require them (a*b+c, a-b*c/d, ...); oracle: the reference evaluates the tree bottom-up and rounds every operation to 34 digits; non-trivial: >=2 operators of different precedence without parentheses; distinct by formula")
	defer run.End(t)
	h.RapidSetup(h.N(8000, 1000000), "c04trees")
	rapid.Check(t, func(rt *rapid.T) {
		tree := genArithTree(rt, rapid.IntRange(1, 3).Draw(rt, "depth"))
		c := treeCase{Tree: tree}
		if _, ok := evalTree(tree); !ok {
			run.Class("outside-domain")
			return
		}
		text := tree.Text()
		levels := map[int]bool{}
		parens := false
		tree.Walk(func(n *ref.Node) {
			if n.Kind == "bin" {
				levels[ref.BinLevel[n.Op]] = true
			}
			if n.Kind == "paren" {
				parens = true
			}
		})
		run.CountKey(text, len(levels) >= 2 && !parens, "")
		run.Sample("tree", text)
		if msg := checkTree(c); msg != "" {
			run.Pending("trees", "c04-tree", c, msg)
			rt.Fatalf("%s", msg)
		}
	})
}
