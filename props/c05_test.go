package props

import (
	"bytes"
	"context"
	"encoding/json"
	"fmt"
	"math/big"
	"strconv"
	"strings"
	"testing"

	"github.com/aundis/formula"
	"pgregory.net/rapid"

	"verif/internal/h"
	"verif/internal/obs"
	"verif/internal/ref"
)

// C05 — ordering and equality are lawful and representation-independent.

// cmpVal is one operand: formula text plus its reference meaning.
type cmpVal struct {
	Text string `json:"text_quoted"`   // formula text (quoted)
	Kind string `json:"kind"`          // number | string | boolean | null
	Num  string `json:"num,omitempty"` // exact decimal value (reference), for numbers
	Str  string `json:"str,omitempty"` // quoted bytes, for strings
	Bool bool   `json:"bool,omitempty"`
	Data string `json:"data,omitempty"` // if set, Text is a data name bound to this kind of Go value: "nilptr", "nil"
}

func (v cmpVal) text() string { return textCase{Text: v.Text}.text() }
func (v cmpVal) str() string  { s, _ := strconv.Unquote(v.Str); return s }
func (v cmpVal) rat() *big.Rat {
	r, _ := new(big.Rat).SetString(v.Num)
	return r
}

func numVal(text string, exact *big.Rat) cmpVal {
	return cmpVal{Text: strconv.QuoteToASCII(text), Kind: "number", Num: exact.RatString()}
}
func strVal(s string) cmpVal {
	return cmpVal{Text: strconv.QuoteToASCII(ref.QuoteString(s, '\'')), Kind: "string", Str: strconv.QuoteToASCII(s)}
}
func boolVal(b bool) cmpVal {
	return cmpVal{Text: strconv.QuoteToASCII(strconv.FormatBool(b)), Kind: "boolean", Bool: b}
}

type cmpCase struct {
	A cmpVal `json:"a"`
	B cmpVal `json:"b"`
}

var cmpLocalCount int

var cmpData = map[string]interface{}{"np": (*int)(nil), "nn": nil}

// checkCmp evaluates the eight operators on (A,B) and checks every law that applies.
func checkCmp(c cmpCase) string {
	a, b := c.A.text(), c.B.text()
	f := fmt.Sprintf("[(%s) < (%s), (%s) == (%s), (%s) > (%s), (%s) <= (%s), (%s) >= (%s), (%s) != (%s), (%s) === (%s), (%s) !== (%s)]", a, b, a, b, a, b, a, b, a, b, a, b, a, b, a, b)
	// operands that are Go data values (Data "f64:<text>" / "i64:<text>") are bound under their name
	cmpData := cmpData
	for _, v := range []cmpVal{c.A, c.B} {
		if strings.HasPrefix(v.Data, "f64:") || strings.HasPrefix(v.Data, "i64:") {
			d := map[string]interface{}{}
			for k, x := range cmpData {
				d[k] = x
			}
			if strings.HasPrefix(v.Data, "f64:") {
				fv, _ := strconv.ParseFloat(v.Data[4:], 64)
				d[v.text()] = fv
			} else {
				iv, _ := strconv.ParseInt(v.Data[4:], 10, 64)
				d[v.text()] = iv
			}
			cmpData = d
		}
	}
	out := obs.EvalText(f, cmpData)
	// the same eight comparisons with both operands held in locals: a bound value compares like the value
	cmpLocalCount++
	if cmpLocalCount%3 == 0 && out.Err == nil && out.Panic == nil {
		lf := fmt.Sprintf("$p = (%s), $q = (%s), [$p < $q, $p == $q, $p > $q, $p <= $q, $p >= $q, $p != $q, $p === $q, $p !== $q]", a, b)
		d := map[string]interface{}{}
		for k, v := range cmpData {
			d[k] = v
		}
		if lo := obs.EvalText(lf, d); lo.String() != out.String() {
			return fmt.Sprintf("%s gives %s, but with the operands bound to locals first, %s gives %s", f, out, lf, lo)
		}
		// ... and the bound values used as text in between (concatenated, formatted, compared with a string): reading is reading
		uf := fmt.Sprintf("$p = (%s), $q = (%s), $u = ['' + $p, 'abc' == $q, toString($q), 'abc' < $p, $p + 'x'], [$p < $q, $p == $q, $p > $q, $p <= $q, $p >= $q, $p != $q, $p === $q, $p !== $q]", a, b)
		d2 := map[string]interface{}{}
		for k, v := range cmpData {
			d2[k] = v
		}
		if uo := obs.EvalText(uf, d2); uo.String() != out.String() && uo.Err == nil {
			return fmt.Sprintf("%s gives %s, but with the operands bound to locals and used as text first, %s gives %s", f, out, uf, uo)
		}
	}
	arr, ok := out.Val.([]interface{})
	if out.Panic != nil || out.Err != nil || !ok || len(arr) != 8 {
		return fmt.Sprintf("%s -> %s", f, out)
	}
	var r [8]bool
	for i, e := range arr {
		bv, ok := e.(bool)
		if !ok {
			return fmt.Sprintf("%s: operator #%d yields %s, not a boolean", f, i, obs.Show(e))
		}
		r[i] = bv
	}
	lt, eq, gt, le, ge, ne, seq, sne := r[0], r[1], r[2], r[3], r[4], r[5], r[6], r[7]
	pair := fmt.Sprintf("a=%s b=%s", a, b)
	// negations hold for every pair of values
	if ne != !eq {
		return fmt.Sprintf("%s: a != b is %v but a == b is %v", pair, ne, eq)
	}
	if sne != !seq {
		return fmt.Sprintf("%s: a !== b is %v but a === b is %v", pair, sne, seq)
	}
	sameKind := c.A.Kind == c.B.Kind
	// strict equality
	wantSeq := false
	switch {
	case c.A.Kind == "null" && c.B.Kind == "null":
		wantSeq = true
	case !sameKind:
		wantSeq = false
	case c.A.Kind == "number":
		wantSeq = c.A.rat().Cmp(c.B.rat()) == 0
	case c.A.Kind == "string":
		wantSeq = c.A.str() == c.B.str()
	case c.A.Kind == "boolean":
		wantSeq = c.A.Bool == c.B.Bool
	}
	if seq != wantSeq {
		return fmt.Sprintf("%s: a === b is %v, want %v (%s vs %s)", pair, seq, wantSeq, c.A.Kind, c.B.Kind)
	}
	if sameKind && eq != seq {
		return fmt.Sprintf("%s: operands of the same kind (%s) but a == b is %v and a === b is %v", pair, c.A.Kind, eq, seq)
	}
	// ordering
	if sameKind && (c.A.Kind == "number" || c.A.Kind == "string") {
		var cmp int
		if c.A.Kind == "number" {
			cmp = c.A.rat().Cmp(c.B.rat())
		} else {
			cmp = bytes.Compare([]byte(c.A.str()), []byte(c.B.str()))
		}
		if lt != (cmp < 0) || eq != (cmp == 0) || gt != (cmp > 0) {
			return fmt.Sprintf("%s: (<,==,>) = (%v,%v,%v), the %s order says cmp=%d", pair, lt, eq, gt, c.A.Kind, cmp)
		}
		if le != (lt || eq) || ge != (gt || eq) {
			return fmt.Sprintf("%s: <= is %v, >= is %v but (<,==,>) = (%v,%v,%v)", pair, le, ge, lt, eq, gt)
		}
	}
	return ""
}

func init() {
	h.RegisterReplay("c05", func(raw json.RawMessage) string {
		c, err := h.Decode[cmpCase](raw)
		if err != nil {
			return "bad replay: " + err.Error()
		}
		return checkCmp(c)
	})
}

func ratOfLit(s string) *big.Rat { r, _ := ref.RatOf(s); return r }

// gridValues builds the exhaustive grid.
func gridValues() []cmpVal {
	var vs []cmpVal
	spell := func(texts []string, exact *big.Rat) {
		for _, t := range texts {
			vs = append(vs, numVal(t, exact))
		}
	}
	spell([]string{"0", "0.0", "0e5", "00", "0*-1", "-0", "1-1"}, new(big.Rat))
	spell([]string{"1", "1.0", "1.00", "1e0", "10e-1", "0.1e1", "01", "3-2", "0.5+0.5"}, big.NewRat(1, 1))
	spell([]string{"-1", "-1.0", "-10e-1", "0-1", "1*-1"}, big.NewRat(-1, 1))
	spell([]string{"0.5", ".5", "5e-1", "1/2", "0.50"}, big.NewRat(1, 2))
	spell([]string{"-0.5", "-.5", "0-1/2"}, big.NewRat(-1, 2))
	spell([]string{"10", "1e1", "10.0", "100e-1", "5*2", "010", "0010"}, big.NewRat(10, 1))
	spell([]string{"17", "017", "1.7e1", "0017"}, big.NewRat(17, 1))
	spell([]string{"8", "08", "010-2"}, big.NewRat(8, 1))
	spell([]string{"777", "0777", "00777.0"}, big.NewRat(777, 1))
	spell([]string{"9", "9.0", "3*3"}, big.NewRat(9, 1))
	spell([]string{"0.3", "0.1+0.2", "3e-1", "0.30"}, big.NewRat(3, 10))
	spell([]string{"0.1", "1e-1", "0.10"}, big.NewRat(1, 10))
	spell([]string{"1e30", "1000000000000000000000000000000", "1e15*1e15"}, ratOfLit("1e30"))
	spell([]string{"1e-30", "0.000000000000000000000000000001"}, ratOfLit("1e-30"))
	spell([]string{"1234567890123456789012345678901234", "1234567890123456789012345678901234.0", "1.234567890123456789012345678901234e33"}, ratOfLit("1234567890123456789012345678901234"))
	spell([]string{"1234567890123456789012345678901235", "1234567890123456789012345678901234+1"}, ratOfLit("1234567890123456789012345678901235"))
	third := ref.RoundSig(big.NewRat(1, 3), 34)
	spell([]string{"1/3", "0.3333333333333333333333333333333333"}, third)
	spell([]string{"0.3333333333333333333333333333333334"}, ratOfLit("0.3333333333333333333333333333333334"))
	spell([]string{"2", "2.0", "1+1"}, big.NewRat(2, 1))
	spell([]string{"-2", "-2e0"}, big.NewRat(-2, 1))
	spell([]string{"1e-7", "0.0000001"}, ratOfLit("1e-7"))
	for _, s := range []string{"", "a", "b", "ab", "B", "10", "9", "é", "中", "a\x00", "\xff", "a ", "A", "1", "1.0", "0", "true", "null", "abc", "aB",
		// texts that denote the same instant / number when read as something else: still different strings
		"2024-01-02T03:04:05Z", "2024-01-02T03:04:05+00:00", "2024-01-02T11:04:05+08:00", "1e1", "0001-01-01T00:00:00Z"} {
		vs = append(vs, strVal(s))
	}
	vs = append(vs, boolVal(true), boolVal(false))
	vs = append(vs, cmpVal{Text: strconv.QuoteToASCII("null"), Kind: "null"},
		cmpVal{Text: strconv.QuoteToASCII("np"), Kind: "null", Data: "nilptr"},
		cmpVal{Text: strconv.QuoteToASCII("nn"), Kind: "null", Data: "nil"},
		cmpVal{Text: strconv.QuoteToASCII("undefinedName"), Kind: "null"})
	return vs
}

func cmpNontrivial(c cmpCase) bool {
	if c.A.Kind != c.B.Kind {
		return true
	}
	switch c.A.Kind {
	case "number":
		at, bt := c.A.text(), c.B.text()
		if c.A.rat().Cmp(c.B.rat()) == 0 && at != bt {
			return true
		}
		if strings.ContainsAny(at+bt, "+-*/") || len(at) > 30 || len(bt) > 30 {
			return true
		}
	case "string":
		a, b := c.A.str(), c.B.str()
		return a != b && (strings.HasPrefix(a, b) || strings.HasPrefix(b, a)) || len(a) > 0 && len(b) > 0 && a[0] == b[0]
	}
	return false
}

// TestC05Grid: all ordered pairs of the value grid x the eight operators.
func TestC05Grid(t *testing.T) {
	vs := gridValues()
	run := h.Begin("C05", "grid", fmt.Sprintf("bounded-exhaustive: all ordered pairs of a %d-value grid (numbers in 2-9 spellings each incl. -0, arithmetic results, 34-digit neighbours, 1/3; strings incl. empty, prefixes, case, numeric-looking, multi-byte, NUL, invalid UTF-8; true/false; null, an undefined name, a nil entry and a typed nil pointer) x the eight operators evaluated in one formula; oracle: big.Rat order for numbers, bytes.Compare for strings, === by kind and value, != and !== as negations on every pair, == coinciding with === on same-kind pairs, <= and >= as disjunctions; non-trivial: equal numbers spelled differently, arithmetic results, 34-digit values, strings sharing a prefix, or operands of different kinds", len(vs)))
	defer run.End(t)
	var idx int64
	for _, a := range vs {
		for _, b := range vs {
			idx++
			if !h.Mine(idx) || run.NViolations() >= 3 {
				continue
			}
			c := cmpCase{A: a, B: b}
			run.Count(cmpNontrivial(c), a.Kind+"/"+b.Kind)
			if idx%577 == 0 {
				run.Sample(a.Kind+"/"+b.Kind, a.text()+"  vs  "+b.text())
			}
			if msg := checkCmp(c); msg != "" {
				run.Fail("c05", c, msg)
			}
		}
	}
	run.Exhaustive()
}

// respell renders the operand in a random equivalent spelling.
func respell(t *rapid.T, d decOperand) (string, *big.Rat) {
	exact := d.rat()
	var s string
	switch rapid.IntRange(0, 9).Draw(t, "spell") {
	case 9: // digit separators in the coefficient (and in the exponent), with an exponent of either sign
		co := d.Coef
		if len(co) >= 2 {
			at := rapid.IntRange(1, len(co)-1).Draw(t, "sepat")
			co = co[:at] + "_" + co[at:]
		}
		ex := strconv.Itoa(d.Exp)
		if d.Exp <= -10 || d.Exp >= 10 {
			ex = ex[:len(ex)-1] + "_" + ex[len(ex)-1:]
		}
		s = co + rapid.SampledFrom([]string{"e", "E"}).Draw(t, "emark") + ex
		if d.Neg {
			s = "(-" + s + ")"
		}
	case 7: // a sign in front of the number written as text: `+'42'` is the number 42, `-'42'` is -42
		if d.Exp < 0 || len(d.Coef)+d.Exp > 15 {
			s = d.lit(1)
			break
		}
		s = "'" + d.Coef + strings.Repeat("0", d.Exp) + "'"
		if d.Neg {
			s = "(-" + s + ")"
		} else {
			s = "(+" + s + ")"
		}
	case 8: // the number a builtin makes of its text
		s = "toFloat('" + strings.Trim(d.lit(0), "()") + "')"
	case 5, 6: // an integer written out in full with 1-3 leading zeros (no point, no exponent)
		if d.Exp < 0 || d.Exp > 12 {
			s = d.lit(0)
			break
		}
		s = strings.Repeat("0", rapid.IntRange(1, 3).Draw(t, "lead0")) + d.Coef + strings.Repeat("0", d.Exp)
		if d.Neg {
			s = "(-" + s + ")"
		}
	case 0:
		s = d.lit(0)
	case 1:
		s = d.lit(1)
	case 2: // shifted exponent: coef0 e(exp-1)
		s = d.Coef + "0e" + strconv.Itoa(d.Exp-1)
		if d.Neg {
			s = "(-" + s + ")"
		}
	case 3: // leading zeros and trailing fraction zeros
		s = "00" + d.Coef + ".00e" + strconv.Itoa(d.Exp)
		if d.Neg {
			s = "(-" + s + ")"
		}
	case 4: // as an arithmetic identity
		s = "(" + d.lit(0) + " + 0)"
	}
	return s, exact
}

// c05Pool: operand values as a caller would put them into the data map.
var c05Pool = []struct {
	name string
	v    interface{}
}{
	{"s10", "10"}, {"s9", "9"}, {"sapple", "apple"}, {"sbanana", "banana"}, {"sempty", ""}, {"sA", "A"},
	{"i10", 10}, {"i9", 9}, {"i2", int64(2)}, {"f2_5", 2.5}, {"im1", -1}, {"i0", 0},
	{"bt", true}, {"bf", false}, {"nul", nil},
}

// checkReuse: one parsed comparison formula over the names a and b is evaluated for a sequence of records
// whose operands change kind (strings, numbers, booleans, null); every evaluation must equal that of a
// freshly parsed formula with the same record, and obey trichotomy for number and string pairs.
func checkReuse(seq [][2]int) string {
	const f = "[a < b, a == b, a > b, a <= b, a >= b, a != b, a === b, a !== b]"
	shared := obs.Parse([]byte(f))
	if !shared.OK() {
		return "HARNESS: " + f + " does not parse"
	}
	hist := ""
	for step, pr := range seq {
		x, y := c05Pool[pr[0]%len(c05Pool)], c05Pool[pr[1]%len(c05Pool)]
		hist += fmt.Sprintf(" (a=%s,b=%s)", x.name, y.name)
		mk := func() *formula.Runner {
			r := formula.NewRunner()
			r.SetThis(map[string]interface{}{"a": x.v, "b": y.v})
			return r
		}
		got := obs.Eval(mk(), context.Background(), shared.Src.Expression)
		fresh := obs.Eval(mk(), context.Background(), obs.Parse([]byte(f)).Src.Expression)
		if got.Panic != nil || got.String() != fresh.String() {
			return fmt.Sprintf("record %d of the sequence%s: the formula parsed once and used for every record gives %s, a freshly parsed one gives %s", step+1, hist, got, fresh)
		}
		arr, ok := got.Val.([]interface{})
		if got.Err != nil || !ok || len(arr) != 8 {
			continue // mixed kinds may be an error: not asserted here
		}
		var cmp, known = 0, false
		switch xv := x.v.(type) {
		case string:
			if yv, ok := y.v.(string); ok {
				cmp, known = strings.Compare(xv, yv), true
			}
		case int, int64, float64:
			xf, yf := toF(x.v), toF(y.v)
			if _, isNum := y.v.(string); !isNum && y.v != nil {
				if _, isBool := y.v.(bool); !isBool {
					known = true
					switch {
					case xf < yf:
						cmp = -1
					case xf > yf:
						cmp = 1
					}
				}
			}
		}
		if known {
			want := []bool{cmp < 0, cmp == 0, cmp > 0, cmp <= 0, cmp >= 0, cmp != 0, cmp == 0, cmp != 0}
			for i, w := range want {
				if b, ok := arr[i].(bool); !ok || b != w {
					return fmt.Sprintf("record %d of the sequence%s: element %d of %s is %s, want %v", step+1, hist, i, f, obs.Show(arr[i]), w)
				}
			}
		}
	}
	return ""
}

func toF(v interface{}) float64 {
	switch x := v.(type) {
	case int:
		return float64(x)
	case int64:
		return float64(x)
	case float64:
		return x
	}
	return 0
}

// TestC05TreeReuse: the comparison operators do not remember the operands they saw before.
func TestC05TreeReuse(t *testing.T) {
	run := h.Begin("C05", "tree-reuse", fmt.Sprintf("bounded-exhaustive over ordered pairs of records + rapid sequences of 2-6 records: one parsed formula [a < b, a == b, ..., a !== b] evaluated for records whose operands come from the data map and change kind between records (%d values: strings incl. numeric text, Go ints, int64, float64, booleans, null); oracle: every evaluation equals that of a freshly parsed formula with the same record, and number/number and string/string records obey the statement's order; non-trivial: the kind of an operand changes between consecutive records", len(c05Pool)))
	defer run.End(t)
	n := len(c05Pool)
	var idx int64
	for p := 0; p < n*n; p++ {
		for q := 0; q < n*n; q++ {
			idx++
			if !h.Mine(idx) || run.NViolations() >= 3 || (p*7+q)%5 != 0 { // a fifth of all ordered pairs of records
				continue
			}
			seq := [][2]int{{p / n, p % n}, {q / n, q % n}}
			run.Count(true, "pairs")
			if msg := checkReuse(seq); msg != "" {
				run.Fail("c05-reuse", seq, msg)
			}
		}
	}
	h.RapidSetup(h.N(1500, 300000), "c05reuse")
	rapid.Check(t, func(rt *rapid.T) {
		k := rapid.IntRange(2, 6).Draw(rt, "len")
		var seq [][2]int
		for i := 0; i < k; i++ {
			seq = append(seq, [2]int{rapid.IntRange(0, n-1).Draw(rt, "x"), rapid.IntRange(0, n-1).Draw(rt, "y")})
		}
		run.CountKey(fmt.Sprint(seq), true, "sequences")
		run.Sample("sequences", seq)
		if msg := checkReuse(seq); msg != "" {
			run.Pending("reuse", "c05-reuse", seq, msg)
			rt.Fatalf("%s", msg)
		}
	})
}

func init() {
	h.RegisterReplay("c05-reuse", func(raw json.RawMessage) string {
		seq, err := h.Decode[[][2]int](raw)
		if err != nil {
			return "bad replay: " + err.Error()
		}
		return checkReuse(seq)
	})
}

// TestC05Random: random decimals in random spellings, near neighbours, random byte strings.
func TestC05Random(t *testing.T) {
	run := h.Begin("C05", "random", "rapid: pairs of random decimals (C04 operand generator) each re-spelled at random (plain, exponent, shifted exponent, leading/trailing zeros, integers written out with leading zeros, arithmetic identity), pairs that differ only in the last of 34 digits or are equal, pairs of Go float64 / int64 data values of every magnitude (whole ones beyond 2^53 and 2^63, fractions, extremes; also against the same number as a literal), pairs of random byte strings (shared prefixes, invalid UTF-8), pairs of strings that look like timestamps / numbers / keywords (equal, extended by one character, unrelated); same oracle as the grid; non-trivial as in the grid; distinct by the pair of texts")
	defer run.End(t)
	h.RapidSetup(h.N(8000, 3000000), "c05rand")
	rapid.Check(t, func(rt *rapid.T) {
		var c cmpCase
		switch rapid.IntRange(0, 5).Draw(rt, "form") {
		case 5: // Go float64 / int64 data values of every magnitude (whole ones beyond 2^53 and 2^63, fractions, tiny ones)
			mk := func(name string) cmpVal {
				if rapid.Bool().Draw(rt, name+"int") {
					iv := rapid.SampledFrom([]int64{0, 1, -1, 9007199254740993, -9007199254740993, 9223372036854775807, -9223372036854775808, 1000000000000000000, 4611686018427387904}).Draw(rt, name+"iv")
					if rapid.Bool().Draw(rt, name+"irand") {
						iv = rapid.Int64().Draw(rt, name+"ir")
					}
					return cmpVal{Text: strconv.QuoteToASCII(name), Kind: "number", Num: new(big.Rat).SetInt64(iv).RatString(), Data: "i64:" + strconv.FormatInt(iv, 10)}
				}
				fv := rapid.SampledFrom([]float64{9.3e18, 9.9e18, -9.5e18, -9.25e18, 9223372036854775808, 1e19, 1.5e19, 1e15, 123456789012345680, 0.1, 2.5, 1e-7, 5e-324, 1.7976931348623157e308, 4503599627370497.5}).Draw(rt, name+"fv")
				if rapid.Bool().Draw(rt, name+"frand") {
					fv = rapid.Float64Range(-1e20, 1e20).Draw(rt, name+"fr")
				}
				txt := strconv.FormatFloat(fv, 'g', -1, 64)
				return cmpVal{Text: strconv.QuoteToASCII(name), Kind: "number", Num: ref.ShortestRat(fv).RatString(), Data: "f64:" + txt}
			}
			c = cmpCase{mk("fa"), mk("fb")}
			if rapid.IntRange(0, 3).Draw(rt, "vslit") == 0 { // against the same number written as a literal
				c.B = numVal(ref.DecString(c.A.rat()), c.A.rat())
			}
		case 4: // strings that look like values of another kind compare as strings
			a, _ := genLookalike(rt)
			b, _ := genLookalike(rt)
			switch rapid.IntRange(0, 3).Draw(rt, "rel") {
			case 0:
				b = a
			case 1:
				b = a + rapid.SampledFrom([]string{"0", " ", ".0", "Z", "a"}).Draw(rt, "suffix")
			}
			c = cmpCase{strVal(a), strVal(b)}
		case 0:
			a, b := genOperand(rt, "a"), genOperand(rt, "b")
			sa, ra := respell(rt, a)
			sb, rb := respell(rt, b)
			c = cmpCase{numVal(sa, ra), numVal(sb, rb)}
		case 1: // same value or neighbour
			a := genOperand(rt, "a")
			b := a
			if rapid.Bool().Draw(rt, "nbr") && len(a.Coef) < 34 {
				b.Coef = a.Coef + "1"
				b.Exp = a.Exp - 1
				a2 := a
				a2.Coef = a.Coef + "0"
				a2.Exp = a.Exp - 1
				a = a2
			}
			sa, ra := respell(rt, a)
			sb, rb := respell(rt, b)
			c = cmpCase{numVal(sa, ra), numVal(sb, rb)}
		case 2:
			p := genText(rt, 4)
			a := p + genText(rt, 3)
			b := p + genText(rt, 3)
			c = cmpCase{strVal(a), strVal(b)}
		case 3: // mixed kinds
			vs := []cmpVal{boolVal(true), boolVal(false), {Text: strconv.QuoteToASCII("null"), Kind: "null"}, {Text: strconv.QuoteToASCII("np"), Kind: "null"}, strVal(genText(rt, 3)), strVal("1"), strVal("0"), strVal("")}
			a := genOperand(rt, "a")
			sa, ra := respell(rt, a)
			vs = append(vs, numVal(sa, ra), numVal("1", big.NewRat(1, 1)), numVal("0", new(big.Rat)))
			c = cmpCase{rapid.SampledFrom(vs).Draw(rt, "x"), rapid.SampledFrom(vs).Draw(rt, "y")}
		}
		key := c.A.text() + "\x00" + c.B.text()
		run.CountKey(key, cmpNontrivial(c), c.A.Kind+"/"+c.B.Kind)
		run.Sample(c.A.Kind+"/"+c.B.Kind, c.A.text()+"  vs  "+c.B.text())
		if msg := checkCmp(c); msg != "" {
			run.Pending("rand", "c05", c, msg)
			rt.Fatalf("%s", msg)
		}
	})
}
