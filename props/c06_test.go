package props

import (
	"context"
	"encoding/json"
	"fmt"
	"reflect"
	"strconv"
	"strings"
	"testing"
	"time"

	"github.com/aundis/formula"
	"github.com/ericlagergren/decimal"
	"pgregory.net/rapid"

	"verif/internal/h"
	"verif/internal/obs"
	"verif/internal/ref"
	"verif/internal/spec"
)

// C06 — one notion of truthiness drives every selection operator.

// tvLeaf describes a leaf value of the truthiness sub-language.
type tvLeaf struct {
	Truthy bool
	Kind   string // null | bool | number | string | other
}

// truthLeaves: formula text -> meaning. Names refer to truthData().
var truthLeaves = map[string]tvLeaf{
	"null": {false, "null"}, "np": {false, "nilptr"}, "nn": {false, "null"}, "undefinedName": {false, "null"},
	"true": {true, "bool"}, "false": {false, "bool"},
	"0": {false, "number"}, "(0*-1)": {false, "number"}, "0.0": {false, "number"}, "0e3": {false, "number"}, "fnan2": {false, "number"},
	"finf": {true, "number"}, "fninf": {true, "number"}, "1": {true, "number"}, "(-1)": {true, "number"}, "0.5": {true, "number"}, ".5": {true, "number"}, ".0": {false, "number"}, "1.50": {true, "number"}, "1e-30": {true, "number"}, "izero": {false, "number"}, "fzero": {false, "number"}, "fnan": {false, "number"},
	// magnitudes no binary float holds: non-zero is truthy however small, zero is falsy however it is scaled
	"1e-400": {true, "number"}, "1e-324": {true, "number"}, "3E-5000": {true, "number"}, "1e400": {true, "number"}, "0e-400": {false, "number"}, "0.000e+999": {false, "number"},
	"''": {false, "string"}, "es": {false, "string"}, "'0'": {true, "string"}, "' '": {true, "string"}, "'a'": {true, "string"}, "'false'": {true, "string"}, "'x'": {true, "string"},
	"this.izero": {false, "number"}, "this.es": {false, "string"}, "this.m": {true, "other"},
	"[]": {true, "other"}, "[0]": {true, "other"}, "[1]": {true, "other"}, "m": {true, "other"}, "em": {true, "other"}, "st": {true, "other"}, "t": {true, "other"}, "len": {true, "other"}, "fn0": {true, "other"}, "earr": {true, "other"}, "t2": {true, "other"}, "t0": {true, "other"},
}

func truthSpec() map[string]spec.V {
	return map[string]spec.V{
		"np": {K: "nilptr"}, "nn": {K: "nil"}, "es": {K: "string", S: ""}, "izero": {K: "int", S: "0"}, "fzero": {K: "float64", S: "0"}, "fnan": {K: "float64", S: "NaN"}, "fnan2": {K: "float64", S: "NaN"}, "finf": {K: "float64", S: "+Inf"}, "fninf": {K: "float64", S: "-Inf"},
		"m":    {K: "map", M: map[string]spec.V{"a": {K: "int", S: "1"}}},
		"em":   {K: "map", M: map[string]spec.V{}},
		"earr": {K: "slice"},
		"st":   {K: "struct", M: map[string]spec.V{"Name": {K: "string", S: "Ann"}}},
		"t":    {K: "time", S: "2024-02-29T12:34:56Z"},
		"t2":   {K: "time", S: "1999-12-31T23:59:59Z", Z: "Asia/Shanghai"},
		"t0":   {K: "time", S: "0001-01-01T00:00:00Z"}, // Go's zero time.Time: a time like any other
		"fn0":  {K: "func", F: &spec.Fn{Name: "fn0", Ret: "int", RetS: "7"}},
		"rec":  {K: "func", F: &spec.Fn{Name: "rec", Params: []string{"int"}, Ret: "nil"}},
	}
}

// mval is a model value: a leaf (by its text) or a computed boolean.
type mval struct {
	Leaf   string
	IsBool bool
	B      bool
}

// truthFlipped selects the second data set, in which every data NAME holds a value of the opposite truthiness
// (literals keep their meaning). It is what lets one parsed tree be evaluated with different data.
var truthFlipped bool

var flippedLeaves = map[string]tvLeaf{
	"np": {true, "other"}, "nn": {true, "string"}, "izero": {true, "number"}, "fzero": {true, "number"}, "fnan": {true, "number"}, "fnan2": {true, "number"},
	"finf": {false, "number"}, "fninf": {false, "number"}, "es": {true, "string"},
	"m": {false, "null"}, "em": {false, "null"}, "st": {false, "null"}, "t": {false, "null"}, "t2": {false, "null"}, "t0": {false, "null"}, "fn0": {false, "null"}, "earr": {false, "string"},
	"this.izero": {true, "number"}, "this.es": {true, "string"}, "this.m": {false, "null"},
}

func (v mval) meaning() tvLeaf {
	if v.IsBool {
		return tvLeaf{v.B, "bool"}
	}
	if truthFlipped {
		if m, ok := flippedLeaves[v.Leaf]; ok {
			return m
		}
	}
	return truthLeaves[v.Leaf]
}

func truthSpecFlipped() map[string]spec.V {
	s := truthSpec()
	one := 1
	_ = one
	s["np"] = spec.V{K: "pstruct", M: map[string]spec.V{"Name": {K: "string", S: "p"}}}
	s["nn"] = spec.V{K: "string", S: "x"}
	s["izero"] = spec.V{K: "int", S: "7"}
	s["fzero"] = spec.V{K: "float64", S: "2.5"}
	s["fnan"] = spec.V{K: "float64", S: "1.5"}
	s["fnan2"] = spec.V{K: "float64", S: "-3"}
	s["finf"] = spec.V{K: "float64", S: "0"}
	s["fninf"] = spec.V{K: "int", S: "0"}
	s["es"] = spec.V{K: "string", S: "s"}
	for _, k := range []string{"m", "em", "st", "t", "t2", "t0", "fn0"} {
		s[k] = spec.V{K: "nil"}
	}
	s["earr"] = spec.V{K: "string", S: ""}
	return s
}

type truthModel struct {
	trace  []int
	store  map[string]mval
	unspec bool
}

func leafText(n *ref.Node) string {
	switch n.Kind {
	case "id":
		return n.Val
	case "kw":
		return n.Op
	}
	return n.Src
}

// eval is the reference semantics of the six operators (plus ',', '$v = e',
// 'rec(i)' markers and parentheses).
func (m *truthModel) eval(n *ref.Node) mval {
	switch n.Kind {
	case "paren":
		return m.eval(n.Kids[0])
	case "id":
		if strings.HasPrefix(n.Val, "$") {
			if v, ok := m.store[n.Val]; ok {
				return v
			}
			return mval{Leaf: "null"}
		}
		return mval{Leaf: n.Val}
	case "kw", "num", "str", "arr":
		return mval{Leaf: leafText(n)}
	case "call": // rec(i)
		i, _ := strconv.Atoi(n.Kids[1].Val)
		m.trace = append(m.trace, i)
		return mval{Leaf: "null"}
	case "pre":
		x := m.eval(n.Kids[0])
		mean := x.meaning()
		if n.Op == "!!" {
			return mval{IsBool: true, B: mean.Truthy}
		}
		if mean.Kind != "bool" && mean.Kind != "number" && mean.Kind != "null" {
			m.unspec = true
		}
		return mval{IsBool: true, B: !mean.Truthy}
	case "cond":
		if m.eval(n.Kids[0]).meaning().Truthy {
			return m.eval(n.Kids[1])
		}
		return m.eval(n.Kids[2])
	case "bin":
		switch n.Op {
		case ",":
			m.eval(n.Kids[0])
			return m.eval(n.Kids[1])
		case "=":
			v := m.eval(n.Kids[1])
			m.store[n.Kids[0].Val] = v
			return v
		}
		a := m.eval(n.Kids[0])
		// the right operand is pure by construction; whether it is evaluated is not claimed
		saveTrace, saveStore := len(m.trace), len(m.store)
		b := m.eval(n.Kids[1])
		if len(m.trace) != saveTrace || len(m.store) != saveStore {
			m.unspec = true
		}
		switch n.Op {
		case "&&":
			if !a.meaning().Truthy {
				return a
			}
			return b
		case "||":
			if a.meaning().Truthy {
				return a
			}
			return b
		case "??":
			// a typed nil pointer is null (C16: "typed nil pointers are null ... and equal to null"): `np === null`
			// is true, so `np ?? b` yields b like any other null
			if k := a.meaning().Kind; k == "null" || k == "nilptr" {
				return b
			}
			return a
		}
	}
	m.unspec = true
	return mval{Leaf: "null"}
}

type truthCase struct {
	Tree *ref.Node `json:"tree"`
}

// sameUnchanged: got is the selected operand's value, unchanged.
func sameUnchanged(got, want interface{}) bool {
	switch w := want.(type) {
	case nil:
		return obsIsNull(got)
	case *decimal.Big:
		g, ok := got.(*decimal.Big)
		if !ok {
			return false
		}
		if w.IsNaN(0) || g.IsNaN(0) {
			return w.IsNaN(0) && g.IsNaN(0)
		}
		return g.String() == w.String()
	case string, bool:
		return got == want
	}
	if obsIsNull(want) {
		return obsIsNull(got)
	}
	wv, gv := reflect.ValueOf(want), reflect.ValueOf(got)
	if !gv.IsValid() || wv.Type() != gv.Type() {
		return false
	}
	switch wv.Kind() {
	case reflect.Map, reflect.Func, reflect.Ptr:
		return wv.Pointer() == gv.Pointer()
	case reflect.Slice:
		return reflect.DeepEqual(normalizeDeep(got), normalizeDeep(want))
	}
	return reflect.DeepEqual(got, want)
}

func obsIsNull(v interface{}) bool {
	if v == nil {
		return true
	}
	rv := reflect.ValueOf(v)
	return rv.Kind() == reflect.Ptr && rv.IsNil()
}

// normalizeDeep replaces decimals by their strings so that DeepEqual compares values.
func normalizeDeep(v interface{}) interface{} {
	switch x := v.(type) {
	case *decimal.Big:
		if x == nil {
			return nil
		}
		return "dec:" + x.String()
	case []interface{}:
		out := make([]interface{}, len(x))
		for i, e := range x {
			out[i] = normalizeDeep(e)
		}
		return out
	}
	return v
}

func checkTruth(c truthCase) (msg string, unspec bool) {
	text := c.Tree.Text()
	p := obs.Parse([]byte("[" + text + "]"))
	if !p.OK() {
		return fmt.Sprintf("HARNESS: %q does not parse: %v", text, p.Err), false
	}
	// the SAME parsed tree is evaluated with the first data set, with the flipped one, and with the first again
	for round, flipped := range []bool{false, true, false} {
		m, u := checkTruthOnce(c, p.Src.Expression, text, flipped)
		if u {
			return "", round == 0
		}
		if m != "" {
			if round > 0 {
				m = fmt.Sprintf("(evaluation %d of the same parsed tree, data set flipped=%v) %s", round+1, flipped, m)
			}
			return m, false
		}
	}
	// the same program without optional spaces (`c?.5:x`, `a||!b`): spacing is not part of the meaning
	if compact := c.Tree.Compact(); compact != text {
		q := obs.Parse([]byte("[" + compact + "]"))
		if !q.OK() {
			return fmt.Sprintf("%q is accepted but the same tokens without optional spaces, %q, are rejected: %v", text, compact, q.Err), false
		}
		if m, u := checkTruthOnce(c, q.Src.Expression, compact, false); !u && m != "" {
			return "(compact spelling) " + m, false
		}
	}
	return "", false
}

func checkTruthOnce(c truthCase, expr formula.Expression, text string, flipped bool) (msg string, unspec bool) {
	truthFlipped = flipped
	defer func() { truthFlipped = false }()
	model := &truthModel{store: map[string]mval{}}
	want := model.eval(c.Tree)
	if model.unspec {
		return "", true
	}
	rec := &spec.Recorder{}
	sp := truthSpec()
	if flipped {
		sp = truthSpecFlipped()
	}
	data := spec.BuildMap(sp, rec)
	p := struct {
		Src struct{ Expression formula.Expression }
	}{}
	p.Src.Expression = expr
	r := formula.NewRunner()
	r.SetThis(data)
	out := obs.Eval(r, context.Background(), p.Src.Expression)
	arr, ok := out.Val.([]interface{})
	if out.Panic != nil || out.Err != nil || !ok || len(arr) != 1 {
		return fmt.Sprintf("[%s] -> %s", text, out), false
	}
	got := arr[0]
	if want.IsBool {
		if b, ok := got.(bool); !ok || b != want.B {
			return fmt.Sprintf("%s = %s, want %v", text, obs.Show(got), want.B), false
		}
	} else {
		// the selected operand evaluated on its own, in a fresh runner with the same data objects
		wout := evalLeafAlone(want.Leaf, data)
		if wout.Panic != nil || wout.Err != nil {
			return fmt.Sprintf("HARNESS: leaf %s alone -> %s", want.Leaf, wout), false
		}
		wv := wout.Val.([]interface{})[0]
		if !sameUnchanged(got, wv) {
			return fmt.Sprintf("%s = %s (%T), want the selected operand %s unchanged = %s (%T)", text, obs.Show(got), got, want.Leaf, obs.Show(wv), wv), false
		}
	}
	// only the selected branches ran
	var trace []int
	for _, cl := range rec.Calls {
		if len(cl.Args) == 1 {
			if i, ok := cl.Args[0].(int); ok {
				trace = append(trace, i)
			}
		}
	}
	if fmt.Sprint(trace) != fmt.Sprint(model.trace) {
		return fmt.Sprintf("%s: recorded branch markers %v, want %v (only the selected branch of ?: may run)", text, trace, model.trace), false
	}
	// locals assigned only in unselected branches stay unset
	for _, name := range []string{"$p", "$q"} {
		_, set := data[name]
		_, wantSet := model.store[name]
		if set != wantSet {
			return fmt.Sprintf("%s: local %s set=%v, want set=%v", text, name, set, wantSet), false
		}
	}
	return "", false
}

func evalLeafAlone(leaf string, data map[string]interface{}) obs.EvalOut {
	p := obs.Parse([]byte("[" + leaf + "]"))
	r := formula.NewRunner()
	// a copy of the map (same objects) so that locals of the case do not leak in
	cp := map[string]interface{}{}
	for k, v := range data {
		if !strings.HasPrefix(k, "$") {
			cp[k] = v
		}
	}
	r.SetThis(cp)
	return obs.Eval(r, context.Background(), p.Src.Expression)
}

func init() {
	h.RegisterReplay("c06", func(raw json.RawMessage) string {
		c, err := h.Decode[truthCase](raw)
		if err != nil {
			return "bad replay: " + err.Error()
		}
		m, _ := checkTruth(c)
		return m
	})
}

// checkComputed: whatever the expression e evaluates to, the six ways of asking
// for its truthiness agree with each other and with the table of the statement.
func checkComputed(e string) (msg string, skipped bool) {
	data := spec.BuildMap(truthSpec(), &spec.Recorder{})
	v := obs.EvalText(e, data)
	if v.Panic != nil {
		return fmt.Sprintf("%s -> %s", e, v), false
	}
	if v.Err != nil {
		return "", true // not a value: nothing to ask
	}
	out := obs.EvalText("[!!("+e+"), !("+e+"), ("+e+") ? 'T' : 'F', [("+e+") && 'rhs'], [("+e+") || 'rhs'], [("+e+")]]", data)
	arr, ok := out.Val.([]interface{})
	if out.Panic != nil || out.Err != nil || !ok || len(arr) != 6 {
		if _, isNumOrBoolOrNull := v.Val.(float64); out.Err != nil && !isNumOrBoolOrNull && v.Val != nil {
			if _, isBool := v.Val.(bool); !isBool {
				return "", true // `!x` is only promised for booleans, numbers and null
			}
		}
		return fmt.Sprintf("%s evaluates to %s, but [!!e, !e, e ? 'T' : 'F', [e && 'rhs'], [e || 'rhs'], [e]] -> %s", e, v, out), false
	}
	// the value itself, as it travels inside the formula (seen as the element of [e]; a top-level result would
	// already have been rounded to float64)
	var want, known bool
	if el, ok := arr[5].([]interface{}); ok && len(el) == 1 {
		switch x := el[0].(type) {
		case nil:
			want, known = false, true
		case bool:
			want, known = x, true
		case string:
			want, known = x != "", true
		case *decimal.Big:
			want, known = x != nil && !x.IsNaN(0) && x.Sign() != 0, x != nil
		case float64:
			want, known = !(x == 0 || x != x), true
		case []interface{}, map[string]interface{}, time.Time:
			want, known = true, true
		}
	}
	t, isBool := arr[0].(bool)
	if !isBool {
		return fmt.Sprintf("!!(%s) = %s, not a boolean", e, obs.Show(arr[0])), false
	}
	if known && t != want {
		return fmt.Sprintf("[%s] evaluates to %s, so the value is %s, but !!(%s) = %v", e, obs.Show(arr[5]), map[bool]string{true: "truthy", false: "falsy"}[want], e, t), false
	}
	if n, ok := arr[1].(bool); !ok || n != !t {
		return fmt.Sprintf("!!(%s) = %v but !(%s) = %s", e, t, e, obs.Show(arr[1])), false
	}
	if c, _ := arr[2].(string); c != map[bool]string{true: "T", false: "F"}[t] {
		return fmt.Sprintf("!!(%s) = %v but (%s) ? 'T' : 'F' = %s", e, t, e, obs.Show(arr[2])), false
	}
	self := obs.Show(arr[5])
	and, or := obs.Show(arr[3]), obs.Show(arr[4])
	wantAnd, wantOr := self, `["rhs"]`
	if t {
		wantAnd, wantOr = `["rhs"]`, self
	}
	if and != wantAnd && and != strings.ReplaceAll(wantAnd, `"rhs"`, `rhs`) {
		return fmt.Sprintf("!!(%s) = %v but [(%s) && 'rhs'] = %s (the expression itself: %s)", e, t, e, and, self), false
	}
	if or != wantOr && or != strings.ReplaceAll(wantOr, `"rhs"`, `rhs`) {
		return fmt.Sprintf("!!(%s) = %v but [(%s) || 'rhs'] = %s (the expression itself: %s)", e, t, e, or, self), false
	}
	return "", false
}

// TestC06Computed: conditions that are computed inside the formula.
func TestC06Computed(t *testing.T) {
	operands := []string{"'abc'", "''", "'0'", "'12'", "' '", "m", "[1]", "[]", "null", "true", "false", "t", "0", "1.50", "fnan", "finf", "izero", "es", "nn", "np", "st", "m.a", "m.zz", "undefinedName"}
	var exprs []string
	for _, a := range operands {
		for _, op := range []string{"+", "-", "~", "typeof "} {
			exprs = append(exprs, op+a, "("+op+a+")", op+"("+op+a+")")
		}
		for _, b := range []string{"1", "0", "''", "'x'", "null"} {
			for _, op := range []string{"+", "-", "*", "/", "%", "&", "|", "^", "??", "&&", "||", "==", "<"} {
				exprs = append(exprs, a+" "+op+" "+b, b+" "+op+" "+a)
			}
		}
		exprs = append(exprs, "toFloat("+a+")", "toInt("+a+")", "toString("+a+")", "len("+a+")", "abs("+a+")", "finite("+a+")", "trim("+a+")", "["+a+"][0]", "($c = "+a+", $c)", "fn0() ? "+a+" : 0")
	}
	exprs = append(exprs, "0 / 0", "1 / 0", "0 - 1 / 0", "0 * -1", "1 - 1", "0.1 + 0.2 - 0.3", "'' + ''", "left('abc', 0)", "sqrt(0 - 1)", "ln(0)", "exp(1000)", "1e400", "1e-400", "round(0.4)", "round(0 - 0.4)", "floor(0.5)", "max(0)", "min(0, 1)", "find('a', 'b') + 1", "date(2024, 1, 1)", "now()", "join([], ',')", "lower('')", "mid('abc', 1, 1)")
	run := h.Begin("C06", "computed", fmt.Sprintf("bounded-exhaustive: %d conditions computed inside the formula (every unary operator, 13 binary operators and 10 builtins applied to %d operand values of every kind, plus divisions by zero, overflowing literals, empty results of string builtins, ...); whatever value e the condition yields (cases whose evaluation is an error are skipped and counted), !!e, !e, e ? 'T' : 'F', e && 'rhs' and e || 'rhs' must agree with each other, and with the statement's table when e leaves as null, a boolean, a string or a number (NaN and zero falsy); every case non-trivial", len(exprs), len(operands)))
	defer run.End(t)
	for i, e := range exprs {
		if !h.Mine(int64(i)) || run.NViolations() >= 3 {
			continue
		}
		msg, skipped := checkComputed(e)
		if skipped {
			run.Class("error-or-unspecified-skipped")
			continue
		}
		run.CountKey(e, true, "computed")
		if i%97 == 0 {
			run.Sample("computed", e)
		}
		if msg != "" {
			run.Fail("c06-computed", e, msg)
		}
	}
	run.Exhaustive()
}

func init() {
	h.RegisterReplay("c06-computed", func(raw json.RawMessage) string {
		e, err := h.Decode[string](raw)
		if err != nil {
			return "bad replay: " + err.Error()
		}
		m, _ := checkComputed(e)
		return m
	})
}

// checkUnselected: f is a conditional whose unselected branch(es) would fail if
// evaluated; it must evaluate, without error, to what `good` alone evaluates to.
func checkUnselected(f, good string) string {
	mk := func() map[string]interface{} {
		sp := truthSpec()
		sp["boom"] = spec.V{K: "func", F: &spec.Fn{Name: "boom", Ret: "nil", Err: "boom"}}
		return spec.BuildMap(sp, &spec.Recorder{})
	}
	data := mk()
	want := obs.EvalText(good, data)
	got := obs.EvalText(f, data)
	if got.Panic != nil || got.Err != nil {
		return fmt.Sprintf("%s -> %s: only the selected branch (%s) is to be evaluated, the other one must not decide the outcome", f, got, good)
	}
	if got.String() != want.String() {
		return fmt.Sprintf("%s = %s, want the selected branch %s = %s", f, got, good, want)
	}
	return ""
}

// TestC06Unselected: the branch that is not selected is not evaluated - even
// when evaluating it would be an error.
func TestC06Unselected(t *testing.T) {
	bombs := []string{"missing()", "missing(1, 2)", "boom()", "null!.k", "nn!.k", "(1)()", "left('a', 0 - 1)", "m.zz.k()", "x = 1", "[missing()]", "rec(missing())", "missing() + 1"}
	goods := []string{"1.50", "'x'", "m", "null", "t0"}
	run := h.Begin("C06", "unselected", fmt.Sprintf("bounded-exhaustive: c ? a : b for every condition value of the exhaustive part x %d branches whose evaluation is an error (a call of an undefined name, a host function returning an error, '!.' on null, a call of a number, an assignment to a field, ...) placed in the position the condition does not select x %d harmless values in the selected one, plain and nested twice; oracle: no error, and the result equals the selected branch evaluated alone; every case non-trivial", len(bombs), len(goods)))
	defer run.End(t)
	var idx int64
	for _, cnd := range sortedLeaves() {
		truthy := truthLeaves[cnd].Truthy
		for _, b := range bombs {
			for _, g := range goods {
				var forms []string
				if truthy {
					forms = []string{cnd + " ? " + g + " : " + b, cnd + " ? (" + cnd + " ? " + g + " : " + b + ") : " + b, "[" + cnd + " ? " + g + " : (" + b + ")]"}
				} else {
					forms = []string{cnd + " ? " + b + " : " + g, cnd + " ? " + b + " : (" + cnd + " ? " + b + " : " + g + ")", "[" + cnd + " ? (" + b + ") : " + g + "]"}
				}
				for k, f := range forms {
					idx++
					if !h.Mine(idx) || run.NViolations() >= 3 {
						continue
					}
					want := g
					if k == 2 {
						want = "[" + g + "]"
					}
					run.Count(true, "?:")
					if idx%331 == 0 {
						run.Sample("unselected", f)
					}
					if msg := checkUnselected(f, want); msg != "" {
						run.Fail("c06-unsel", [2]string{f, want}, msg)
					}
				}
			}
		}
	}
	run.Exhaustive()
}

func init() {
	h.RegisterReplay("c06-unsel", func(raw json.RawMessage) string {
		c, err := h.Decode[[2]string](raw)
		if err != nil {
			return "bad replay: " + err.Error()
		}
		return checkUnselected(c[0], c[1])
	})
}

func tleaf(text string) *ref.Node {
	switch {
	case text == "null" || text == "true" || text == "false":
		return &ref.Node{Kind: "kw", Op: text}
	case strings.HasPrefix(text, "'"):
		return &ref.Node{Kind: "str", Val: strings.Trim(text, "'"), Src: text}
	case text[0] == '[' || text[0] == '(' || text[0] >= '0' && text[0] <= '9':
		// composite spellings are kept verbatim as an opaque literal
		return &ref.Node{Kind: "num", Val: text, Src: text}
	}
	return &ref.Node{Kind: "id", Val: text}
}

func sortedLeaves() []string {
	var out []string
	for k := range truthLeaves {
		out = append(out, k)
	}
	sortStrings(out)
	return out
}

var truthBranches = []string{"1.50", "'x'", "[1]", "null", "m", "0", "''", "false", "true", "'0'", "(0*-1)", "fnan", "finf", "t", "t2", "st", "fn0", "earr", "np"}

// TestC06Exhaustive: each operator x all condition values x a block of branch values.
func TestC06Exhaustive(t *testing.T) {
	leaves := sortedLeaves()
	run := h.Begin("C06", "exhaustive", fmt.Sprintf("bounded-exhaustive: !!c and !c for each of %d condition values (null in four guises, booleans, numbers incl. 0, -0, 0.0 and Go zero / NaN / +-Inf data values (non-finite numbers enter through the data map: what division by zero yields is left open), strings incl. '' and '0', arrays, maps, struct, time, builtin and host functions); c ? a : b, c && b, c || b, c ?? b for every condition x a %dx%d block of branch values whose representation is visible (1.50, 'x', [1], null, a map, 0, '', false, -0, NaN); oracle: the truthiness table of the statement and 'the selected operand's value unchanged' (numbers by representation, maps by identity); non-trivial: the condition is not a boolean literal", len(leaves), len(truthBranches), len(truthBranches)))
	defer run.End(t)
	var idx int64
	try := func(tree *ref.Node, nt bool, cls string) {
		idx++
		if !h.Mine(idx) || run.NViolations() >= 3 {
			return
		}
		c := truthCase{Tree: tree}
		msg, unspec := checkTruth(c)
		if unspec {
			run.Class("unspecified-skipped")
			return
		}
		run.Count(nt, cls)
		if idx%257 == 0 {
			run.Sample(cls, tree.Text())
		}
		if msg != "" {
			run.Fail("c06", c, msg)
		}
	}
	for _, cnd := range leaves {
		nt := cnd != "true" && cnd != "false"
		try(&ref.Node{Kind: "pre", Op: "!!", Kids: []*ref.Node{tleaf(cnd)}}, nt, "!!")
		try(&ref.Node{Kind: "pre", Op: "!", Kids: []*ref.Node{tleaf(cnd)}}, nt, "!")
		for _, a := range truthBranches {
			for _, op := range []string{"&&", "||", "??"} {
				try(&ref.Node{Kind: "bin", Op: op, Kids: []*ref.Node{tleaf(cnd), tleaf(a)}}, nt, op)
			}
			for _, b := range truthBranches {
				try(&ref.Node{Kind: "cond", Kids: []*ref.Node{tleaf(cnd), tleaf(a), tleaf(b)}}, nt, "?:")
			}
		}
	}
	run.Exhaustive()
}

// genTruth generates a nested expression; pure=true forbids side effects
// (markers, assignments), as required under the right operand of && || ??.
func genTruth(t *rapid.T, depth int, pure bool, marker *int) *ref.Node {
	leaves := sortedLeaves()
	if depth <= 0 {
		if !pure && rapid.IntRange(0, 3).Draw(t, "loc") == 0 {
			return &ref.Node{Kind: "id", Val: rapid.SampledFrom([]string{"$p", "$q"}).Draw(t, "lname")}
		}
		return tleaf(rapid.SampledFrom(leaves).Draw(t, "leaf"))
	}
	// sub-expressions are parenthesised only where the grammar level requires it (or at random), so that
	// un-parenthesised nestings such as a ? b : c ? d : e and a || b && c are exercised as written
	subAt := func(p bool, level int) *ref.Node {
		n := genTruth(t, depth-1, p, marker)
		if rapid.IntRange(0, 3).Draw(t, "extraparen") == 0 {
			return paren(n)
		}
		return atLevel(n, level)
	}
	sub := func(p bool) *ref.Node { return paren(genTruth(t, depth-1, p, marker)) }
	switch rapid.IntRange(0, 8).Draw(t, "kind") {
	case 0:
		return &ref.Node{Kind: "pre", Op: "!!", Kids: []*ref.Node{subAt(pure, ref.LvUnary)}}
	case 1:
		return &ref.Node{Kind: "pre", Op: "!", Kids: []*ref.Node{{Kind: "pre", Op: "!!", Kids: []*ref.Node{subAt(pure, ref.LvUnary)}}}}
	case 2, 3:
		return &ref.Node{Kind: "cond", Kids: []*ref.Node{subAt(pure, 2), subAt(pure, ref.LvAssign), subAt(pure, ref.LvAssign)}}
	case 4:
		return &ref.Node{Kind: "bin", Op: "&&", Kids: []*ref.Node{subAt(pure, 3), subAt(true, 4)}}
	case 5:
		return &ref.Node{Kind: "bin", Op: "||", Kids: []*ref.Node{subAt(pure, 2), subAt(true, 3)}}
	case 6:
		return &ref.Node{Kind: "bin", Op: "??", Kids: []*ref.Node{subAt(pure, 2), subAt(true, 3)}}
	case 7:
		if pure {
			return sub(true)
		}
		*marker++
		mk := &ref.Node{Kind: "call", Kids: []*ref.Node{{Kind: "id", Val: "rec"}, {Kind: "num", Val: strconv.Itoa(*marker), Src: strconv.Itoa(*marker)}}}
		return paren(&ref.Node{Kind: "bin", Op: ",", Kids: []*ref.Node{mk, sub(false)}})
	default:
		if pure {
			return sub(true)
		}
		name := rapid.SampledFrom([]string{"$p", "$q"}).Draw(t, "aname")
		return paren(&ref.Node{Kind: "bin", Op: "=", Kids: []*ref.Node{{Kind: "id", Val: name}, sub(false)}})
	}
}

// TestC06Nested: random nested expressions with branch side effects.
func TestC06Nested(t *testing.T) {
	run := h.Begin("C06", "nested", "rapid: nested expressions of depth 1-4 mixing the six operators, with recording host calls 'rec(i)' and local assignments '$p = ..' placed in conditions and ?:-branches (never under the right operand of && || ??, whose evaluation the statement leaves open); oracle: a store-passing reference evaluation (result = selected leaf unchanged or the computed boolean; ordered trace of markers; which locals are set); non-trivial: nesting depth >= 2; distinct by text")
	defer run.End(t)
	h.RapidSetup(h.N(6000, 3000000), "c06nested")
	rapid.Check(t, func(rt *rapid.T) {
		marker := 0
		depth := rapid.IntRange(1, 4).Draw(rt, "depth")
		tree := genTruth(rt, depth, false, &marker)
		c := truthCase{Tree: tree}
		text := tree.Text()
		msg, unspec := checkTruth(c)
		if unspec {
			run.Class("unspecified-skipped")
			return
		}
		run.CountKey(text, depth >= 2, fmt.Sprintf("depth%d", depth))
		run.Sample(fmt.Sprintf("depth%d", depth), text)
		if msg != "" {
			run.Pending("nested", "c06", c, msg)
			rt.Fatalf("%s", msg)
		}
	})
}

// aliasCase: a selection whose selected operand is a shared number that another
// operand of the same formula feeds to an operator or builtin.
type aliasCase struct {
	Sel  string `json:"sel"`  // selection form with X for the shared number and U for the expression that uses it
	Use  string `json:"use"`  // U with X for the shared number
	Kind string `json:"kind"` // how the shared number is held: local | dec | int | float
	Val  string `json:"val"`  // its value
}

func (c aliasCase) text() string {
	x := map[string]string{"local": "$x", "dec": "dec", "int": "iv", "float": "fv"}[c.Kind]
	f := strings.ReplaceAll(strings.ReplaceAll(c.Sel, "U", strings.ReplaceAll(c.Use, "X", x)), "X", x)
	f = "[" + f + ", " + x + "]"
	if c.Kind == "local" {
		f = "$x = " + c.Val + ", " + f
	}
	return f
}

func checkAlias(c aliasCase) string {
	want, ok := ref.RatOf(strings.TrimPrefix(c.Val, "-"))
	if !ok {
		return "HARNESS: bad value " + c.Val
	}
	if strings.HasPrefix(c.Val, "-") {
		want.Neg(want)
	}
	d := new(decimal.Big)
	d.SetString(c.Val)
	iv, _ := strconv.Atoi(c.Val)
	fv, _ := strconv.ParseFloat(c.Val, 64)
	data := map[string]interface{}{"dec": d, "iv": iv, "fv": fv}
	text := c.text()
	p := obs.Parse([]byte(text))
	if !p.OK() {
		return fmt.Sprintf("HARNESS: %q does not parse: %v", text, p.Err)
	}
	for round := 1; round <= 2; round++ { // the second evaluation sees what the first left in the caller's data
		r := formula.NewRunner()
		r.SetThis(data)
		out := obs.Eval(r, context.Background(), p.Src.Expression)
		arr, isArr := out.Val.([]interface{})
		if out.Panic != nil || out.Err != nil || !isArr || len(arr) != 2 {
			return fmt.Sprintf("%s -> %s", text, out)
		}
		for i, what := range []string{"the selected operand", "the shared number afterwards"} {
			if g, isNum := obs.Rat(arr[i]); !isNum || g.Cmp(want) != 0 {
				return fmt.Sprintf("%s (evaluation %d over the same data) = %s: %s is %s, want %s unchanged", text, round, out, what, obs.Show(arr[i]), c.Val)
			}
		}
		delete(data, "$x")
	}
	if g, _ := obs.Rat(data["dec"]); g == nil || g.Cmp(want) != 0 && c.Kind == "dec" {
		return fmt.Sprintf("%s changed the caller's number dec to %s", text, obs.Show(data["dec"]))
	}
	return ""
}

func init() {
	h.RegisterReplay("c06-alias", func(raw json.RawMessage) string {
		c, err := h.Decode[aliasCase](raw)
		if err != nil {
			return "bad replay: " + err.Error()
		}
		return checkAlias(c)
	})
}

// TestC06Aliasing: "hands back the selected operand unchanged" - also when the
// other operand computes with the very same number.
func TestC06Aliasing(t *testing.T) {
	sels := []string{"X || U", "X ?? U", "(U, true) && X", "[U] && X", "(U, X)", "true ? X : U", "false ? U : X", "U ? X : X", "(X || 0) ?? U", "[U, X][0] ?? X"}
	uses := []string{"-X", "-(X ?? 0)", "-(X || 0)", "-(true ? X : 0)", "-max(X, X)", "-(0, X)", "+X", "~X", "!X", "!!X", "X + 1", "X * 2", "0 - X", "abs(X)", "round(X)", "floor(X)", "toInt(X)", "finite(X)", "toFloat(X)", "min(X, 1000)", "-($y = X)", "-toFloat(X)", "-finite(X)"}
	run := h.Begin("C06", "aliasing", fmt.Sprintf("bounded-exhaustive: %d selection forms (||, ??, &&, comma, ?: either way) x %d expressions that compute with the same number as the selected operand (unary minus directly and through pass-through forms, ~, !, arithmetic, the numeric builtins) x the number held as a local, a caller's *decimal.Big, int and float64 x 4 values, each evaluated twice over the same data; oracle: the selected operand and the shared number read back afterwards are the original value, the caller's number is untouched; every case non-trivial", len(sels), len(uses)))
	defer run.End(t)
	var idx int64
	for _, sel := range sels {
		if sel == "[U, X][0] ?? X" {
			continue // no index syntax in this language
		}
		for _, use := range uses {
			for _, kind := range []string{"local", "dec", "int", "float"} {
				for _, val := range []string{"3", "-7", "12", "1"} {
					idx++
					if !h.Mine(idx) || run.NViolations() >= 3 {
						continue
					}
					c := aliasCase{Sel: sel, Use: use, Kind: kind, Val: val}
					run.Count(true, kind)
					if idx%211 == 0 {
						run.Sample(kind, c.text())
					}
					if msg := checkAlias(c); msg != "" {
						run.Fail("c06-alias", c, msg)
					}
				}
			}
		}
	}
	run.Exhaustive()
}

// TestC06NoMap: the selected operand is evaluated like any other expression -
// also when it binds a local and the runner has no data map yet.
func TestC06NoMap(t *testing.T) {
	type nm struct {
		f    []string // formulas evaluated one after the other on one runner
		want string   // the last result, as a number or string
	}
	var cases []nm
	for _, sel := range []struct{ form, val string }{
		{"(true ? ($x = 5) : ($x = 7))", "5"}, {"(false ? ($x = 5) : ($x = 7))", "7"}, {"(1 && ($x = 5))", "5"}, {"(0 || ($x = 5))", "5"}, {"(null ?? ($x = 5))", "5"},
		{"(true ? (false ? 0 : ($x = 5)) : 1)", "5"}, {"[true ? ($x = 5) : 0]", "5"}, {"('' || (0 || ($x = 5)))", "5"}, {"(1 ? ($x = 5) : 0) + 1", "5"},
	} {
		cases = append(cases,
			nm{[]string{sel.form + ", $x"}, sel.val},
			nm{[]string{sel.form, "$x"}, sel.val},
			nm{[]string{sel.form + ", [$x, this.$x]", "[this.$x, $x]"}, sel.val},
			nm{[]string{"missing ?? 0", sel.form, "$x + 0"}, sel.val})
	}
	run := h.Begin("C06", "no-map", fmt.Sprintf("enumerated: %d histories on a runner that never got a data map, in which the first binding of a local happens inside the operand a selection operator (?:, &&, ||, ??, nested, inside a list) selects, read back in the same formula and in the next; oracle: the local holds the bound value; every case non-trivial", len(cases)))
	defer run.End(t)
	for i, c := range cases {
		if !h.Mine(int64(i)) || run.NViolations() >= 3 {
			continue
		}
		run.Count(true, "")
		if i%7 == 0 {
			run.Sample("no-map", strings.Join(c.f, " ;; "))
		}
		if msg := checkNoMap(c.f, c.want); msg != "" {
			run.Fail("c06-nomap", append(append([]string{}, c.f...), c.want), msg)
		}
	}
	run.Exhaustive()
}

func checkNoMap(fs []string, want string) string {
	r := formula.NewRunner()
	var out obs.EvalOut
	for _, f := range fs {
		p := obs.Parse([]byte(f))
		if !p.OK() {
			return fmt.Sprintf("HARNESS: %q does not parse: %v", f, p.Err)
		}
		out = obs.Eval(r, context.Background(), p.Src.Expression)
		if out.Panic != nil || out.Err != nil {
			return fmt.Sprintf("%q of %q on a runner without a data map -> %s", f, fs, out)
		}
	}
	got := out.Val
	if arr, ok := got.([]interface{}); ok && len(arr) > 0 {
		got = arr[0]
	}
	w, _ := ref.RatOf(want)
	if g, ok := obs.Rat(got); !ok || g.Cmp(w) != 0 {
		return fmt.Sprintf("%q on a runner without a data map: the last formula gives %s, want %s (the value the selected operand bound)", fs, out, want)
	}
	return ""
}

func init() {
	h.RegisterReplay("c06-nomap", func(raw json.RawMessage) string {
		c, err := h.Decode[[]string](raw)
		if err != nil || len(c) < 2 {
			return "bad replay"
		}
		return checkNoMap(c[:len(c)-1], c[len(c)-1])
	})
}
