package props

import (
	"context"
	"encoding/json"
	"fmt"
	"strings"
	"testing"

	"github.com/aundis/formula"
	"pgregory.net/rapid"

	"verif/internal/h"
	"verif/internal/obs"
	"verif/internal/ref"
	"verif/internal/spec"
)

// C07 — locals bind and sequence left to right; caller data is never modified.

// progCase is a history of programs evaluated on one runner.
type progCase struct {
	Programs []*ref.Node `json:"programs"`
	NoMap    bool        `json:"nomap,omitempty"` // the runner never gets a data map: locals live in a map it creates itself
	Again    bool        `json:"again,omitempty"` // the caller hands its (same) map to SetThis again before every program after the first
}

func c07Spec() map[string]spec.V {
	return map[string]spec.V{
		"x":   {K: "int", S: "7"},
		"y":   {K: "string", S: "yy"},
		"m":   {K: "map", M: map[string]spec.V{"k": {K: "int", S: "3"}, "in": {K: "map", M: map[string]spec.V{"z": {K: "string", S: "deep"}}}}},
		"s":   {K: "slice", L: []spec.V{{K: "int", S: "1"}, {K: "string", S: "two"}}},
		"d":   {K: "dec", S: "12.50"},
		// locals the caller supplies: plain Go numbers under `$` keys are data like any other number
		"$p0": {K: "int", S: "11"},
		"rec": {K: "func", F: &spec.Fn{Name: "rec", Params: []string{"any"}, Variadic: true, Ret: "count"}},
		// the same recorder behind a signature with a fixed first parameter: recf(a, [b, c]...) spreads a list
		// that is evaluated after a
		"recf": {K: "func", F: &spec.Fn{Name: "rec", Params: []string{"any", "any"}, Variadic: true, Ret: "count"}},
	}
}

func c07ModelData() map[string]mv {
	return map[string]mv{
		"x": mvInt(7), "y": mvStr("yy"),
		"m": {K: "map", Ref: "m", M: map[string]mv{"k": mvInt(3), "in": {K: "map", Ref: "m.in", M: map[string]mv{"z": mvStr("deep")}}}},
		"s": {K: "ref", Ref: "s"}, "d": {K: "ref", Ref: "d"},
	}
}

func notLocal(k string) bool { return !strings.HasPrefix(k, "$") }

// checkProgs evaluates the history against the implementation and the model.
func checkProgs(c progCase) (msg string, unspec bool) {
	rec := &spec.Recorder{}
	data := spec.BuildMap(c07Spec(), rec)
	refs := map[string]interface{}{"m": data["m"], "m.in": data["m"].(map[string]interface{})["in"], "s": data["s"], "d": data["d"], "this": data, "rec": data["rec"], "recf": data["recf"]}
	env := &miniEnv{store: map[string]mv{"$p0": mvInt(11)}, data: c07ModelData()}
	r := formula.NewRunner()
	if c.NoMap {
		env.store = map[string]mv{}
		env.data = map[string]mv{}
		return checkProgsNoMap(c, r, env)
	}
	r.SetThis(data)
	for pi, prog := range c.Programs {
		if c.Again && pi > 0 {
			r.SetThis(data) // the same map, locals included: it carries them
		}
		text := prog.Text()
		p := obs.Parse([]byte(text))
		if !p.OK() {
			return fmt.Sprintf("HARNESS: program %q does not parse: %v", text, p.Err), false
		}
		before := obs.Snapshot(data, notLocal)
		traceBefore := len(env.trace)
		callsBefore := len(rec.Calls)
		want, wantErr := env.eval(prog)
		if env.unspec {
			return "", true
		}
		out := obs.Eval(r, context.Background(), p.Src.Expression)
		where := fmt.Sprintf("evaluation %d %q", pi+1, text)
		if out.Panic != nil {
			return fmt.Sprintf("%s panicked: %v", where, out.Panic), false
		}
		// frame condition: no non-$ entry added, removed or changed; nothing reachable mutated
		if after := obs.Snapshot(data, notLocal); after != before {
			return fmt.Sprintf("%s modified the caller's data:\nbefore: %s\nafter:  %s", where, before, after), false
		}
		if wantErr {
			if out.Err == nil {
				return fmt.Sprintf("%s = %s, want an error (assignment to something other than a bare $-name)", where, obs.Show(out.Val)), false
			}
			// after an error only the frame condition is asserted; stop the history here
			return "", false
		}
		if out.Err != nil {
			return fmt.Sprintf("%s failed: %v, want %s", where, out.Err, want), false
		}
		if !mvMatches(out.Val, want, refs, true) {
			return fmt.Sprintf("%s = %s, the reference evaluation gives %s", where, obs.Show(out.Val), want), false
		}
		// ordered trace of rec invocations (argument evaluation order, left to right)
		gotCalls := rec.Calls[callsBefore:]
		wantCalls := env.trace[traceBefore:]
		if len(gotCalls) != len(wantCalls) {
			return fmt.Sprintf("%s: rec was invoked %d times, want %d", where, len(gotCalls), len(wantCalls)), false
		}
		for i := range gotCalls {
			if len(gotCalls[i].Args) != len(wantCalls[i]) {
				return fmt.Sprintf("%s: rec call %d received %d arguments, want %d", where, i+1, len(gotCalls[i].Args), len(wantCalls[i])), false
			}
			for j := range wantCalls[i] {
				if !mvMatches(gotCalls[i].Args[j], wantCalls[i][j], refs, false) {
					return fmt.Sprintf("%s: rec call %d argument %d = %s, want %s", where, i+1, j+1, obs.Show(gotCalls[i].Args[j]), wantCalls[i][j]), false
				}
			}
		}
		// the $ entries of the caller's map are exactly the model's store
		for k, v := range data {
			if strings.HasPrefix(k, "$") {
				w, ok := env.store[k]
				if !ok {
					return fmt.Sprintf("%s: unexpected local %s = %s in the data map", where, k, obs.Show(v)), false
				}
				if !mvMatches(v, w, refs, false) {
					return fmt.Sprintf("%s: local %s = %s, want %s", where, k, obs.Show(v), w), false
				}
			}
		}
		for k, w := range env.store {
			if _, ok := data[k]; !ok {
				return fmt.Sprintf("%s: local %s = %s is missing from the data map", where, k, w), false
			}
		}
	}
	return "", false
}

func init() {
	h.RegisterReplay("c07", func(raw json.RawMessage) string {
		c, err := h.Decode[progCase](raw)
		if err != nil {
			return "bad replay: " + err.Error()
		}
		m, _ := checkProgs(c)
		return m
	})
	h.RegisterReplay("c07-frame", func(raw json.RawMessage) string {
		c, err := h.Decode[evalCase](raw)
		if err != nil {
			return "bad replay: " + err.Error()
		}
		return checkFrame(c)
	})
}

func idn(name string) *ref.Node { return &ref.Node{Kind: "id", Val: name} }
func num(i int) *ref.Node       { s := fmt.Sprint(i); return &ref.Node{Kind: "num", Val: s, Src: s} }
func bin(op string, a, b *ref.Node) *ref.Node {
	return &ref.Node{Kind: "bin", Op: op, Kids: []*ref.Node{a, b}}
}

// genProg generates a program of the C07 sub-language; intLike hints that an
// integer-valued expression is wanted.
func genProg(t *rapid.T, depth int, wantInt bool) *ref.Node {
	locals := []string{"$a", "$b", "$c", "$a", "$b", "$__v", "$_", "$\u7a0e\u7387", "$\u7a0e\u989d", "$a\u503c", "$\u00e9", "$p0", "$p0"}
	if depth <= 0 {
		switch rapid.IntRange(0, 5).Draw(t, "leaf") {
		case 0, 1:
			if rapid.IntRange(0, 7).Draw(t, "big?") == 0 {
				// locals keep every digit of what they were assigned
				return &ref.Node{Kind: "num", Val: rapid.SampledFrom([]string{"9007199254740993", "1234567890123456789", "4611686018427387905"}).Draw(t, "bign")}
			}
			return num(rapid.IntRange(0, 9).Draw(t, "n"))
		case 2:
			if wantInt {
				return idn("x")
			}
			return &ref.Node{Kind: "str", Val: rapid.SampledFrom([]string{"p", "q", "", "2024-01-02T03:04:05Z", "1e3", "null", "$a"}).Draw(t, "s")}
		case 3:
			if wantInt {
				return idn("x")
			}
			return idn(rapid.SampledFrom([]string{"x", "y", "m", "s", "d", "unknown"}).Draw(t, "dn"))
		default:
			return idn(rapid.SampledFrom(locals).Draw(t, "ln"))
		}
	}
	sub := func(i bool) *ref.Node { return genProg(t, depth-1, i) }
	switch rapid.IntRange(0, 11).Draw(t, "kind") {
	case 0, 1, 2: // assignment
		return paren(bin("=", idn(rapid.SampledFrom(locals).Draw(t, "tgt")), sub(wantInt)))
	case 3: // comma
		if !wantInt && rapid.IntRange(0, 2).Draw(t, "logical") == 0 {
			// a logical operator whose left operand may bind or record and whose right operand is a plain leaf:
			// the left operand is evaluated exactly once, whichever way the operator goes
			return paren(bin(rapid.SampledFrom([]string{"&&", "||", "??"}).Draw(t, "lop"), sub(false), genProg(t, 0, false)))
		}
		return paren(bin(",", sub(false), sub(wantInt)))
	case 4: // array
		n := rapid.IntRange(0, 3).Draw(t, "nel")
		arr := &ref.Node{Kind: "arr"}
		for i := 0; i < n; i++ {
			arr.Kids = append(arr.Kids, sub(false))
		}
		return arr
	case 5, 6: // rec call
		n := rapid.IntRange(0, 3).Draw(t, "nargs")
		call := &ref.Node{Kind: "call", Kids: []*ref.Node{idn("rec")}}
		for i := 0; i < n; i++ {
			call.Kids = append(call.Kids, sub(false))
		}
		if n == 1 && rapid.IntRange(0, 1).Draw(t, "spreadf") == 0 {
			// recf(a, ..., [b, c]...): the list is the last argument and is evaluated last
			call.Kids[0] = idn("recf")
			arr := &ref.Node{Kind: "arr"}
			for i := rapid.IntRange(0, 2).Draw(t, "nspreadf"); i > 0; i-- {
				arr.Kids = append(arr.Kids, sub(false))
			}
			call.Kids = append(call.Kids, arr)
			call.Spread = true
			return call
		}
		if n == 0 && rapid.IntRange(0, 3).Draw(t, "spread") == 0 {
			// rec([b, c]...): rec is purely variadic, so the spread list is its only argument (an argument before
			// the list is only accepted for functions with fixed leading parameters - C11's order check covers those)
			arr := &ref.Node{Kind: "arr"}
			for i := rapid.IntRange(0, 2).Draw(t, "nspread"); i > 0; i-- {
				arr.Kids = append(arr.Kids, sub(false))
			}
			call.Kids = append(call.Kids, arr)
			call.Spread = true
		}
		return call
	case 7: // conditional with a literal or comparison condition
		var cond *ref.Node
		if rapid.Bool().Draw(t, "litcond") {
			cond = &ref.Node{Kind: "kw", Op: rapid.SampledFrom([]string{"true", "false"}).Draw(t, "cb")}
		} else {
			cond = paren(bin(rapid.SampledFrom([]string{"==", "<", ">"}).Draw(t, "cmp"), num(rapid.IntRange(0, 3).Draw(t, "c1")), num(rapid.IntRange(0, 3).Draw(t, "c2"))))
		}
		return paren(&ref.Node{Kind: "cond", Kids: []*ref.Node{cond, sub(wantInt), sub(wantInt)}})
	case 8: // integer +
		if rapid.Bool().Draw(t, "localleft") {
			// a local as the LEFT operand: reading it in arithmetic must not change it
			return paren(bin("+", idn(rapid.SampledFrom(locals).Draw(t, "ll")), num(rapid.IntRange(0, 9).Draw(t, "lr"))))
		}
		return paren(bin("+", num(rapid.IntRange(0, 9).Draw(t, "l")), paren(bin("=", idn(rapid.SampledFrom(locals).Draw(t, "t2")), num(rapid.IntRange(0, 9).Draw(t, "r"))))))
	case 9: // forbidden targets
		var tgt *ref.Node
		switch rapid.IntRange(0, 5).Draw(t, "forb") {
		case 0:
			tgt = idn("x")
		case 1:
			tgt = &ref.Node{Kind: "sel", Val: "k", Kids: []*ref.Node{idn("$a")}}
		case 2:
			tgt = paren(idn("$a"))
		case 3:
			tgt = num(1)
		case 4:
			tgt = &ref.Node{Kind: "call", Kids: []*ref.Node{idn("rec")}}
		case 5:
			tgt = idn("newname")
		}
		return paren(bin("=", tgt, sub(false)))
	case 10: // member read on the nested map
		return &ref.Node{Kind: "sel", Val: rapid.SampledFrom([]string{"k", "in", "nope"}).Draw(t, "key"), Kids: []*ref.Node{idn("m")}}
	default:
		return sub(wantInt)
	}
}

func progNontrivial(c progCase) bool {
	assigned := map[string]bool{}
	nt := false
	for pi, p := range c.Programs {
		p.Walk(func(n *ref.Node) {
			if n.Kind == "bin" && n.Op == "=" {
				if n.Kids[0].Kind == "id" && strings.HasPrefix(n.Kids[0].Val, "$") {
					if assigned[n.Kids[0].Val] {
						nt = true // re-assignment
					}
					assigned[n.Kids[0].Val] = true
				} else {
					nt = true // forbidden target
				}
			}
			if n.Kind == "id" && strings.HasPrefix(n.Val, "$") && assigned[n.Val] {
				nt = true // read after an assignment
				_ = pi
			}
		})
	}
	return nt
}

// TestC07Model: histories of 1-4 evaluations against the store-passing model.
func TestC07Model(t *testing.T) {
	run := h.Begin("C07", "model", "rapid: histories of 1-4 programs evaluated by one runner; programs mix '$n = e', reads, forbidden targets (x = e, $a.k = e, ($a) = e, 1 = e, rec() = e, newname = e), ',', arrays, rec(...) calls (also rec([..]...) and recf(a, [..]...) with a fixed first parameter), ?: with literal or comparison conditions, && || ?? with a plain leaf on the right, parentheses and integer '+' over locals $a $b $c and data names x y m s d; oracle: a store-passing reference evaluator (result value, final value of every $ key in the caller's map, ordered rec trace = left-to-right evaluation, error iff a forbidden assignment is evaluated) and a deep snapshot of the caller's data taken before each evaluation (no non-$ entry added/removed/changed, no reachable map/slice/number mutated); non-trivial: an assignment that is read afterwards, a re-assignment or a forbidden target; distinct by history text")
	defer run.End(t)
	h.RapidSetup(h.N(8000, 2000000), "c07model")
	rapid.Check(t, func(rt *rapid.T) {
		n := rapid.IntRange(1, 4).Draw(rt, "nprogs")
		var c progCase
		var texts []string
		for i := 0; i < n; i++ {
			p := genProg(rt, rapid.IntRange(1, 4).Draw(rt, "depth"), false)
			if rapid.Bool().Draw(rt, "fewerparens") {
				// written the way people write: `c ? a : b, $x = 1, $x` - grouping by the grammar alone
				p = fewerParens(p)
				if p.Kind == "paren" {
					p = p.Kids[0]
				}
			}
			c.Programs = append(c.Programs, p)
			texts = append(texts, p.Text())
		}
		c.NoMap = rapid.IntRange(0, 3).Draw(rt, "nomap") == 0
		c.Again = !c.NoMap && rapid.IntRange(0, 2).Draw(rt, "again") == 0
		msg, unspec := checkProgs(c)
		if unspec {
			run.Class("unspecified-skipped")
			return
		}
		key := strings.Join(texts, " ;; ")
		if c.NoMap {
			key = "nomap: " + key
		}
		run.CountKey(key, progNontrivial(c), fmt.Sprintf("history%d", n))
		run.Sample(fmt.Sprintf("history%d", n), key)
		if msg != "" {
			run.Pending("model", "c07", c, msg)
			rt.Fatalf("%s", msg)
		}
	})
}

var c07Alphabet = []string{"$a", "$b", "x", "1", "2", "=", ",", "(", ")", "[", "]", "+", "rec", "'s'"}

// TestC07Exhaustive: every token sequence up to k tokens over a small alphabet.
func TestC07Exhaustive(t *testing.T) {
	k := h.N(5, 7)
	run := h.Begin("C07", "exhaustive", fmt.Sprintf("bounded-exhaustive: every sequence of 1..%d tokens over {$a, $b, x, 1, 2, =, ',', (, ), [, ], +, rec, 's'} that parses and stays inside the specified sub-language, evaluated once on a fresh runner and once more followed by '[$a, $b]'; same oracle as the model part; non-trivial as in the model part", k))
	defer run.End(t)
	var sb strings.Builder
	tail := ref.Parse([]byte("[$a, $b]"))
	enumSeq(len(c07Alphabet), k, func(seq []int) {
		if run.NViolations() >= 3 {
			return
		}
		sb.Reset()
		for i, s := range seq {
			if i > 0 {
				sb.WriteByte(' ')
			}
			sb.WriteString(c07Alphabet[s])
		}
		prog := ref.Parse([]byte(sb.String()))
		if prog == nil {
			return
		}
		c := progCase{Programs: []*ref.Node{prog, tail}}
		msg, unspec := checkProgs(c)
		if unspec {
			run.Class("unspecified-skipped")
			return
		}
		run.Count(progNontrivial(c), "")
		if len(seq) == k && (seq[0]+seq[2]*3+seq[k-1])%23 == 0 {
			run.Sample("exhaustive", sb.String())
		}
		if msg != "" {
			run.Fail("c07", c, msg)
		}
	})
	run.Exhaustive()
}

// checkFrame: a general program evaluated against the world must leave every
// non-$ entry and everything reachable from it untouched.
func checkFrame(c evalCase) string {
	f := c.formula()
	p := obs.Parse([]byte(f))
	if !p.OK() {
		return ""
	}
	rec := &spec.Recorder{}
	data := spec.BuildMap(worldSpec(), rec)
	keep := func(k string) bool { return !strings.HasPrefix(k, "$") || k == "$loc" && !strings.Contains(f, "$loc") }
	before := obs.Snapshot(data, keep)
	r := formula.NewRunner()
	r.SetThis(data)
	out := obs.Eval(r, context.Background(), p.Src.Expression)
	if out.Panic != nil {
		return "" // C03's concern
	}
	if after := obs.Snapshot(data, keep); after != before {
		return fmt.Sprintf("evaluating %q modified the caller's data:\n%s", f, diffLines(before, after))
	}
	// a second evaluation sees the locals of the first but still must not touch caller data
	obs.Eval(r, context.Background(), p.Src.Expression)
	if after := obs.Snapshot(data, keep); after != before {
		return fmt.Sprintf("evaluating %q twice modified the caller's data:\n%s", f, diffLines(before, after))
	}
	return ""
}

func diffLines(a, b string) string {
	la, lb := strings.Split(a, "\n"), strings.Split(b, "\n")
	var out []string
	for i := 0; i < len(la) || i < len(lb); i++ {
		var x, y string
		if i < len(la) {
			x = la[i]
		}
		if i < len(lb) {
			y = lb[i]
		}
		if x != y {
			out = append(out, "- "+x, "+ "+y)
		}
	}
	if len(out) > 8 {
		out = out[:8]
	}
	return strings.Join(out, "\n")
}

// TestC07Frame: frame condition over general programs (all operators, builtins, host functions).
func TestC07Frame(t *testing.T) {
	run := h.Begin("C07", "frame", "rapid: general grammar-directed programs (the C03 generator: every operator, builtin and host function over the world of all data kinds, including a *decimal.Big entry, nested maps, typed slices and a pointer to a struct) evaluated twice on one runner; oracle: the deep snapshot (types, addresses of maps/slices/pointers, contents, decimal representation) of all non-$ entries is identical before and after; non-trivial: the program contains an assignment, a call or a unary/binary operator on a data name; distinct by text")
	defer run.End(t)
	h.RapidSetup(h.N(6000, 1500000), "c07frame")
	rapid.Check(t, func(rt *rapid.T) {
		ast := genExpr(rt, &c03Cfg, rapid.IntRange(1, 5).Draw(rt, "depth"), ref.LvComma)
		boundPads(rt, ast)
		excludeSelfReference(ast)
		text := ast.Text()
		c := mkEvalCase(text, nil, "")
		run.CountKey(text, ast.Count() >= 3, "")
		run.Sample("frame", text)
		if msg := checkFrame(c); msg != "" {
			run.Pending("frame", "c07-frame", c, msg)
			rt.Fatalf("%s", msg)
		}
	})
}

// TestC07FrameGrid: every unary/binary operator and every 1-argument builtin on
// the mutable-looking entries (decimal, map, slice, struct pointer).
func TestC07FrameGrid(t *testing.T) {
	run := h.Begin("C07", "frame-grid", "bounded-exhaustive: OP x, x OP y, B(x), B(x, y), '$v = x, OP $v, $v' for every operator OP, every builtin B and x,y over the entries whose mutation would be observable (dec, i64, f64, m, m.b, arr, strs, ints, maps, mi, st, pst, t, s); oracle: deep snapshot equality; every case non-trivial")
	defer run.End(t)
	names := []string{"dec", "i64", "f64", "m", "m.b", "arr", "strs", "ints", "maps", "mi", "st", "pst", "t", "s", "earr"}
	var idx int64
	try := func(f string) {
		idx++
		if !h.Mine(idx) || run.NViolations() >= 3 {
			return
		}
		c := mkEvalCase(f, nil, "")
		run.Count(true, "")
		if idx%1013 == 0 {
			run.Sample("frame-grid", f)
		}
		if msg := checkFrame(c); msg != "" {
			run.Fail("c07-frame", c, msg)
		}
	}
	for _, x := range names {
		for _, op := range []string{"+", "-", "!", "!!", "~", "typeof "} {
			try(op + x)
			try("$v = " + x + ", " + op + "$v, $v")
		}
		for _, b := range builtinNames() {
			try(b + "(" + x + ")")
			try("$v = " + x + ", " + b + "($v), $v")
			for _, y := range []string{"dec", "1", "'a'", "arr", "m"} {
				try(b + "(" + x + ", " + y + ")")
			}
		}
		for _, y := range names {
			for _, op := range ref.BinOps {
				try(x + " " + op + " " + y)
			}
			try("$v = " + x + ", $v + " + y + ", $v - " + y + ", $v")
			try("fnSV('a', " + x + ", " + y + "), fnA(" + x + "), [" + x + ", " + y + "...]")
		}
	}
	run.Exhaustive()
}

// withoutRec copies a program, turning every call of rec / recf into an array literal of its arguments.
func withoutRec(n *ref.Node) *ref.Node {
	c := *n
	c.Kids = nil
	for _, k := range n.Kids {
		c.Kids = append(c.Kids, withoutRec(k))
	}
	if c.Kind == "call" && len(c.Kids) > 0 && c.Kids[0].Kind == "id" && (c.Kids[0].Val == "rec" || c.Kids[0].Val == "recf") {
		return &ref.Node{Kind: "arr", Kids: c.Kids[1:]}
	}
	return &c
}

// checkProgsNoMap: the same model on a runner without a caller map (results only;
// programs that call rec are outside the model there).
func checkProgsNoMap(c progCase, r *formula.Runner, env *miniEnv) (string, bool) {
	for pi, prog := range c.Programs {
		text := prog.Text()
		p := obs.Parse([]byte(text))
		if !p.OK() {
			return fmt.Sprintf("HARNESS: program %q does not parse: %v", text, p.Err), false
		}
		// no data, no host functions: a call rec(a, b) of the generated program becomes the list [a, b]
		// (a spread list stays a list element) - assignments inside lists bind like any other
		prog = withoutRec(prog)
		text = prog.Text()
		if p = obs.Parse([]byte(text)); !p.OK() {
			return fmt.Sprintf("HARNESS: program %q does not parse: %v", text, p.Err), false
		}
		want, wantErr := env.eval(prog)
		if env.unspec {
			return "", true
		}
		out := obs.Eval(r, context.Background(), p.Src.Expression)
		where := fmt.Sprintf("evaluation %d %q on a runner without a data map", pi+1, text)
		if out.Panic != nil {
			return fmt.Sprintf("%s panicked: %v", where, out.Panic), false
		}
		if wantErr {
			if out.Err == nil {
				return fmt.Sprintf("%s = %s, want an error", where, obs.Show(out.Val)), false
			}
			return "", false
		}
		if out.Err != nil || !mvMatches(out.Val, want, map[string]interface{}{}, true) {
			return fmt.Sprintf("%s -> %s, the reference evaluation gives %s", where, out, want), false
		}
	}
	return "", false
}

// fewerParens copies a generated program without the parentheses the grammar
// does not need (the left side of an assignment keeps its own: `($a) = e` is a
// forbidden target, not a spelling of `$a = e`).
func fewerParens(n *ref.Node) *ref.Node {
	c := *n
	c.Kids = nil
	for i, k := range n.Kids {
		k = fewerParens(k)
		need := -1 // -1: keep as written
		switch n.Kind {
		case "bin":
			switch {
			case n.Op == ",":
				need = []int{ref.LvComma, ref.LvAssign}[i]
			case n.Op == "=":
				if i == 1 {
					need = ref.LvAssign
				}
			default:
				need = ref.BinLevel[n.Op] + i
			}
		case "cond":
			need = []int{2, ref.LvAssign, ref.LvAssign}[i]
		case "arr":
			need = ref.LvAssign
		case "call":
			need = ref.LvAssign
			if i == 0 {
				need = ref.LvPostfix
			}
		case "pre", "typeof":
			need = ref.LvUnary
		case "sel":
			need = ref.LvPostfix
		case "paren":
			need = ref.LvComma
		}
		if need >= 0 && k.Kind == "paren" && len(k.Kids) == 1 && k.Kids[0].Level() >= need {
			k = k.Kids[0]
		}
		c.Kids = append(c.Kids, k)
	}
	return &c
}

// calleeCase: one parsed formula that calls through a local, evaluated after the
// local was bound to F1 and again after it was re-bound to F2.
type calleeCase struct {
	Use string `json:"use"` // formula calling $pick
	F1  string `json:"f1"`
	F2  string `json:"f2"`
}

func checkCallee(c calleeCase) string {
	data := func() map[string]interface{} {
		return map[string]interface{}{"lo": 3, "hi": 7, "neg": -2.5,
			"twice": func(a, b float64) (float64, error) { return 2 * (a + b), nil },
			"first": func(a, b interface{}) (interface{}, error) { return a, nil }}
	}
	use := obs.Parse([]byte(c.Use))
	if !use.OK() {
		return "HARNESS: " + c.Use
	}
	fresh := func(fn string) string {
		p := obs.Parse([]byte(strings.ReplaceAll(c.Use, "$pick", fn)))
		if !p.OK() {
			return "HARNESS"
		}
		r := formula.NewRunner()
		r.SetThis(data())
		return obs.Eval(r, context.Background(), p.Src.Expression).String()
	}
	bind := func(r *formula.Runner, fn string) string {
		p := obs.Parse([]byte("$pick = " + fn))
		if !p.OK() {
			return "HARNESS: bind " + fn
		}
		if o := obs.Eval(r, context.Background(), p.Src.Expression); o.Panic != nil || o.Err != nil {
			return fmt.Sprintf("$pick = %s -> %s", fn, o)
		}
		return ""
	}
	r := formula.NewRunner()
	r.SetThis(data())
	for step, fn := range []string{c.F1, c.F2, c.F1} {
		if m := bind(r, fn); m != "" {
			return m
		}
		got, want := obs.Eval(r, context.Background(), use.Src.Expression).String(), fresh(fn)
		if got != want && !(strings.HasPrefix(got, "ERR(") && strings.HasPrefix(want, "ERR(")) { // errors name the callee as written
			return fmt.Sprintf("step %d: after '$pick = %s' (earlier bindings on the same runner: %v) the parsed formula %q gives %s, want what %q gives: %s", step+1, fn, []string{c.F1, c.F2, c.F1}[:step], c.Use, got, strings.ReplaceAll(c.Use, "$pick", fn), want)
		}
	}
	// the same tree on another runner whose local holds F2 from the start
	r2 := formula.NewRunner()
	r2.SetThis(data())
	if m := bind(r2, c.F2); m != "" {
		return m
	}
	if got, want := obs.Eval(r2, context.Background(), use.Src.Expression).String(), fresh(c.F2); got != want && !(strings.HasPrefix(got, "ERR(") && strings.HasPrefix(want, "ERR(")) {
		return fmt.Sprintf("the parsed formula %q, evaluated before with $pick = %s, gives %s on a new runner with '$pick = %s', want %s", c.Use, c.F1, got, c.F2, want)
	}
	return ""
}

func init() {
	h.RegisterReplay("c07-callee", func(raw json.RawMessage) string {
		c, err := h.Decode[calleeCase](raw)
		if err != nil {
			return "bad replay: " + err.Error()
		}
		return checkCallee(c)
	})
}

// TestC07CalleeLocals: a local is read where it is used - also when it holds a
// function and is used as the callee.
func TestC07CalleeLocals(t *testing.T) {
	fns := []string{"max", "min", "twice", "first", "abs", "lo", "null"}
	uses := []string{"$pick(lo, hi)", "[$pick(hi, lo), $pick(neg, neg)]", "$pick(lo, hi) + 1", "$g = $pick, $g(lo, hi)", "[1, $pick(lo, $pick(hi, neg))]"}
	run := h.Begin("C07", "callee-locals", fmt.Sprintf("bounded-exhaustive: %d formulas that call through the local $pick x every ordered pair of the %d bindings {max, min, two host functions, a one-argument builtin, a number, null}: one parsed tree evaluated after '$pick = F1', after '$pick = F2', after '$pick = F1' again on one runner, and on a second runner bound to F2; oracle: the outcome (value or error) of the formula with the bound function written in place of $pick, freshly parsed; every case non-trivial", len(uses), len(fns)))
	defer run.End(t)
	var idx int64
	for _, u := range uses {
		for _, f1 := range fns {
			for _, f2 := range fns {
				idx++
				if !h.Mine(idx) || run.NViolations() >= 3 {
					continue
				}
				c := calleeCase{Use: u, F1: f1, F2: f2}
				run.Count(true, "")
				if idx%37 == 0 {
					run.Sample("callee", fmt.Sprintf("%s with $pick = %s, then %s", u, f1, f2))
				}
				if msg := checkCallee(c); msg != "" {
					run.Fail("c07-callee", c, msg)
				}
			}
		}
	}
	run.Exhaustive()
}

// onceCase: a call one of whose arguments is an assignment that reads the local it binds.
type onceCase struct {
	Text string `json:"text"`
	Want string `json:"want"`
}

func checkOnce(c onceCase) (msg string, failed bool) {
	p := obs.Parse([]byte(c.Text))
	if !p.OK() {
		return "HARNESS: " + c.Text, false
	}
	r := formula.NewRunner()
	r.SetThis(map[string]interface{}{
		"hs1": func(a string) (string, error) { return a, nil },
		"hs2": func(a, b string) (bool, error) { return a == b, nil },
		"hi1": func(a int) (int, error) { return a, nil },
		"has": func(a interface{}, b string) (string, error) { return b, nil },
		"hvs": func(a ...string) (int, error) { return len(a), nil },
		"hf2": func(a float64, b string) (float64, error) { return a, nil },
	})
	out := obs.Eval(r, context.Background(), p.Src.Expression)
	if out.Panic != nil || out.Err != nil {
		return "", true // what a failed call leaves behind is not specified
	}
	if got := obs.Show(out.Val); got != c.Want {
		return fmt.Sprintf("%s = %s, want %s: an argument is evaluated once - an assignment inside it binds once, and a local that is only read stays as it was", c.Text, got, c.Want), false
	}
	return "", false
}

func init() {
	h.RegisterReplay("c07-once", func(raw json.RawMessage) string {
		c, err := h.Decode[onceCase](raw)
		if err != nil {
			return "bad replay: " + err.Error()
		}
		m, _ := checkOnce(c)
		return m
	})
}

// c07Plain evaluates a formula on a new runner without data and shows the result.
func c07Plain(text string) string {
	p := obs.Parse([]byte(text))
	if !p.OK() {
		return "HARNESS"
	}
	return obs.Show(obs.Eval(formula.NewRunner(), context.Background(), p.Src.Expression).Val)
}

// TestC07ArgumentsOnce: `$n = $n + 1` as a call argument binds once, whatever the callee does with the value.
func TestC07ArgumentsOnce(t *testing.T) {
	run := h.Begin("C07", "arguments-once", "bounded-exhaustive: every builtin of arity 1..4 (max / min with 2 and 3 arguments) and 6 host functions of plain Go signatures (string, (string, string), int, (any, string), ...string, (float64, string)), every argument position holding '($n = $n + 1)' or '($s = $s + \\'x\\')' - or a plain read of $n bound to a number of 21..28 digits, which must read the same afterwards -, the other positions filled with one of 'ab', 2, null, [1], 'a' + 'b'; the formula is '$n = 0, $s = \\'a\\', F(args), [$n, $s]'; oracle: [1, 'a'] resp. [0, 'ax'] whenever the evaluation succeeds (a failing call is skipped and counted: what it leaves behind is not specified); non-trivial: the evaluation succeeded")
	defer run.End(t)
	type fn struct {
		name  string
		arity int
	}
	var fns []fn
	for _, b := range builtinNames() {
		switch a := builtinArity[b]; {
		case a > 0:
			fns = append(fns, fn{b, a})
		case a < 0:
			fns = append(fns, fn{b, 2}, fn{b, 3})
		}
	}
	fns = append(fns, fn{"hs1", 1}, fn{"hs2", 2}, fn{"hi1", 1}, fn{"has", 2}, fn{"hvs", 1}, fn{"hvs", 3}, fn{"hf2", 2})
	sortFns := func() {
		for i := 1; i < len(fns); i++ {
			for j := i; j > 0 && (fns[j].name < fns[j-1].name || (fns[j].name == fns[j-1].name && fns[j].arity < fns[j-1].arity)); j-- {
				fns[j], fns[j-1] = fns[j-1], fns[j]
			}
		}
	}
	sortFns()
	var idx int64
	for _, f := range fns {
		for pos := 0; pos < f.arity; pos++ {
			for _, filler := range []string{"'ab'", "2", "null", "[1]", "'a' + 'b'"} {
				for k, counter := range []string{"($n = $n + 1)", "($s = $s + 'x')", "$n", "$n", "($n)"} {
					idx++
					if !h.Mine(idx) || run.NViolations() >= 3 {
						continue
					}
					args := make([]string, f.arity)
					for i := range args {
						args[i] = filler
					}
					args[pos] = counter
					// reading a local as an argument leaves it as it is, whatever the callee does with the number:
					// many-digit values, which the decimal library keeps in a different representation
					init := []string{"0", "0", "123456789012345678901234.5", "-98765432109876543210.987654321", "55555555555555555555.5"}[k]
					c := onceCase{Text: "$n = " + init + ", $s = 'a', " + f.name + "(" + strings.Join(args, ", ") + "), [$n, $s]"}
					if k < 2 {
						c.Want = []string{`[1,"a"]`, `[0,"ax"]`}[k]
					} else {
						c.Want = c07Plain("$n = " + init + ", $s = 'a', [$n, $s]")
					}
					msg, failed := checkOnce(c)
					if failed {
						run.Count(false, "call failed (skipped)")
						continue
					}
					run.Count(true, "call succeeded")
					if idx%97 == 0 {
						run.Sample("call succeeded", c.Text)
					}
					if msg != "" {
						run.Fail("c07-once", c, msg)
					}
				}
			}
		}
	}
	run.Exhaustive()
}

// TestC07OperandOrder: the operands of a strict binary operator are evaluated left to right,
// so an assignment in the left operand is seen by a read in the right one, and the right one binds last.
func TestC07OperandOrder(t *testing.T) {
	run := h.Begin("C07", "operand-order", "bounded-exhaustive: 16 strict binary operators (| ^ & == != === !== < > <= >= + - * / %) x ordered pairs (L, R) of 8 literals (1, 2, 5, 0.5, 'x', 'y', true, null) x 3 shapes: '[($a = L) OP ($a = R), $a]', '$a = L, [($a = R) OP $a, $a]', '$a = L, [$a OP ($a = R), $a]'; oracle: the same list written with the literals in place of the locals ('[L OP R, R]', '[R OP R, R]', '[L OP R, R]') evaluated on a new runner; a pair the operator rejects is skipped and counted; non-trivial: the plain formula evaluated")
	defer run.End(t)
	ops := []string{"|", "^", "&", "==", "!=", "===", "!==", "<", ">", "<=", ">=", "+", "-", "*", "/", "%"}
	lits := []string{"1", "2", "5", "0.5", "'x'", "'y'", "true", "null"}
	var idx int64
	for _, op := range ops {
		for _, l := range lits {
			for _, r := range lits {
				for shape := 0; shape < 3; shape++ {
					idx++
					if !h.Mine(idx) || run.NViolations() >= 3 {
						continue
					}
					var c operandCase
					switch shape {
					case 0:
						c = operandCase{Text: "[($a = " + l + ") " + op + " ($a = " + r + "), $a]", Plain: "[" + l + " " + op + " " + r + ", " + r + "]"}
					case 1:
						c = operandCase{Text: "$a = " + l + ", [($a = " + r + ") " + op + " $a, $a]", Plain: "[" + r + " " + op + " " + r + ", " + r + "]"}
					default:
						c = operandCase{Text: "$a = " + l + ", [$a " + op + " ($a = " + r + "), $a]", Plain: "[" + l + " " + op + " " + r + ", " + r + "]"}
					}
					msg, skipped := checkOperandOrder(c)
					if skipped {
						run.Count(false, "operator rejects the pair (skipped)")
						continue
					}
					run.Count(true, "evaluated")
					if idx%131 == 0 {
						run.Sample("evaluated", c.Text)
					}
					if msg != "" {
						run.Fail("c07-order", c, msg)
					}
				}
			}
		}
	}
	run.Exhaustive()
}

type operandCase struct {
	Text  string `json:"text"`
	Plain string `json:"plain"`
}

func checkOperandOrder(c operandCase) (string, bool) {
	pp := obs.Parse([]byte(c.Plain))
	p := obs.Parse([]byte(c.Text))
	if !pp.OK() || !p.OK() {
		return "HARNESS: " + c.Text, false
	}
	want := obs.Eval(formula.NewRunner(), context.Background(), pp.Src.Expression)
	if want.Panic != nil || want.Err != nil {
		return "", true
	}
	got := obs.Eval(formula.NewRunner(), context.Background(), p.Src.Expression)
	if got.Panic != nil {
		return "", true // C03's concern
	}
	if got.Err != nil {
		return fmt.Sprintf("%s fails (%v) although %s evaluates: operands are evaluated left to right, each assignment binding before the next operand is read", c.Text, got.Err, c.Plain), false
	}
	if g, w := obs.Show(got.Val), obs.Show(want.Val); g != w {
		return fmt.Sprintf("%s = %s, want %s (the value of %s): operands are evaluated left to right, each assignment binding before the next operand is read", c.Text, g, w, c.Plain), false
	}
	return "", false
}

func init() {
	h.RegisterReplay("c07-order", func(raw json.RawMessage) string {
		c, err := h.Decode[operandCase](raw)
		if err != nil {
			return "bad replay: " + err.Error()
		}
		m, _ := checkOperandOrder(c)
		return m
	})
}
