package props

import (
	"context"
	"encoding/json"
	"fmt"
	"os"
	"os/exec"
	"runtime"
	"sort"
	"strconv"
	"strings"
	"testing"

	"github.com/aundis/formula"
	"pgregory.net/rapid"

	"verif/internal/h"
	"verif/internal/obs"
	"verif/internal/ref"
	"verif/internal/spec"
)

// C08 — evaluation is a pure function of formula text and data.

type pureAction struct {
	Op string `json:"op"` // parse | eval | analyse | malformed | unrelated
	I  int    `json:"i"`  // text index
	J  int    `json:"j"`  // data variant
}

type pureCase struct {
	Texts     []string     `json:"texts_quoted"`
	Unrelated []string     `json:"unrelated_quoted"`
	Actions   []pureAction `json:"actions"`
}

// c08World: the world without entries whose formatting is address-dependent
// (pointers inside values) and without the clock. Map-typed host parameters
// are included: a failed conversion of a map with several unconvertible
// entries must report the same error every time.
func c08World() map[string]spec.V {
	w := worldSpec()
	delete(w, "pst")
	delete(w, "$loc")
	st := w["st"]
	m := map[string]spec.V{}
	for k, v := range st.M {
		if k != "P" {
			m[k] = v
		}
	}
	st.M = m
	w["st"] = st
	// two records of different (unnamed) struct types with the same field names in different positions
	w["an1"] = spec.V{K: "dyn", L: []spec.V{{K: "string", S: "bob", N: "Name"}, {K: "int", S: "41", N: "Age"}}}
	// a caller's list of floats whose shortest text differs from their exact decimal expansion
	w["farr"] = spec.V{K: "slice", L: []spec.V{{K: "float32", S: "0.3"}, {K: "float64", S: "1e21"}, {K: "float64", S: "0.00001"}, {K: "int", S: "7"}}}
	// a record whose keys differ only in the case of their letters, and none spelled the way the formulas ask
	w["cased"] = spec.V{K: "map", M: map[string]spec.V{"ID": {K: "int", S: "1"}, "Id": {K: "int", S: "2"}, "iD": {K: "int", S: "3"}, "NAME": {K: "string", S: "x"}, "Name": {K: "string", S: "y"}}}
	w["an2"] = spec.V{K: "dyn", L: []spec.V{{K: "int", S: "30", N: "Age"}, {K: "string", S: "eve", N: "Name"}, {K: "float64", S: "2.5", N: "Score"}}}
	return w
}

var c08Analyses int

func c08Data(j int) map[string]interface{} {
	switch j % 3 {
	case 0:
		return spec.BuildMap(c08World(), &spec.Recorder{})
	case 1:
		return map[string]interface{}{"i": 1, "s": "x", "m": map[string]interface{}{"a": 2}, "arr": []interface{}{1, 2}}
	}
	return nil
}

type evalRecord struct {
	val string
	err string
	has bool
}

func outcomeKey(out obs.EvalOut) (string, string) {
	if out.Panic != nil {
		return "", fmt.Sprintf("PANIC %v", out.Panic)
	}
	if out.Err != nil {
		return "", out.Err.Error()
	}
	return fmt.Sprint(normResult(out.Val)), ""
}

// checkPure replays the history.
func checkPure(c pureCase) string {
	n := len(c.Texts)
	texts := make([]string, n)
	for i, q := range c.Texts {
		texts[i] = textCase{Text: q}.text()
	}
	trees := make([]*formula.SourceCode, n)
	dumps := make([]string, n)  // full dump (ids, parent links) of the pooled tree: must never change
	shapes := make([]string, n) // shape + values + ranges: what every re-parse must reproduce
	firstEval := map[[2]int]evalRecord{}
	firstFields := map[int]string{}
	firstBad := map[string]string{}
	parse := func(i int) string {
		p := obs.Parse([]byte(texts[i]))
		if p.Panic != nil {
			return fmt.Sprintf("parse of %q panicked: %v", texts[i], p.Panic)
		}
		if !p.OK() {
			if ref.Parse([]byte(texts[i])) != nil {
				return fmt.Sprintf("pool text %q is derivable from the grammar but was rejected at this point of the history: %v", texts[i], p.Err)
			}
			return fmt.Sprintf("HARNESS: pool text %q does not parse: %v", texts[i], p.Err)
		}
		d := obs.DumpFull(p.Src.Expression) + fmt.Sprintf("|nodes=%d idents=%d eof=[%d,%d)", p.Src.NodeCount, p.Src.IdentifierCount, p.Src.EndOfFileToken.Pos(), p.Src.EndOfFileToken.End())
		sh := obs.DumpRanges(p.Src.Expression) + fmt.Sprintf("|nodes=%d idents=%d", p.Src.NodeCount, p.Src.IdentifierCount)
		if shapes[i] != "" && sh != shapes[i] {
			return fmt.Sprintf("parsing %q twice gives different trees:\n%s\n%s", texts[i], shapes[i], sh)
		}
		if trees[i] == nil {
			trees[i], dumps[i], shapes[i] = p.Src, d, sh
		}
		return ""
	}
	unchanged := func(i int, after string) string {
		d := obs.DumpFull(trees[i].Expression) + fmt.Sprintf("|nodes=%d idents=%d eof=[%d,%d)", trees[i].NodeCount, trees[i].IdentifierCount, trees[i].EndOfFileToken.Pos(), trees[i].EndOfFileToken.End())
		if d != dumps[i] {
			return fmt.Sprintf("%s changed the tree of %q:\nbefore %s\nafter  %s", after, texts[i], dumps[i], d)
		}
		return ""
	}
	for i := range texts {
		if m := parse(i); m != "" {
			return m
		}
	}
	sharedData := map[int]map[string]interface{}{}
	for step, a := range c.Actions {
		if n == 0 {
			break
		}
		i := a.I % n
		switch a.Op {
		case "parse":
			if m := parse(i); m != "" {
				return m
			}
		case "eval":
			r := formula.NewRunner()
			if d := c08Data(a.J); d != nil {
				if !strings.Contains(texts[i], "$") {
					// a formula without locals only reads: the caller keeps one record per variant for the whole
					// history and hands the very same object to every evaluation ("equal data" at its plainest)
					if sharedData[a.J%3] == nil {
						sharedData[a.J%3] = d
					}
					d = sharedData[a.J%3]
				}
				r.SetThis(d)
			}
			out := obs.Eval(r, context.Background(), trees[i].Expression)
			v, e := outcomeKey(out)
			key := [2]int{i, a.J % 3}
			if first, ok := firstEval[key]; ok {
				if first.val != v || first.err != e {
					return fmt.Sprintf("step %d: evaluating %q with data variant %d gave %s / err %q, the first evaluation gave %s / err %q", step+1, texts[i], a.J%3, v, e, first.val, first.err)
				}
			} else {
				firstEval[key] = evalRecord{val: v, err: e, has: true}
			}
			if m := unchanged(i, "evaluation"); m != "" {
				return m
			}
			// the pooled tree (evaluated before, possibly with other data) must behave like a freshly parsed one
			if fp := obs.Parse([]byte(texts[i])); fp.OK() {
				fr := formula.NewRunner()
				if d := c08Data(a.J); d != nil {
					fr.SetThis(d)
				}
				fv, fe := outcomeKey(obs.Eval(fr, context.Background(), fp.Src.Expression))
				if fv != v || fe != e {
					return fmt.Sprintf("step %d: the tree of %q, evaluated earlier with other data, gives %s / err %q with data variant %d; a freshly parsed tree of the same text gives %s / err %q", step+1, texts[i], v, e, a.J%3, fv, fe)
				}
			}
		case "analyse":
			var fields []string
			var err error
			var pan interface{}
			func() {
				defer func() { pan = recover() }()
				fields, err = formula.ResolveReferenceFields(trees[i])
				formula.ResolveReferenceFieldsNotLocal(trees[i])
			}()
			sort.Strings(fields)
			key := fmt.Sprintf("%v|%v|%v", fields, err, pan)
			if first, ok := firstFields[i]; ok && first != key {
				return fmt.Sprintf("step %d: field analysis of %q gave %s, the first time %s", step+1, texts[i], key, first)
			}
			firstFields[i] = key
			if m := unchanged(i, "field analysis"); m != "" {
				return m
			}
			// what the analysis reports is a function of the text: a freshly parsed tree of the same text
			// (after the collector has had a chance to recycle whatever earlier histories dropped) reports the same
			c08Analyses++
			if c08Analyses%64 == 0 {
				runtime.GC()
			}
			if fp := obs.Parse([]byte(texts[i])); fp.OK() {
				var f2 []string
				var e2 error
				var p2 interface{}
				func() {
					defer func() { p2 = recover() }()
					f2, e2 = formula.ResolveReferenceFields(fp.Src)
				}()
				sort.Strings(f2)
				if k2 := fmt.Sprintf("%v|%v|%v", f2, e2, p2); k2 != key {
					return fmt.Sprintf("step %d: field analysis of the pooled tree of %q gave %s, of a freshly parsed tree of the same text %s", step+1, texts[i], key, k2)
				}
			}
		case "malformed":
			// rejected texts: the error (and the formatted first diagnostic) is a function of the text alone
			for k, bad := range []string{texts[i] + " +* (", "[" + texts[i], "f(" + texts[i] + " 2)", "(" + texts[i] + " ? 1", "g(1 ? " + texts[i] + " ]"} {
				if (k+a.J)%2 == 1 {
					continue // a different subset each time, so that the order of first occurrence varies
				}
				p := obs.Parse([]byte(bad))
				desc := fmt.Sprintf("panic=%v err=%v", p.Panic, p.Err)
				if p.Src != nil && len(p.Src.Diagnostics) > 0 {
					desc += " | " + formula.FormatDiagnostic(p.Src, p.Src.Diagnostics[0]) + fmt.Sprintf(" | ndiag=%d", len(p.Src.Diagnostics))
				}
				key := fmt.Sprintf("%d/%d", i, k)
				if first, ok := firstBad[key]; ok && first != desc {
					return fmt.Sprintf("step %d: parsing the malformed text %q reports %s, the first time it reported %s", step+1, bad, desc, first)
				}
				firstBad[key] = desc
			}
		case "unrelated":
			if len(c.Unrelated) > 0 {
				u := textCase{Text: c.Unrelated[a.I%len(c.Unrelated)]}.text()
				if p := obs.Parse([]byte(u)); p.OK() {
					r := formula.NewRunner()
					if d := c08Data(a.J); d != nil {
						r.SetThis(d)
					}
					obs.Eval(r, context.Background(), p.Src.Expression)
					formula.ResolveReferenceFields(p.Src)
				}
			}
		}
	}
	// finally every tree is still what it was
	for i := range texts {
		if m := unchanged(i, "the history"); m != "" {
			return m
		}
	}
	return ""
}

func init() {
	h.RegisterReplay("c08", func(raw json.RawMessage) string {
		c, err := h.Decode[pureCase](raw)
		if err != nil {
			return "bad replay: " + err.Error()
		}
		return checkPure(c)
	})
}

var c08Cfg = func() genCfg {
	cfg := c03Cfg
	var callees []string
	for _, c := range cfg.Callees {
		if c != "now" && c != "toDay" && c != "pst" {
			callees = append(callees, c)
		}
	}
	cfg.Callees = callees
	var names []string
	for _, nm := range cfg.Names {
		if nm != "pst" && nm != "$loc" {
			names = append(names, nm)
		}
	}
	cfg.Names = names
	return cfg
}()

func noClock(n *ref.Node) {
	n.Walk(func(x *ref.Node) {
		if x.Kind == "id" && (x.Val == "now" || x.Val == "toDay") {
			x.Val = "len"
		}
	})
}

// Texts outside ASCII: identifiers with letters, combining marks, digits and connectors of other scripts, the
// non-ASCII white space and line breaks, a byte order mark; accepted ones and rejected ones. How a character is
// classified must not depend on which characters were scanned before.
var c08ExoticValid = []string{
	"x\uff11 + 1", "total\u203fnet * 2", "\ufeffa + b", "a +\u202fb", "\u0e01\u0e34\u0e19 + 1", "\u00e9 + \u4e2d\u6587", "\u03b1\u0301 * \u03b2", "a\u00a0+\u3000b", "n\u0303 ?? \u00f1",
	"'\uff07' + 'x\u00a0y'", "a\u2028+ b", "\u0440\u0443\u0431 . \u043a\u043e\u043f", "x\u0661 - y\u0966 ?? 0", "\u2160 + \u2167", "_\u200c + $\u200d",
}

var c08ExoticInvalid = []string{
	"\u0e34 + 1", "\uff11x", "1\uff45 3", "a \u2215 b", "\u203fa", "x\ufeff\ufeff y", "\u00b7", "a\u2028.\u2029b c", "\u0661 + 1", "'\u2028", "a \uff0b b", "f\uff08x\uff09",
}

func genPureText(rt *rapid.T, depth int) (string, *ref.Node) {
	ast := genExpr(rt, &c08Cfg, depth, ref.LvComma)
	boundPads(rt, ast)
	excludeSelfReference(ast)
	noClock(ast)
	return ast.Text(), ast
}

func pureNontrivial(texts []string, actions []pureAction) bool {
	rich := false
	for _, t := range texts {
		if strings.Contains(t, "(") || strings.Contains(t, "=") {
			rich = true
		}
	}
	evals := map[[2]int]int{}
	between := false
	last := map[[2]int]int{}
	for k, a := range actions {
		if a.Op == "eval" && len(texts) > 0 {
			key := [2]int{a.I % len(texts), a.J % 3}
			if prev, ok := last[key]; ok && k-prev > 1 {
				between = true
			}
			last[key] = k
			evals[key]++
		}
	}
	return rich && between
}

// TestC08History: evaluations repeated and interleaved with unrelated work.
func TestC08History(t *testing.T) {
	run := h.Begin("C08", "history", "rapid: a pool of 1-4 generated programs (the C03 grammar without now/toDay, over the world of all data kinds) and 1-3 unrelated programs (pool and unrelated texts are, one time in four / three, texts outside ASCII: identifiers of other scripts with combining marks, digits and connectors, non-ASCII white space and line breaks, a byte order mark - accepted and rejected ones); a history of 4-24 actions {parse text i again, evaluate tree i with data variant j (full world / small map / no map) in a fresh runner with freshly built equal data, analyse tree i, parse-and-format a malformed text, evaluate and analyse an unrelated formula}; oracle: re-parsing gives an identical full dump (shape, values, Pos/End, ids, parent links, counters), every evaluation of (tree i, data j) equals the first one and equals the evaluation of a freshly parsed tree of the same text (value by deep address-free comparison, error by message), field analysis returns the same set, and the full dump of every tree is unchanged after every evaluation / analysis and at the end; non-trivial: a program with a call or assignment evaluated at least twice with other actions in between; distinct by case")
	defer run.End(t)
	h.RapidSetup(h.N(2500, 600000), "c08hist")
	rapid.Check(t, func(rt *rapid.T) {
		var c pureCase
		var plain []string
		nt := rapid.IntRange(1, 4).Draw(rt, "ntexts")
		for i := 0; i < nt; i++ {
			txt, _ := genPureText(rt, rapid.IntRange(1, 5).Draw(rt, "depth"))
			if rapid.IntRange(0, 3).Draw(rt, "exotic") == 0 {
				txt = rapid.SampledFrom(c08ExoticValid).Draw(rt, "exotictext")
			}
			plain = append(plain, txt)
			c.Texts = append(c.Texts, mkTextCase(txt, "").Text)
		}
		for i := rapid.IntRange(1, 3).Draw(rt, "nunrel"); i > 0; i-- {
			txt, _ := genPureText(rt, rapid.IntRange(1, 4).Draw(rt, "udepth"))
			if rapid.IntRange(0, 2).Draw(rt, "uexotic") == 0 {
				txt = rapid.SampledFrom(append(append([]string{}, c08ExoticValid...), c08ExoticInvalid...)).Draw(rt, "uexotictext")
			}
			c.Unrelated = append(c.Unrelated, mkTextCase(txt, "").Text)
		}
		na := rapid.IntRange(4, 24).Draw(rt, "nactions")
		for k := 0; k < na; k++ {
			op := rapid.SampledFrom([]string{"eval", "eval", "eval", "parse", "analyse", "malformed", "unrelated", "unrelated"}).Draw(rt, "op")
			c.Actions = append(c.Actions, pureAction{Op: op, I: rapid.IntRange(0, 3).Draw(rt, "i"), J: rapid.IntRange(0, 2).Draw(rt, "j")})
		}
		key, _ := json.Marshal(c)
		run.CountKey(string(key), pureNontrivial(plain, c.Actions), "")
		run.Sample("history", map[string]interface{}{"texts": plain, "actions": c.Actions})
		if msg := checkPure(c); msg != "" {
			run.Pending("hist", "c08", c, msg)
			rt.Fatalf("%s", msg)
		}
	})
}

// TestC08Repeat: every program of the grid evaluated three times around unrelated work.
func TestC08Repeat(t *testing.T) {
	run := h.Begin("C08", "repeat", "bounded-exhaustive: every builtin applied to 1-2 representative arguments, every operator on pairs of representative names, calls of undefined names spelt close to every builtin, map-typed host parameters with several unconvertible entries, and the must-error templates of C03, each as a one-program history [eval, unrelated, analyse, eval, parse, malformed, eval] over the three data variants; same oracle; non-trivial: all")
	defer run.End(t)
	var progs []string
	for _, b := range builtinNames() {
		if b == "now" || b == "toDay" {
			continue
		}
		for _, a := range []string{"s", "1.5", "t", "arr", "m"} {
			progs = append(progs, b+"("+a+")", b+"("+a+", 2)", b+"('a', "+a+", 1)")
		}
	}
	// calls of names that are not defined but lie close to one or several builtins (a truncated, extended or
	// altered spelling): the error must be the same every time
	for _, b := range builtinNames() {
		for _, miss := range []string{b[:len(b)-1], b[1:], b + "s", "x" + b[1:], strings.ToUpper(b[:1]) + b[1:]} {
			if _, isBuiltin := builtinArity[miss]; !isBuiltin && len(miss) >= 2 {
				progs = append(progs, miss+"(s, 'x', 5)", miss+"()")
			}
		}
	}
	for _, miss := range []string{"pad", "dat", "mix", "lef", "ma", "mi", "roun", "to", "Date", "trimm", "lowerr", "f", "ff"} {
		progs = append(progs, miss+"(s, '0', 5)", "[1, "+miss+"(1)]", "m."+miss+"(1)")
	}
	// literals and data values that are the whole result (handed back by reference): long coefficients with trailing
	// zeros, exponents, strings, through ?:, ||, ??, unary +, a comma, a local
	for _, lit := range []string{"100000000000000000000", "12345678901234567890.500", "1e25", "340282366920938463463374607431768211456000", "0.10000000000000000000", "'text'", "dec", "u64", "f64", "t"} {
		progs = append(progs, lit, "i > 100 ? i : "+lit, "n || "+lit, "n ?? "+lit, "+"+lit, "1, "+lit, "$v = "+lit+", $v", "["+lit+", "+lit+"]")
	}
	// operations whose operands are all literal-kind nodes, one of them `this` / `ctx`: constant-looking, yet the value
	// depends on the runner's data
	for _, op := range []string{"+", "<", ">", "<=", ">=", "==", "!=", "===", "??", "||", "&&"} {
		progs = append(progs, "'x' "+op+" this.s", "'x' "+op+" this", "this "+op+" 'x'", "(this.i) "+op+" 1", "typeof this "+op+" typeof ctx", "[this "+op+" null, this.n "+op+" this.n]")
	}
	for _, a := range []string{"m", "mi", "ms", "mik", "st", "arr", "n"} {
		// map-typed parameter: a map with several unconvertible entries
		progs = append(progs, "fnM("+a+")", "[fnM("+a+") ?? 1, fnM("+a+")]")
	}
	for _, x := range []string{"i", "s", "m", "arr", "n", "f64", "t", "st", "dec", "u64"} {
		for _, y := range []string{"i64", "sn", "mi", "strs", "np"} {
			for _, op := range ref.BinOps {
				progs = append(progs, x+" "+op+" "+y)
			}
			progs = append(progs, "$v = "+x+", [$v, "+y+"]", x+" ? "+y+" : "+x, "fnSV('k', "+x+", "+y+")")
		}
	}
	for _, f := range mustErrorCases() {
		if !strings.Contains(f, "pst") {
			progs = append(progs, f)
		}
	}
	progs = append(progs, "[cased.id, cased.name]", "cased.id ?? cased.name ?? 'none'", "cased!.id", "[cased.ID, cased.id, cased.Id, cased.iD]")
	// list literals spread over a variadic tail, short enough to fit whatever spare room the argument list has
	progs = append(progs, "max([7]...)", "max(i, [f64]...)", "min([i, 2]...)", "fnV(1, [2]...)", "fnV(1, 2, [3]...)", "fnV(1, 2, [3, 4]...)", "fnSV('k', [s]...)", "fnSV('k', 'a', [s, 'b']...)", "[max([i]...), min(1, [2]...), max(1, 2, [3, 4]...)]")
	// a caller's list read as a whole and spread over a variadic tail, in one formula and over one record
	progs = append(progs, "[join(farr, ';'), max(farr...) ?? 0, join(farr, ';')]", "[includes(farr, '0.3'), min(farr...) ?? 0, includes(farr, '0.3')]", "fnV(farr...), join(farr, ',')", "[join(arr, ';'), fnV(arr...), toString(arr)]")
	actions := []pureAction{{"eval", 0, 0}, {"unrelated", 0, 0}, {"analyse", 0, 0}, {"eval", 0, 0}, {"eval", 0, 1}, {"parse", 0, 0}, {"malformed", 0, 0}, {"eval", 0, 0}, {"eval", 0, 2}, {"unrelated", 0, 1}, {"eval", 0, 1}, {"eval", 0, 2}, {"analyse", 0, 0}}
	for idx, f := range progs {
		if !h.Mine(int64(idx)) || run.NViolations() >= 3 {
			continue
		}
		if !obs.Parse([]byte(f)).OK() {
			continue
		}
		c := pureCase{Texts: []string{mkTextCase(f, "").Text}, Unrelated: []string{mkTextCase("$z = upper(s) + len(s), [$z, max(1, i)]", "").Text}, Actions: actions}
		run.Count(true, "")
		if idx%499 == 0 {
			run.Sample("repeat", f)
		}
		if msg := checkPure(c); msg != "" {
			run.Fail("c08", c, msg)
		}
	}
	run.Exhaustive()
}

// ---- order independence across one process --------------------------------

// c08Battery: programs sensitive to hidden process-wide state: every builtin on
// tie / boundary arguments, 35-digit rounding ties, regular expressions, dates,
// string formatting, host calls.
func c08Battery() []string {
	var out []string
	nums := []string{"2.5", "0.5", "(0-0.5)", "(0-2.5)", "3.5", "1.4", "7", "0.125", "1e20", "9999999999999999999999999999999997 / 2", "1 / 3", "12345678901234567890123456789012345 + 0", "0.1 + 0.2"}
	for _, b := range []string{"abs", "ceil", "floor", "round", "roundBank", "sqrt", "exp", "ln", "log", "toInt", "toFloat", "toString", "finite"} {
		for _, n := range nums {
			out = append(out, "["+b+"("+n+")]")
		}
	}
	for _, n := range nums {
		out = append(out, "["+n+" / 3, "+n+" * 1.5, "+n+" % 2, "+n+" + 1e-30, max("+n+", 1), min("+n+", 1), "+n+" < 1, "+n+" === 2.5]")
	}
	strs := []string{"'Hello'", "''", "' x '", "'a.b'", "'héllo'", "s", "'12'", "'(ab)+'"}
	for _, b := range []string{"len", "lower", "upper", "trim", "toString", "toFloat", "toInt"} {
		for _, x := range strs {
			out = append(out, b+"("+x+")")
		}
	}
	for _, x := range strs {
		out = append(out, "[startWith("+x+",'H'), endWith("+x+",'o'), contains("+x+",'l'), find("+x+",'l'), left("+x+",1), right("+x+",1), lpad("+x+",'0',8), rpad("+x+",'0',8), mid("+x+",1,3), replace("+x+",'l','L')]",
			"regexp("+x+", '^[A-Za-z]+$')", "regexp('abab', "+x+")", "regexp("+x+", "+x+")", "join(["+x+", 'z'], "+x+")", "includes(["+x+"], 'Hello')")
	}
	for _, d := range []string{"date(2024,2,29)", "date(2023,14,35)", "t", "addDate(t,0,1,0)", "useTimezone(t,'UTC')", "useTimezone(t,'America/New_York')"} {
		out = append(out, "[year("+d+"), month("+d+"), day("+d+"), hour("+d+"), minute("+d+"), weekDay("+d+"), millSecond("+d+"), timeFormat("+d+", '2006-01-02T15:04:05Z07:00')]")
	}
	// rejected texts (each expects a different token / message): their errors are part of the outcome
	out = append(out, "[1, 2", "(1 + 2", "f(1 2)", "a ? b", "a.", "'open", "1_", "1e", "a # b", "[1,]", "f(a...b)", "x = ", "a b", "1 +\n", "g(1 ? 2 ]")
	out = append(out, "fnV(1,2,3)", "fnSV('k', 1, 'a', null)", "fnA([1,[2]])", "fnC(2.5)", "fn0() + 1", "[m.b.c, st.Name, mi.a, arr]", "$q = 2.5, [round($q), roundBank($q), $q]",
		"[cased.id, cased.name, cased.iD]", "cased.id ?? 'none'", "[cased.ID, cased.id, cased.Id]", "[an1.Age, an1.Name]", "[an2.Name, an2.Age, an2.Score]", "an1.Name + an2.Name", "typeof ctx", "[1,2,3] , 'x' + 2.50", "i64 + 1", "u64 % 10", "f64 * 3", "[1e400, 1e-400, 5e-324 + 0]", "this.s + this.i")
	return out
}

type orderCase struct {
	Order []int `json:"order"` // permutation of battery indices: evaluated twice in this order
}

func checkOrder08(c orderCase) string {
	bat := c08Battery()
	eval := func(f string) string {
		p := obs.Parse([]byte(f))
		if !p.OK() {
			return fmt.Sprintf("parse-error panic=%v err=%v", p.Panic, p.Err)
		}
		r := formula.NewRunner()
		r.SetThis(c08Data(0))
		v, e := outcomeKey(obs.Eval(r, context.Background(), p.Src.Expression))
		return v + "|" + e
	}
	first := make(map[int]string, len(c.Order))
	for _, i := range c.Order {
		first[i] = eval(bat[i%len(bat)])
	}
	for _, i := range c.Order {
		if again := eval(bat[i%len(bat)]); again != first[i] {
			return fmt.Sprintf("%q gave %s the first time and %s after the other programs of the battery had been evaluated", bat[i%len(bat)], first[i], again)
		}
	}
	return ""
}

func init() {
	h.RegisterReplay("c08-order", func(raw json.RawMessage) string {
		c, err := h.Decode[orderCase](raw)
		if err != nil {
			return "bad replay: " + err.Error()
		}
		return checkOrder08(c)
	})
}

// TestC08AOrderIndependence runs first in its process (tests run in source
// order of the sorted files and this name sorts first among TestC08*): a
// battery of state-sensitive programs is evaluated in a random order drawn per
// process, then again in the same order; a program that leaves hidden
// process-wide state behind changes the second result of every program that
// happened to run before it. With k shard processes a given (culprit, victim)
// pair is ordered the right way in at least one of them with probability 1-2^-k.
func TestC08AOrderIndependence(t *testing.T) {
	bat := c08Battery()
	run := h.Begin("C08", "order-independence", fmt.Sprintf("a battery of %d state-sensitive programs (every numeric builtin on ties and 35-digit rounding ties, string builtins, regular expressions, dates in several zones, host calls) evaluated in a random order drawn per shard process at process start, then again in the same order; oracle: both results of every program are identical (a program that leaves process-wide state behind changes the later result of the programs evaluated before it); every program counts as non-trivial; 3 permutations per process", len(bat)))
	defer run.End(t)
	h.RapidSetup(3, "c08order")
	rapid.Check(t, func(rt *rapid.T) {
		perm := rapid.Permutation(seqInts(len(bat))).Draw(rt, "order")
		c := orderCase{Order: perm}
		for _, i := range perm[:min(3, len(perm))] {
			run.Sample("battery", bat[i])
		}
		msg := checkOrder08(c)
		for _, i := range perm {
			run.CountKey(bat[i], true, "")
		}
		if msg != "" {
			run.Pending("order", "c08-order", c, msg)
			rt.Fatalf("%s", msg)
		}
	})
}

func seqInts(n int) []int {
	out := make([]int, n)
	for i := range out {
		out[i] = i
	}
	return out
}

// TestC08FreshRunners: programs that read and assign locals, each evaluated
// several times in FRESH runners over every data variant (incl. "no map"):
// nothing a previous runner did may be visible.
func TestC08FreshRunners(t *testing.T) {
	run := h.Begin("C08", "fresh-runners", "bounded-exhaustive: 14 programs that read and assign $-locals ('$n = ($n ?? 0) + 1', '$seen', '[$p, $q]', '$s = s, $s', ...) x the three data variants (full world, small map, no map at all) x every ordered pair (first program, second program): each evaluated in its own fresh runner, the pair repeated three times; oracle: the second program's result never depends on the first having run in another runner, and repeating gives identical results; every case non-trivial")
	defer run.End(t)
	progs := []string{"$n = ($n ?? 0) + 1", "$n", "$seen = 'leaked'", "$seen", "[$p, $q]", "$p = 1, $q = $p + 1, [$p, $q]", "$s = s, $s", "$n ?? 'unset'", "typeof $n", "!!$seen",
		"$acc = [$acc, 1]", "$acc", "this.$n", "$n === null"}
	eval := func(f string, j int) string {
		p := obs.Parse([]byte(f))
		r := formula.NewRunner()
		switch j {
		case 0, 1:
			r.SetThis(c08Data(j))
		case 3:
			r.SetThis(nil)
		}
		v, e := outcomeKey(obs.Eval(r, context.Background(), p.Src.Expression))
		return v + "|" + e
	}
	var idx int64
	for j := 0; j < 4; j++ { // 0 world, 1 small map, 2 never given a map, 3 SetThis(nil)
		alone := map[string]string{}
		for _, f := range progs {
			alone[f] = "" // filled lazily below, before any other program of this variant ran? no: computed per pair
		}
		for _, first := range progs {
			for _, second := range progs {
				idx++
				if !h.Mine(idx) || run.NViolations() >= 3 {
					continue
				}
				run.Count(true, fmt.Sprintf("variant%d", j))
				want := map[int]string{}
				for rep := 0; rep < 3; rep++ {
					eval(first, j)
					got := eval(second, j)
					// reference: what the second program gives on a fresh runner with an explicitly fresh, equal map
					if rep == 0 {
						want[0] = got
					} else if got != want[0] {
						c := pureCase{Texts: []string{mkTextCase(second, "").Text}, Unrelated: []string{mkTextCase(first, "").Text}, Actions: []pureAction{{"eval", 0, j % 3}, {"unrelated", 0, j % 3}, {"eval", 0, j % 3}}}
						run.Fail("c08", c, fmt.Sprintf("data variant %d: %q in a fresh runner gave %s, and after %q had run in another fresh runner it gives %s", j, second, want[0], first, got))
						break
					}
				}
				if idx%97 == 0 {
					run.Sample("fresh", first+" ;; "+second)
				}
			}
		}
	}
	// absolute expectation for the canonical leak probe: three fresh map-less runners all give 1
	if h.Mine(0) {
		for j := 2; j < 4; j++ {
			for rep := 0; rep < 3; rep++ {
				if got := eval("$n = ($n ?? 0) + 1", j); !strings.HasPrefix(got, "float64(1)|") {
					c := pureCase{Texts: []string{mkTextCase("$n = ($n ?? 0) + 1", "").Text}, Actions: []pureAction{{"eval", 0, 2}, {"eval", 0, 2}, {"eval", 0, 2}}}
					run.Fail("c08", c, fmt.Sprintf("'$n = ($n ?? 0) + 1' on fresh runner #%d without a map gives %s, want 1 every time", rep+1, got))
					break
				}
			}
		}
	}
	run.Exhaustive()
}

// ---- cross-process order independence --------------------------------------

// batteryOutcome evaluates (or parses) one battery program in this process.
func batteryOutcome(f string) string {
	p := obs.Parse([]byte(f))
	if !p.OK() {
		return fmt.Sprintf("parse-error panic=%v err=%v", p.Panic, p.Err)
	}
	r := formula.NewRunner()
	r.SetThis(c08Data(0))
	v, e := outcomeKey(obs.Eval(r, context.Background(), p.Src.Expression))
	return v + "|" + e
}

// TestC08ChildBattery is the child side: it evaluates the battery in the order
// given by VERIF_C08_ORDER (comma separated indices) and prints one line per program.
func TestC08ChildBattery(t *testing.T) {
	order := os.Getenv("VERIF_C08_ORDER")
	if order == "" {
		t.Skip("child mode only")
	}
	bat := c08Battery()
	for _, fld := range strings.Split(order, ",") {
		i, err := strconv.Atoi(fld)
		if err != nil || i < 0 || i >= len(bat) {
			continue
		}
		fmt.Printf("C08OUT\t%d\t%s\n", i, strconv.Quote(batteryOutcome(bat[i])))
	}
}

func runChildBattery(order []int) (map[int]string, error) {
	var parts []string
	for _, i := range order {
		parts = append(parts, strconv.Itoa(i))
	}
	cmd := exec.Command(os.Args[0], "-test.run", "^TestC08ChildBattery$", "-test.count=1")
	cmd.Env = append(os.Environ(), "VERIF_C08_ORDER="+strings.Join(parts, ","), "VERIF_OUT=")
	outb, err := cmd.CombinedOutput()
	res := map[int]string{}
	for _, line := range strings.Split(string(outb), "\n") {
		f := strings.SplitN(line, "\t", 3)
		if len(f) == 3 && f[0] == "C08OUT" {
			i, _ := strconv.Atoi(f[1])
			res[i] = f[2]
		}
	}
	if len(res) == 0 {
		return nil, fmt.Errorf("child produced no outcomes: %v %s", err, string(outb[:min(len(outb), 300)]))
	}
	return res, nil
}

type crossCase struct {
	OrderA []int `json:"order_a"`
	OrderB []int `json:"order_b"`
}

func checkCross(c crossCase) string {
	a, errA := runChildBattery(c.OrderA)
	b, errB := runChildBattery(c.OrderB)
	if errA != nil || errB != nil {
		return "" // harness trouble is not a violation
	}
	bat := c08Battery()
	for i, oa := range a {
		if ob, ok := b[i]; ok && oa != ob {
			return fmt.Sprintf("%q gives %s in a fresh process that evaluated the battery in one order and %s in a fresh process that used another order: the result depends on what was parsed / evaluated before", bat[i], oa, ob)
		}
	}
	return ""
}

func init() {
	h.RegisterReplay("c08-cross", func(raw json.RawMessage) string {
		c, err := h.Decode[crossCase](raw)
		if err != nil {
			return "bad replay: " + err.Error()
		}
		return checkCross(c)
	})
}

// TestC08CrossProcess: the battery (evaluations and rejected texts) is run in
// two fresh child processes in different orders; every program must give the
// same outcome in both. Unlike an in-process repetition this also sees state
// that is set once, by whichever program happens to come first.
func TestC08CrossProcess(t *testing.T) {
	bat := c08Battery()
	run := h.Begin("C08", "cross-process", fmt.Sprintf("the battery of %d state-sensitive programs and rejected texts is evaluated in two fresh child processes, once in a random order and once in the reverse order (plus a rotated order); oracle: every program's outcome (value, evaluation error or parse error text) is identical in both processes; every program counts as non-trivial", len(bat)))
	defer run.End(t)
	h.RapidSetup(h.N(2, 12), "c08cross")
	rapid.Check(t, func(rt *rapid.T) {
		perm := rapid.Permutation(seqInts(len(bat))).Draw(rt, "order")
		rev := make([]int, len(perm))
		for i, v := range perm {
			rev[len(perm)-1-i] = v
		}
		c := crossCase{OrderA: perm, OrderB: rev}
		for _, i := range perm {
			run.CountKey(bat[i], true, "")
		}
		run.Sample("battery", bat[perm[0]])
		if msg := checkCross(c); msg != "" {
			run.Pending("cross", "c08-cross", c, msg)
			rt.Fatalf("%s", msg)
		}
	})
}
