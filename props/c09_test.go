package props

import (
	"context"
	"encoding/json"
	"fmt"
	"os"
	"os/exec"
	"path/filepath"
	"runtime"
	"sort"
	"strings"
	"sync"
	"sync/atomic"
	"testing"
	"time"

	"github.com/aundis/formula"
	"pgregory.net/rapid"

	"verif/internal/h"
	"verif/internal/obs"
	"verif/internal/ref"
)

// C09 — a parsed formula can be shared across goroutines.
//
// The test binary for this property is built with -race; the driver sets
// GORACE=halt_on_error=1 so that the first detected race ends the process with
// exit code 66, and turns that into a violation whose replay file is the
// workload written to $VERIF_OUT/current_case.json before it started.

type workload struct {
	Texts []string `json:"texts_quoted"`
	G     int      `json:"goroutines"`
	Iter  int      `json:"iterations"`
	Procs int      `json:"gomaxprocs"`
	Warm  bool     `json:"neutral_warmup,omitempty"` // see runWorkload
	Cold  bool     `json:"cold_start,omitempty"`     // run as the first thing a fresh process does (TestC09ColdStart)
}

func writeCurrentCase(kind, property string, c interface{}) {
	dir := os.Getenv("VERIF_OUT")
	if dir == "" {
		return
	}
	raw, _ := json.Marshal(c)
	rep := h.Replay{Property: property, Kind: kind, Msg: "the process died while this case was running", Case: raw}
	data, _ := json.MarshalIndent(rep, "", " ")
	os.MkdirAll(dir, 0o755)
	i, _ := h.Shard()
	os.WriteFile(filepath.Join(dir, fmt.Sprintf("current_case.%d.json", i)), data, 0o644)
}

// runWorkload executes the workload; returns a message on a wrong result and
// the maximum number of goroutines observed inside Resolve on one tree at once.
//
// Nothing of the library runs sequentially before the goroutines do: phase A
// has every goroutine parse every text at the same time (the copies of
// goroutine 0 become the shared trees), phase B has them evaluate and analyse
// the shared trees, and only afterwards is the sequential baseline computed
// (on separately parsed copies) and compared with what the goroutines saw.
// The first workload of a process therefore also meets every piece of lazily
// initialised state in the library for the first time under concurrency.
func runWorkload(w workload) (msg string, maxInflight int32, evals int64) {
	prev := runtime.GOMAXPROCS(w.Procs)
	defer runtime.GOMAXPROCS(prev)
	var texts []string
	for _, q := range w.Texts {
		texts = append(texts, textCase{Text: q}.text())
	}
	// phase A: concurrent parsing
	parsed := make([][]obs.ParseOut, w.G)
	rejected := make([][]string, w.G)
	{
		start := make(chan struct{})
		var wg sync.WaitGroup
		for g := 0; g < w.G; g++ {
			wg.Add(1)
			go func(g int) {
				defer wg.Done()
				<-start
				for _, tx := range texts {
					parsed[g] = append(parsed[g], obs.Parse([]byte(tx)))
				}
				// the same rejected text, long enough for the parses to overlap, each goroutine with its own copy:
				// every caller gets its own source, diagnostics and line table, and formats them itself
				for _, bad := range c09Rejected {
					p := obs.Parse([]byte(bad))
					desc := fmt.Sprintf("%v", p.Err)
					if p.Src != nil && len(p.Src.Diagnostics) > 0 {
						desc += " | " + formula.FormatDiagnostic(p.Src, p.Src.Diagnostics[0])
						desc += fmt.Sprintf(" | ndiag=%d", len(p.Src.Diagnostics))
					}
					rejected[g] = append(rejected[g], desc)
				}
			}(g)
		}
		close(start)
		wg.Wait()
	}
	for k, bad := range c09Rejected {
		p := obs.Parse([]byte(bad))
		want := fmt.Sprintf("%v", p.Err)
		if p.Src != nil && len(p.Src.Diagnostics) > 0 {
			want += " | " + formula.FormatDiagnostic(p.Src, p.Src.Diagnostics[0])
			want += fmt.Sprintf(" | ndiag=%d", len(p.Src.Diagnostics))
		}
		for g := 0; g < w.G; g++ {
			if rejected[g][k] != want {
				return fmt.Sprintf("goroutine %d: concurrent parse of a rejected text of %d bytes reported %s, sequentially it reports %s", g, len(bad), rejected[g][k], want), 0, 0
			}
		}
	}
	trees := make([]*formula.SourceCode, 0, len(texts))
	for i, tx := range texts {
		for g := 0; g < w.G; g++ {
			if !parsed[g][i].OK() || (g > 0 && obs.Dump(parsed[g][i].Src.Expression) != obs.Dump(parsed[0][i].Src.Expression)) {
				if q := obs.Parse([]byte(tx)); !q.OK() {
					return "HARNESS: workload text does not parse: " + tx, 0, 0
				}
				return fmt.Sprintf("goroutine %d: concurrent parse of %q gave %v %v, sequentially it parses (or goroutines got different trees)", g, tx, parsed[g][i].Err, parsed[g][i].Panic), 0, 0
			}
		}
		trees = append(trees, parsed[0][i].Src)
	}
	if w.Warm {
		// Optional neutral warm-up (every other cold start): undefined names only, so that sync.Map's
		// internal promotion (its first lookups go through a mutex, which staggers the goroutines)
		// is over before the barrier drops, without touching any builtin or conversion.
		wt := obs.Parse([]byte("zz1 ?? zz2")).Src.Expression
		for k := 0; k < 300; k++ {
			obs.Eval(formula.NewRunner(), context.Background(), wt)
		}
	}
	salted := make([]bool, len(trees))
	for i, tx := range texts {
		salted[i] = strings.Contains(tx, "salt")
	}
	type evalResult struct {
		ti, j  int
		salted bool
		salt   string
		saltn  int
		got    string
	}
	type fieldResult struct {
		ti  int
		got string
	}
	evalResults := make([][]evalResult, w.G)
	fieldResults := make([][]fieldResult, w.G)
	inflight := make([]int32, len(trees))
	var maxSeen int32
	var total int64
	var mu sync.Mutex
	var firstMsg string
	report := func(m string) {
		mu.Lock()
		if firstMsg == "" {
			firstMsg = m
		}
		mu.Unlock()
	}
	start := make(chan struct{})
	var wg sync.WaitGroup
	for g := 0; g < w.G; g++ {
		wg.Add(1)
		go func(g int) {
			defer wg.Done()
			<-start
			for it := 0; it < w.Iter; it++ {
				for k := range trees {
					ti := (k + g) % len(trees) // goroutines start at different trees but all visit all
					if it == 0 {
						ti = k // first pass: everybody hits the same tree first (lazy initialisation races)
					}
					j := (it + g) % 3
					salt, saltn := fmt.Sprintf("g%di%dk%d", g, it, k), g*1000+it
					r := formula.NewRunner()
					d := c08Data(j)
					if d != nil {
						if salted[ti] {
							d["salt"], d["saltn"] = salt, saltn
							d["whoami"] = c09WhoAmI
							d["nested"] = c09Nested
							r.Set("who", salt)
						}
						r.SetThis(d)
					}
					cur := atomic.AddInt32(&inflight[ti], 1)
					for {
						m := atomic.LoadInt32(&maxSeen)
						if cur <= m || atomic.CompareAndSwapInt32(&maxSeen, m, cur) {
							break
						}
					}
					ctx := context.Background()
					if salted[ti] && d != nil {
						ctx = c09Ctx(r, saltn)
					}
					out := obs.Eval(r, ctx, trees[ti].Expression)
					atomic.AddInt32(&inflight[ti], -1)
					atomic.AddInt64(&total, 1)
					v, e := outcomeKey(out)
					if len(evalResults[g]) < 4000 {
						evalResults[g] = append(evalResults[g], evalResult{ti, j, salted[ti] && d != nil, salt, saltn, v + "|" + e})
					}
					if (it+k)%3 == 0 {
						fs, err := formula.ResolveReferenceFields(trees[ti])
						sort.Strings(fs)
						if len(fieldResults[g]) < 2000 {
							fieldResults[g] = append(fieldResults[g], fieldResult{ti, fmt.Sprintf("%v|%v", fs, err)})
						}
						formula.ResolveReferenceFieldsNotLocal(trees[ti])
					}
				}
				// this goroutine's own texts with non-ASCII identifiers (range-table lookups), scanned, parsed and classified
				uni := fmt.Sprintf("\u540d\u5b57%d + gr\u00f6\u00dfe * \u0446\u0435\u043d\u0430 - \u03b1\u03bb\u03c6\u03b1.\u00e9\u00e8(\u4e2d\u6587%d)", g, it)
				if pu := obs.Parse([]byte(uni)); !pu.OK() {
					report(fmt.Sprintf("goroutine %d: concurrent parse of %q failed: %v %v", g, uni, pu.Err, pu.Panic))
					return
				}
				for _, c := range []rune{0x540d, 0xe9, 0x3b1, 0x446, 0xffdc, 0x2028, 0xa0, 0x300, rune(0x4e00 + g + it)} {
					if formula.IsIdentifierStart(c) != ref.IsIDStart(c) || formula.IsIdentifierPart(c) != ref.IsIDPart(c) || formula.IsWhiteSpace(c) != ref.IsSpace(c) || formula.IsLineBreak(c) != ref.IsNL(c) {
						report(fmt.Sprintf("goroutine %d: class predicate for U+%04X differs under concurrency", g, c))
						return
					}
				}
				// parse and format errors for this goroutine's own texts
				own := fmt.Sprintf("a%d + (b%d *\n %s", g, it, texts[(g+it)%len(texts)])
				p := obs.Parse([]byte(own))
				if p.Src != nil && len(p.Src.Diagnostics) > 0 {
					formula.FormatDiagnostic(p.Src, p.Src.Diagnostics[0])
				}
				if q := obs.Parse([]byte(texts[(g+it)%len(texts)])); !q.OK() {
					report(fmt.Sprintf("goroutine %d: concurrent parse of %q failed: %v %v", g, texts[(g+it)%len(texts)], q.Err, q.Panic))
					return
				} else if d := obs.Dump(q.Src.Expression); d != obs.Dump(trees[(g+it)%len(texts)].Expression) {
					report(fmt.Sprintf("goroutine %d: concurrent parse of %q gave a different tree", g, texts[(g+it)%len(texts)]))
					return
				}
			}
		}(g)
	}
	close(start)
	done := make(chan struct{})
	go func() { wg.Wait(); close(done) }()
	last, still := int64(-1), 0
wait:
	for {
		select {
		case <-done:
			break wait
		case <-time.After(time.Second):
			if now := atomic.LoadInt64(&total); now != last {
				last, still = now, 0
			} else if still++; still >= 90 {
				// not one evaluation has completed for 90 s while goroutines are still inside: they wait for each other
				return fmt.Sprintf("%d goroutines evaluating concurrently: after %d evaluations none completed for 90 s - the evaluations block one another (sequentially each returns at once)", w.G, now), atomic.LoadInt32(&maxSeen), now
			}
		}
	}
	if firstMsg != "" {
		return firstMsg, atomic.LoadInt32(&maxSeen), atomic.LoadInt64(&total)
	}
	// phase C: the sequential truth, on separately parsed copies
	fresh := make([]*formula.SourceCode, len(texts))
	for i, tx := range texts {
		fresh[i] = obs.Parse([]byte(tx)).Src
	}
	baseEval := map[[2]int]string{}
	baseFields := map[int]string{}
	nSalted := 0
	for g := range evalResults {
		for _, er := range evalResults[g] {
			var want string
			if er.salted {
				if nSalted++; nSalted > 20000 {
					continue
				}
				d := c08Data(er.j)
				d["salt"], d["saltn"] = er.salt, er.saltn
				d["whoami"] = c09WhoAmI
				d["nested"] = c09Nested
				r := formula.NewRunner()
				r.Set("who", er.salt)
				r.SetThis(d)
				v, e := outcomeKey(obs.Eval(r, c09Ctx(r, er.saltn), fresh[er.ti].Expression))
				want = v + "|" + e
			} else {
				key := [2]int{er.ti, er.j}
				b, ok := baseEval[key]
				if !ok {
					r := formula.NewRunner()
					if d := c08Data(er.j); d != nil {
						r.SetThis(d)
					}
					v, e := outcomeKey(obs.Eval(r, context.Background(), fresh[er.ti].Expression))
					b = v + "|" + e
					baseEval[key] = b
				}
				want = b
			}
			if er.got != want {
				what := fmt.Sprintf("data variant %d", er.j)
				if er.salted {
					what = fmt.Sprintf("salt %q", er.salt)
				}
				return fmt.Sprintf("goroutine %d: concurrent evaluation of %q (%s) gave %s, sequentially it gives %s", g, texts[er.ti], what, er.got, want), atomic.LoadInt32(&maxSeen), atomic.LoadInt64(&total)
			}
		}
		for _, fr := range fieldResults[g] {
			b, ok := baseFields[fr.ti]
			if !ok {
				fs, err := formula.ResolveReferenceFields(fresh[fr.ti])
				sort.Strings(fs)
				b = fmt.Sprintf("%v|%v", fs, err)
				baseFields[fr.ti] = b
			}
			if fr.got != b {
				return fmt.Sprintf("goroutine %d: concurrent field analysis of %q gave %s, sequentially %s", g, texts[fr.ti], fr.got, b), atomic.LoadInt32(&maxSeen), atomic.LoadInt64(&total)
			}
		}
	}
	return "", atomic.LoadInt32(&maxSeen), atomic.LoadInt64(&total)
}

// c09Rejected: rejected texts that all goroutines parse at the same time.
var c09Rejected = []string{strings.Repeat("amount * rate +\n", 1500) + "(total", "a ? b\r\n", strings.Repeat("[x,\u2028", 400) + "1 2"}

// c09Inner is the formula c09Nested evaluates.
var c09Inner = obs.Parse([]byte("max(n, 2) * 10 + len(s)")).Src

// c09Nested is a host function that evaluates a formula of its own, the way a
// host computes a derived field on demand.
func c09Nested(ctx context.Context, n int) (int, error) {
	r := formula.NewRunner()
	r.SetThis(map[string]interface{}{"n": n, "s": "xy"})
	v, err := r.Resolve(ctx, c09Inner.Expression)
	if err != nil {
		return 0, err
	}
	f, _ := v.(float64)
	return int(f), nil
}

// c09WhoAmI is a host function that asks which runner is evaluating it, the way
// RunnerFromCtx offers: the runner the caller put into the context, or none.
func c09WhoAmI(ctx context.Context) (string, error) {
	r := formula.RunnerFromCtx(ctx)
	if r == nil {
		return "nobody", nil
	}
	return fmt.Sprint(r.Get("who")), nil
}

// c09Ctx: every other evaluation carries its runner in the context (under the
// key RunnerFromCtx reads), the others a bare context.
func c09Ctx(r *formula.Runner, n int) context.Context {
	if n%2 == 0 {
		return context.WithValue(context.Background(), "formulaRunner", r)
	}
	return context.Background()
}

func init() {
	h.RegisterReplay("c09", func(raw json.RawMessage) string {
		c, err := h.Decode[workload](raw)
		if err != nil {
			return "bad replay: " + err.Error()
		}
		// schedule-dependent: run the workload several times
		for i := 0; i < 5; i++ {
			if c.Cold {
				if m, _, _ := runCold(c); m != "" {
					return m
				}
			} else if m, _, _ := runWorkload(c); m != "" {
				return m
			}
		}
		return ""
	})
}

// runCold runs the workload as the first thing a fresh process does: a child
// process of this (race-enabled) test binary whose very first use of the
// library is the concurrent phase of runWorkload.
func runCold(w workload) (msg string, maxInflight int32, evals int64) {
	raw, _ := json.Marshal(w)
	ctx, cancel := context.WithTimeout(context.Background(), 5*time.Minute)
	defer cancel()
	cmd := exec.CommandContext(ctx, os.Args[0], "-test.run", "^TestC09ColdStart$", "-test.count=1", "-test.timeout=4m")
	cmd.Env = append(os.Environ(), "VERIF_C09_COLD="+string(raw), "GORACE=halt_on_error=1 exitcode=66")
	out, err := cmd.CombinedOutput()
	text := string(out)
	if ctx.Err() != nil {
		return "", 0, 0 // no verdict from a child that ran out of time (a stalled machine): not a finding
	}
	if i := strings.Index(text, "WARNING: DATA RACE"); i >= 0 {
		lines := strings.Split(text[i:], "\n")
		if len(lines) > 14 {
			lines = lines[:14]
		}
		return "race detector report in a fresh process whose first use of the library is concurrent:\n" + strings.Join(lines, "\n"), 0, 0
	}
	var res struct {
		Msg   string
		MaxIn int32
		Evals int64
	}
	if i := strings.Index(text, "COLD-RESULT "); i >= 0 {
		line := text[i+len("COLD-RESULT "):]
		if k := strings.IndexByte(line, '\n'); k >= 0 {
			line = line[:k]
		}
		if json.Unmarshal([]byte(line), &res) == nil {
			return res.Msg, res.MaxIn, res.Evals
		}
	}
	tail := text
	if len(tail) > 1500 {
		tail = tail[len(tail)-1500:]
	}
	return fmt.Sprintf("a fresh process whose first use of the library is concurrent died (%v):\n%s", err, tail), 0, 0
}

// TestC09ColdStart: lazily initialised shared state is met for the first time
// by many goroutines at once - once per process, so each case is a process.
func TestC09ColdStart(t *testing.T) {
	if v := os.Getenv("VERIF_C09_COLD"); v != "" {
		var w workload
		if err := json.Unmarshal([]byte(v), &w); err != nil {
			t.Fatalf("bad VERIF_C09_COLD: %v", err)
		}
		msg, maxIn, evals := runWorkload(w)
		raw, _ := json.Marshal(map[string]interface{}{"Msg": msg, "MaxIn": maxIn, "Evals": evals})
		fmt.Printf("COLD-RESULT %s\n", raw)
		return
	}
	run := h.Begin("C09", "cold-start", "child processes of the race-enabled test binary, one per case: the first thing the process does with the library is a workload of 8-32 goroutines released by a barrier (GOMAXPROCS 16) that first parse, then evaluate and analyse the same formulas (the fixed texts covering every builtin, conversion and operator, rotated so that each case starts with a different group; 2 iterations), with and without a neutral warm-up of the name lookup; the sequential baseline is computed afterwards; oracle: race detector (halt_on_error) + equality with the sequential results; non-trivial: >=2 goroutines measured inside Resolve on one tree at once; distinct by workload")
	defer run.End(t)
	var quoted []string
	for _, f := range fixedWorkloadTexts() {
		quoted = append(quoted, mkTextCase(f, "").Text)
	}
	n := h.N(8, 96)
	for v := 0; v < n; v++ {
		if !h.Mine(int64(v)) || run.NViolations() > 0 {
			continue
		}
		rot := (v * 5) % len(quoted)
		w := workload{Texts: append(append([]string{}, quoted[rot:]...), quoted[:rot]...), G: []int{16, 32, 8}[v%3], Iter: 2, Procs: 16, Warm: v%2 == 1, Cold: true}
		msg, maxIn, evals := runCold(w)
		key, _ := json.Marshal(w)
		for i := int64(0); i < evals-1; i++ {
			run.Count(false, "")
		}
		run.CountKey(string(key), maxIn >= 2, fmt.Sprintf("cold G=%d warm=%v", w.G, w.Warm))
		run.Sample("cold", map[string]interface{}{"goroutines": w.G, "neutral_warmup": w.Warm, "max_concurrent_on_one_tree": maxIn, "first_text": textCase{Text: w.Texts[0]}.text()})
		if msg != "" {
			run.Fail("c09", w, msg)
		}
	}
}

// fixedWorkloadTexts exercises every builtin and operator concurrently.
func fixedWorkloadTexts() []string {
	return []string{
		// every builtin with valid arguments (the whole array evaluates)
		"[date(2024, 2, 29), addDate(t, 1, 2, 3), year(t), month(t), day(t), hour(t), minute(t), second(t), weekDay(t), millSecond(t), timeFormat(t, '2006-01-02 15:04'), useTimezone(t, 'Asia/Shanghai')]",
		"[abs(0 - 1.5), ceil(1.2), exp(1), floor(0 - 1.2), ln(2), log(100), max(1, 2.5, i), min(1, 2.5, i), round(2.5), roundBank(2.5), roundCash(1.234, 2), sqrt(2), finite(1 / 0)]",
		"[startWith(s, 'he'), endWith(s, 'lo'), contains(s, 'll'), find(s, 'l'), includes(strs, 'a'), left(s, 2), right(s, 2), len(s), lower(s), upper(s), lpad(s, 'x', 8), rpad(s, 'x', 8), mid(s, 1, 3), replace(s, 'l', 'L'), trim(' x '), regexp(s, '^h')]",
		"[mapToArr(maps, 'k'), join(strs, ','), toString(1.50), toInt('12'), toFloat('1e3'), toString(t), toString(m)]",
		// misuse paths (errors) exercised concurrently as well
		"left(s, 0 - 1)", "regexp(s, '(')", "undefinedName(1)", "[1] == [1]", "st.Nope", "year(1)", "useTimezone(t, 'No/Where')", "fnE(1)", "max()",
		// errors the evaluator reports itself (not recovered panics): assignment targets, spread, arity, callee kinds, '!.' on null
		"m.a = 1", "1 = 2", "(i) = 3", "i ? (m.b = 1) : (10 + (st.Name = 2))", "fnS(strs...)", "fnV(1 ...)", "fnI()", "fnI(1, 2)", "s()", "m.zz!.k", "n!.a + np!.b", "fn0(1)", "abs()", "abs('x')", "typeof (arr = 1)",
		"$a = i + f64 * 2, $b = $a % 7, [$a, $b, $a > $b ? 'gt' : 'le', -$a, ~i, i & 6 | 1 ^ 3]",
		"[s + 1.5, s < 'z', m.b.c ?? 'none', m.zz.k]",
		// chains of asserted and plain member accesses, succeeding and failing at each link
		"[m!.b!.c, m!.b.c, m.b!.c, this!.m!.b!.c, (m!.b)!.c, m!.b!.c!.d]", "m!.zz!.k", "m!.b!.zz!.k", "st!.Name!.x ?? m!.b!.c",
		"regexp(s, '^h.*o$') && regexp('abc', '[a-c]+') && !regexp(s, '^x')",
		"[1 / 3, 2 / 3, 1e30 * 1e-30, 0.1 + 0.2 === 0.3, i64 === 9007199254740993, u64]",
		"fnSV('k', strs...), fnV(1, 2, 3), fnA(m), fnC(1.5), typeof fn0() + typeof st.Name",
		"st.Inner.Label + st.Name, [st.Age, mi.a, ms.b, np === null, ns.x]",
		"typeof ctx + typeof this.s, [this.i, !!arr, !n, +dec, -dec, ~i8]",
		// per-call data (salt differs per goroutine and iteration): exposes caches keyed by input values
		"regexp(salt, '^' + salt + '$') && regexp(s + salt, salt) && !regexp(s, '^' + salt)",
		"[upper(salt), lpad(salt, 'x', 14), replace(salt, 'g', 'G'), toFloat(salt), toString(saltn), timeFormat(t, salt), left(salt, 2) + right(salt, 2), find(salt, 'i'), len(salt)]",
		"[saltn * 1.5, saltn % 7, round(saltn / 3), roundBank(saltn / 2), max(saltn, 10), sqrt(saltn), exp(saltn / 1000), ln(saltn + 1), date(2000 + saltn % 50, saltn % 12 + 1, 1), toInt(saltn / 7)]",
		"$v = saltn + 1, [$v, salt + $v, typeof salt, fnA(salt), fnSV(salt, saltn, $v), useTimezone(t, saltn % 2 == 0 ? 'UTC' : 'Asia/Kolkata')]",
		// redundant, directly nested parentheses (an evaluator or analysis that "looks through" them must not do so by rewriting the tree)
		"((i + f64)) * ((i64)) + (((s))) + ((( (dec) )))",
		"[((m)).a, ((st.Name)), (( ((i)) > 1 ? ((s)) : ((n)) ))]",
		// runners without a data map: `this`, then locals of their own (what one such runner binds, another never sees)
		"typeof this, $wa = 1, $wb ?? 'none'",
		"typeof this, $wb = 2, $wa ?? 'none'",
		"[this.zz, $wc = (($wc ?? 0) + 1), typeof this]",
		// several arguments that are calls of context-taking host functions, binding and reading a local on the way:
		// one evaluation is one goroutine's business, left to right
		"fnV(fnC($q = saltn), fnC($q), fnC($q = 2), fnC($q + 0))",
		"fnSV(salt, nested(saltn % 5), nested($r = 3), nested($r))",
		// a host function that evaluates another formula (on a runner of its own) while the outer evaluation waits for it
		"[nested(saltn), nested(saltn % 7) + 1, salt]",
		// a host function that asks for "its" runner (RunnerFromCtx): the one its caller put into the context, or none
		"[whoami(), salt, whoami() == salt || whoami() == 'nobody', fnC(saltn) + 0]",
		// deep trees: a 150-term sum, 40 nested calls, a 60-step conditional ladder (many evaluator frames in flight at once)
		"i" + strings.Repeat(" + f64 + 1", 75),
		strings.Repeat("abs(", 40) + "0 - saltn" + strings.Repeat(")", 40),
		strings.Repeat("i > 100 ? 0 : ", 60) + "saltn",
	}
}

// TestC09Concurrent: workloads under the race detector.
func TestC09Concurrent(t *testing.T) {
	run := h.Begin("C09", "concurrent", "workloads = (4-12 shared parsed formulas: fixed ones covering every builtin and operator plus rapid-generated ones from the C08 grammar; G in {2,4,8,16,32} goroutines released by a barrier; 20-200 iterations; GOMAXPROCS in {2,4,16}); every goroutine evaluates every shared tree with its own runner and its own freshly built data, analyses the shared trees, and parses / formats errors for its own texts; oracle: (1) the Go race detector (binary built with -race, GORACE=halt_on_error: a report ends the process and becomes a violation with the workload as replay), (2) every concurrent result equals the sequential baseline; evaluations = goroutine-level evaluations; non-trivial: a workload in which >=2 goroutines were measured inside Resolve on the same tree at the same time; distinct by workload")
	defer run.End(t)
	fixed := fixedWorkloadTexts()
	var quoted []string
	for _, f := range fixed {
		quoted = append(quoted, mkTextCase(f, "").Text) // not parsed here: the first parse happens inside the first workload
	}
	doRun := func(w workload, pending func(string)) {
		writeCurrentCase("c09", "C09", w)
		msg, maxIn, evals := runWorkload(w)
		key, _ := json.Marshal(w)
		for i := int64(0); i < evals-1; i++ {
			run.Count(false, "")
		}
		run.CountKey(string(key), maxIn >= 2, fmt.Sprintf("G=%d procs=%d", w.G, w.Procs))
		run.Sample(fmt.Sprintf("G=%d", w.G), map[string]interface{}{"goroutines": w.G, "iterations": w.Iter, "gomaxprocs": w.Procs, "trees": len(w.Texts), "max_concurrent_on_one_tree": maxIn, "first_text": textCase{Text: w.Texts[0]}.text()})
		if msg != "" {
			pending(msg)
		}
	}
	si, sn := h.Shard()
	k := 0
	for _, g := range []int{2, 4, 8, 16, 32} {
		for _, procs := range []int{2, 4, 16} {
			k++
			if k%sn != si {
				continue
			}
			if h.Tier() == "quick" && (g == 32 || g == 2 && procs == 16) {
				continue
			}
			w := workload{Texts: quoted, G: g, Iter: h.N(20, 120), Procs: procs}
			doRun(w, func(m string) { run.Fail("c09", w, m) })
			if run.NViolations() > 0 {
				return
			}
		}
	}
	h.RapidSetup(h.N(6, 160), "c09")
	rapid.Check(t, func(rt *rapid.T) {
		var w workload
		n := rapid.IntRange(4, 12).Draw(rt, "ntrees")
		for i := 0; i < n; i++ {
			txt, _ := genPureText(rt, rapid.IntRange(2, 5).Draw(rt, "depth"))
			w.Texts = append(w.Texts, mkTextCase(txt, "").Text)
		}
		w.G = rapid.SampledFrom([]int{2, 4, 8, 16, 32}).Draw(rt, "g")
		w.Iter = rapid.IntRange(20, h.N(60, 200)).Draw(rt, "iter")
		w.Procs = rapid.SampledFrom([]int{2, 4, 16}).Draw(rt, "procs")
		doRun(w, func(m string) {
			run.Pending("conc", "c09", w, m)
			rt.Fatalf("%s", m)
		})
	})
}

// droppedCase: trees whose *SourceCode the caller dropped, used after a collection while other texts are parsed.
type droppedCase struct {
	Texts []string `json:"texts"`
	Noise []string `json:"noise"`
}

// expressionOnly parses a text and returns the expression alone - all Resolve needs; the *SourceCode is
// unreachable once the function has returned.
//
//go:noinline
func expressionOnly(text string) formula.Expression {
	src, err := formula.ParseSourceCode([]byte(text))
	if err != nil {
		return nil
	}
	return src.Expression
}

func checkDropped(c droppedCase) string {
	// when a finalizer runs and what a pool still holds is a matter of timing: several attempts
	for attempt := 0; attempt < 8; attempt++ {
		if msg := checkDroppedAfter(c, 1+attempt%2); msg != "" {
			return msg
		}
	}
	return ""
}

func checkDroppedAfter(c droppedCase, gcs int) string {
	data := func() map[string]interface{} {
		return map[string]interface{}{"price": 3, "quantity": 4, "name": "widget", "tags": []interface{}{"a", "b"}, "m": map[string]interface{}{"k": 5}}
	}
	type shared struct {
		text string
		expr formula.Expression
		want string
	}
	var trees []shared
	for _, tx := range c.Texts {
		expr := expressionOnly(tx)
		if expr == nil {
			return "HARNESS: " + tx
		}
		r := formula.NewRunner()
		r.SetThis(data())
		trees = append(trees, shared{tx, expr, obs.Eval(r, context.Background(), expr).String()})
	}
	// one collection and a pause: what a finalizer released is then in reach of the next parse (a second
	// collection would already empty a sync.Pool again) - the second pass of the caller uses two
	for i := 0; i < gcs; i++ {
		runtime.GC()
		time.Sleep(20 * time.Millisecond)
	}
	var mu sync.Mutex
	msg := ""
	var wg sync.WaitGroup
	for g := 0; g < 8; g++ {
		wg.Add(1)
		go func(g int) {
			defer wg.Done()
			for round := 0; round < 40; round++ {
				for _, nz := range c.Noise {
					formula.ParseSourceCode([]byte(nz))
				}
				for _, tr := range trees {
					r := formula.NewRunner()
					r.SetThis(data())
					if got := obs.Eval(r, context.Background(), tr.expr).String(); got != tr.want {
						mu.Lock()
						if msg == "" {
							msg = fmt.Sprintf("%q was parsed, evaluated to %s, its *SourceCode was dropped (the expression kept); after a garbage collection and parses of other texts the same expression evaluates to %s", tr.text, tr.want, got)
						}
						mu.Unlock()
						return
					}
				}
				if round%8 == 0 {
					runtime.GC()
				}
			}
		}(g)
	}
	wg.Wait()
	return msg
}

func init() {
	h.RegisterReplay("c09-dropped", func(raw json.RawMessage) string {
		c, err := h.Decode[droppedCase](raw)
		if err != nil {
			return "bad replay: " + err.Error()
		}
		return checkDropped(c)
	})
}

// TestC09DroppedSource: a parsed expression is immutable data that stands on its own - callers keep
// source.Expression (the suite itself does) and let the *SourceCode go.
func TestC09DroppedSource(t *testing.T) {
	if os.Getenv("VERIF_CHILD") != "" {
		return
	}
	if i, _ := h.Shard(); i != 0 {
		return
	}
	run := h.Begin("C09", "dropped-source", "enumerated: 3 sets of formulas parsed once, only their Expression kept; after garbage collections 8 goroutines parse other texts of the same lengths and evaluate the shared expressions 40 times each on runners of their own; oracle: the result of the first evaluation, every time; every case non-trivial")
	defer run.End(t)
	cases := []droppedCase{
		{Texts: []string{"price * quantity + 100", "name + '-' + len(tags)", "[price, quantity, m.k]"}, Noise: []string{"alpha - beta / 3 + gamma", "zzzzz + '#' + len(yyyy)", "[aaaaa, bbbbbbbb, c.d]"}},
		{Texts: []string{"price", "12345.678 + price", "m.k ?? 'none'", "$t = quantity, $t * $t"}, Noise: []string{"other", "99999.999 + other", "q.z ?? 'xxxx'", "$u = something, $u + $u"}},
		{Texts: []string{"upper(name) + lower('ABC') + left(name, 3)", "(price > 2 ? quantity : 0) + max(price, quantity, 1e3)"}, Noise: []string{"lower(eman) + upper('xyz') + right(eman, 2)", "(ecirp < 9 ? ytitnauq : 1) + min(ecirp, ytitnauq, 2e5)"}},
	}
	for _, c := range cases {
		run.Count(true, "set")
		run.Sample("set", strings.Join(c.Texts, " ; "))
		if msg := checkDropped(c); msg != "" {
			run.Fail("c09-dropped", c, msg)
		}
	}
	run.Exhaustive()
}
