package props

import (
	"context"
	"encoding/json"
	"fmt"
	"reflect"
	"sort"
	"strings"
	"testing"
	"time"

	"github.com/aundis/formula"
	"github.com/ericlagergren/decimal"
	"pgregory.net/rapid"

	"verif/internal/h"
	"verif/internal/obs"
	"verif/internal/ref"
	"verif/internal/spec"
)

// C10 — referenced-field analysis is exact and sufficient.

// expectedFields walks the generated AST independently of the implementation.
// must: names/paths read as values. may: names that occur as assignment targets
// (written, possibly never read). refused: member access on something that is
// not a name or path sits in a value position.
type fieldSets struct {
	must    map[string]bool
	may     map[string]bool
	callees map[string]bool // top-level names of callees
	refused bool
	this    bool
}

func pathOf(n *ref.Node) ([]string, bool) {
	switch n.Kind {
	case "id":
		return []string{n.Val}, true
	case "sel":
		p, ok := pathOf(n.Kids[0])
		if !ok {
			return nil, false
		}
		return append(p, n.Val), true
	}
	return nil, false
}

func (fs *fieldSets) walk(n *ref.Node) {
	switch n.Kind {
	case "id":
		fs.must[n.Val] = true
	case "kw":
		if n.Op == "this" {
			fs.this = true
		}
	case "num", "str":
	case "sel":
		if p, ok := pathOf(n); ok {
			fs.must[strings.Join(p, ".")] = true
		} else {
			fs.refused = true
			n.Walk(func(x *ref.Node) {
				if x.Kind == "kw" && x.Op == "this" {
					fs.this = true
				}
			})
		}
	case "call":
		if p, ok := pathOf(n.Kids[0]); ok {
			fs.callees[p[0]] = true
		} else {
			// a callee that is not a name or path: its contents are left open (such a formula can only fail)
			n.Kids[0].Walk(func(x *ref.Node) {
				if x.Kind == "id" {
					fs.may[x.Val] = true
				}
				if x.Kind == "sel" {
					if p, ok := pathOf(x); ok {
						fs.may[strings.Join(p, ".")] = true
					}
				}
				if x.Kind == "kw" && x.Op == "this" {
					fs.this = true
				}
			})
		}
		for _, a := range n.Kids[1:] {
			fs.walk(a)
		}
	case "bin":
		if n.Op == "=" && n.Kids[0].Kind == "id" {
			fs.may[n.Kids[0].Val] = true
			fs.walk(n.Kids[1])
			return
		}
		fs.walk(n.Kids[0])
		fs.walk(n.Kids[1])
	default:
		for _, k := range n.Kids {
			fs.walk(k)
		}
	}
}

func expectedFields(n *ref.Node) *fieldSets {
	fs := &fieldSets{must: map[string]bool{}, may: map[string]bool{}, callees: map[string]bool{}}
	fs.walk(n)
	return fs
}

func setOf(xs []string) (map[string]bool, string) {
	m := map[string]bool{}
	for _, x := range xs {
		if m[x] {
			return m, x
		}
		m[x] = true
	}
	return m, ""
}

func sortedKeys(m map[string]bool) []string {
	var out []string
	for k := range m {
		out = append(out, k)
	}
	sort.Strings(out)
	return out
}

// checkFields: exactness of both analysis functions.
func checkFields(text string, ast *ref.Node) string {
	p := obs.Parse([]byte(text))
	if !p.OK() {
		return fmt.Sprintf("HARNESS: %q does not parse: %v", text, p.Err)
	}
	fs := expectedFields(ast)
	var all, notLocal []string
	var e1, e2 error
	var pan interface{}
	func() {
		defer func() { pan = recover() }()
		all, e1 = formula.ResolveReferenceFields(p.Src)
		notLocal, e2 = formula.ResolveReferenceFieldsNotLocal(p.Src)
	}()
	if pan != nil {
		return fmt.Sprintf("field analysis of %q panicked: %v", text, pan)
	}
	if fs.refused {
		if e1 == nil || e2 == nil {
			return fmt.Sprintf("%q has member access on something that is not a name or path, but the analysis returned %v / %v (errors %v / %v)", text, all, notLocal, e1, e2)
		}
		return ""
	}
	if e1 != nil || e2 != nil {
		return fmt.Sprintf("analysis of %q failed: %v / %v", text, e1, e2)
	}
	got, dup := setOf(all)
	if dup != "" {
		return fmt.Sprintf("analysis of %q reports %q twice: %v", text, dup, all)
	}
	for k := range fs.must {
		if !got[k] {
			return fmt.Sprintf("analysis of %q = %v misses %q (read as a value); expected %v", text, all, k, sortedKeys(fs.must))
		}
	}
	for k := range got {
		if !fs.must[k] && !fs.may[k] {
			return fmt.Sprintf("analysis of %q = %v reports %q, which is not read as a value; expected %v", text, all, k, sortedKeys(fs.must))
		}
	}
	gotNL, dup := setOf(notLocal)
	if dup != "" {
		return fmt.Sprintf("non-local analysis of %q reports %q twice: %v", text, dup, notLocal)
	}
	for k := range got {
		if want := !strings.HasPrefix(k, "$"); gotNL[k] != want {
			return fmt.Sprintf("non-local analysis of %q = %v, but the full set is %v (entry %q)", text, notLocal, all, k)
		}
	}
	for k := range gotNL {
		if !got[k] {
			return fmt.Sprintf("non-local analysis of %q = %v contains %q, which the full analysis %v does not", text, notLocal, k, all)
		}
	}
	// stability: calling the two functions again, in the other order, on the same source gives the same sets,
	// and slices returned earlier are not disturbed by later calls
	allBefore := fmt.Sprint(sortedCopy(all))
	nl2, _ := formula.ResolveReferenceFieldsNotLocal(p.Src)
	all2, _ := formula.ResolveReferenceFields(p.Src)
	if fmt.Sprint(sortedCopy(all)) != allBefore {
		return fmt.Sprintf("a later analysis call changed the slice returned earlier for %q: now %v, was %v", text, all, allBefore)
	}
	if fmt.Sprint(sortedCopy(all2)) != allBefore || fmt.Sprint(sortedCopy(nl2)) != fmt.Sprint(sortedCopy(notLocal)) {
		return fmt.Sprintf("repeating the analysis of %q gives %v / %v, the first time %v / %v", text, all2, nl2, all, notLocal)
	}
	return ""
}

func sortedCopy(xs []string) []string {
	out := append([]string{}, xs...)
	sort.Strings(out)
	return out
}

// ---- sufficiency ------------------------------------------------------------

func c10World() map[string]spec.V {
	w := worldSpec()
	delete(w, "$loc")
	// names outside ASCII are names like any other
	w["\u540d\u79f0"] = spec.V{K: "map", M: map[string]spec.V{"\u91d1\u989d": {K: "int", S: "200"}, "a": {K: "string", S: "in"}}}
	w["\u00e9t\u00e9"] = spec.V{K: "int", S: "7"}
	w["\u0446\u0435\u043d\u0430"] = spec.V{K: "float64", S: "2.5"}
	return w
}

func normResult(v interface{}) interface{} {
	var b strings.Builder
	normValue(&b, reflect.ValueOf(v), 0)
	return b.String()
}

// normValue renders a value without addresses (functions render as "func").
func normValue(b *strings.Builder, v reflect.Value, depth int) {
	if !v.IsValid() {
		b.WriteString("null")
		return
	}
	if depth > 10 {
		b.WriteString("...")
		return
	}
	if v.CanInterface() {
		switch x := v.Interface().(type) {
		case *decimal.Big:
			if x == nil {
				b.WriteString("null")
			} else {
				b.WriteString("dec:" + x.String())
			}
			return
		case time.Time:
			b.WriteString("time:" + x.Format(time.RFC3339Nano))
			return
		}
	}
	switch v.Kind() {
	case reflect.Interface, reflect.Ptr:
		if v.IsNil() {
			b.WriteString("null")
			return
		}
		normValue(b, v.Elem(), depth+1)
	case reflect.Map:
		keys := v.MapKeys()
		sort.Slice(keys, func(i, j int) bool { return fmt.Sprint(keys[i].Interface()) < fmt.Sprint(keys[j].Interface()) })
		b.WriteString("map{")
		for _, k := range keys {
			fmt.Fprintf(b, "%v:", k.Interface())
			normValue(b, v.MapIndex(k), depth+1)
			b.WriteString(",")
		}
		b.WriteString("}")
	case reflect.Slice, reflect.Array:
		b.WriteString("[")
		for i := 0; i < v.Len(); i++ {
			normValue(b, v.Index(i), depth+1)
			b.WriteString(",")
		}
		b.WriteString("]")
	case reflect.Struct:
		fmt.Fprintf(b, "%s{", v.Type())
		for i := 0; i < v.NumField(); i++ {
			if v.Type().Field(i).PkgPath != "" {
				continue
			}
			fmt.Fprintf(b, "%s:", v.Type().Field(i).Name)
			normValue(b, v.Field(i), depth+1)
			b.WriteString(",")
		}
		b.WriteString("}")
	case reflect.Func:
		b.WriteString("func")
	case reflect.Float64, reflect.Float32:
		fmt.Fprintf(b, "%s(%v)", v.Type(), v.Float())
	default:
		fmt.Fprintf(b, "%s(%v)", v.Type(), v)
	}
}

// checkSufficient: the full data map and the map restricted to the reported
// top-level names plus callee names give the same result.
func checkSufficient(text string, ast *ref.Node) (msg string, applicable bool) {
	fs := expectedFields(ast)
	if fs.this || fs.refused {
		return "", false
	}
	p := obs.Parse([]byte(text))
	if !p.OK() {
		return "", false
	}
	fields, err := formula.ResolveReferenceFields(p.Src)
	if err != nil {
		return "", false
	}
	keep := map[string]bool{}
	for _, f := range fields {
		keep[strings.SplitN(f, ".", 2)[0]] = true
	}
	for c := range fs.callees {
		keep[c] = true
	}
	// the two maps share the very same value objects (so addresses inside formatted values agree)
	built := spec.BuildMap(c10World(), &spec.Recorder{})
	// the full map also carries entries the formula does not reference: top-level keys spelled like the reported
	// dotted paths and their prefixes, and unrelated junk; "agree on the top-level names" says these cannot matter
	junk := map[string]interface{}{"zzUnrelated": 12345, "$zzLocal": "junk", "this": "junk", "null": "junk"}
	for _, f := range fields {
		parts := strings.Split(f, ".")
		for k := 2; k <= len(parts); k++ {
			junk[strings.Join(parts[:k], ".")] = "JUNK:" + f
		}
		if len(parts) > 1 {
			junk[parts[len(parts)-1]+"_"] = "JUNK"
		}
	}
	mk := func(restrict bool) map[string]interface{} {
		data := map[string]interface{}{}
		for k, v := range built {
			if !restrict || keep[k] {
				data[k] = v
			}
		}
		if !restrict {
			for k, v := range junk {
				if _, exists := data[k]; !exists && !keep[k] {
					data[k] = v
				}
			}
		}
		return data
	}
	run := func(restrict bool) obs.EvalOut {
		r := formula.NewRunner()
		r.SetThis(mk(restrict))
		return obs.Eval(r, context.Background(), p.Src.Expression)
	}
	full, restricted := run(false), run(true)
	if full.Panic != nil || restricted.Panic != nil {
		return "", false // C03's concern
	}
	// the host's usual loop: one runner for all formulas and records - first the full record, then the
	// restricted one; what the formula reads comes from the record it is given, whatever the runner did before
	if c10Shared == nil {
		c10Shared = formula.NewRunner()
		c10Shared.SetThis(map[string]interface{}{"i": 1})
		if q := obs.Parse([]byte("$x = 'aged', $y = 'aged', $z = 'aged', $loc2 = 'aged', $X = 'aged', $__v = 'aged', i + 1")); q.OK() {
			obs.Eval(c10Shared, context.Background(), q.Src.Expression)
		}
	}
	for _, restrict := range []bool{false, true} {
		c10Shared.SetThis(mk(restrict))
		got, want := obs.Eval(c10Shared, context.Background(), p.Src.Expression), full
		if restrict {
			want = restricted
		}
		if got.Panic == nil && ((got.Err != nil) != (want.Err != nil) || (got.Err == nil && !reflect.DeepEqual(normResult(got.Val), normResult(want.Val)))) {
			return fmt.Sprintf("%q over the map restricted=%v: a new runner gives %s, a runner that evaluated other formulas over other records before gives %s", text, restrict, want, got), true
		}
	}
	if (full.Err != nil) != (restricted.Err != nil) {
		return fmt.Sprintf("%q: with the full data map -> %s, with the map restricted to %v -> %s", text, full, sortedKeys(keep), restricted), true
	}
	// the analysis reads the tree and the evaluations above read it too: analysed once more, it reports the same
	if again, err2 := formula.ResolveReferenceFields(p.Src); err2 == nil {
		a, b := sortedCopy(fields), sortedCopy(again)
		if !reflect.DeepEqual(a, b) {
			return fmt.Sprintf("%q: analysed before it was evaluated the tree reports %v, analysed again afterwards %v", text, a, b), true
		}
	}
	if full.Err == nil && !reflect.DeepEqual(normResult(full.Val), normResult(restricted.Val)) {
		return fmt.Sprintf("%q: with the full data map = %s, with the map restricted to the reported fields %v (+callees) = %s", text, obs.Show(full.Val), fields, obs.Show(restricted.Val)), true
	}
	return "", true
}

var c10Shared *formula.Runner

type fieldCase struct {
	Tree *ref.Node `json:"tree"`
}

func init() {
	h.RegisterReplay("c10", func(raw json.RawMessage) string {
		c, err := h.Decode[fieldCase](raw)
		if err != nil {
			return "bad replay: " + err.Error()
		}
		text := c.Tree.Text()
		if m := checkFields(text, c.Tree); m != "" {
			return m
		}
		m, _ := checkSufficient(text, c.Tree)
		return m
	})
}

var c10Cfg = func() genCfg {
	cfg := genCfg{
		Names:          []string{"i", "s", "m", "st", "arr", "f64", "i64", "n", "b", "t", "$x", "$y", "$loc2", "a$b", "len", "undefinedName", "strs", "dec", "mi", "__v", "$__v", "_", "I", "S", "M", "St", "$X", "B", "\u540d\u79f0", "\u00e9t\u00e9", "\u0446\u0435\u043d\u0430", "$\u5408\u8ba1", "\u540d\u79f0"},
		SelNames:       []string{"a", "b", "c", "s", "n", "Name", "Inner", "Label", "null", "typeof", "$k", "k", "__v", "_", "A", "name", "NAME", "K", "\u91d1\u989d", "\u00e9"},
		Nums:           []string{"0", "1", "2", "1.5", "10"},
		Strs:           []string{"", "a", "hello", "l"},
		Kws:            []string{"null", "true", "false"},
		MaxArgs:        3,
		Targets:        []string{"$x", "$y", "$z", "$\u5408\u8ba1"},
		Callees:        []string{"len", "upper", "max", "fnA", "fnV", "fnS", "fnI", "toString", "abs", "m", "st", "join", "includes", "left", "undefinedName", "fn0"},
		CalleePathOnly: true,
		NoSpread:       false,
	}
	return cfg
}()

func fieldsNontrivial(ast *ref.Node) bool {
	fs := expectedFields(ast)
	deep, local, callArgs := false, false, false
	for k := range fs.must {
		if strings.Contains(k, ".") {
			deep = true
		}
		if strings.HasPrefix(k, "$") {
			local = true
		}
	}
	ast.Walk(func(n *ref.Node) {
		if n.Kind == "call" && len(n.Kids) > 1 {
			callArgs = true
		}
	})
	return len(fs.must) >= 3 && (deep || local || callArgs)
}

// TestC10Random: exactness and sufficiency on random programs.
func TestC10Random(t *testing.T) {
	run := h.Begin("C10", "random", "rapid: programs over data names, $ locals, names containing '$' inside, builtin names, dotted paths of depth 1-4 (with '!.', keywords and $-names as member names), calls whose callee is a name or path (0-3 arguments, spread), assignments to $ locals, ?:, arrays, typeof, parentheses, prefix and binary operators; member access on call results / parentheses / arrays / literals arises in value position (refused forms); with 'this' in 1 of 8 programs; oracle 1: an independent walk of the generated AST (must-set = names and maximal paths in value position; names that are only assignment targets are don't-care), no duplicates, non-local = the same minus $-prefixed entries, refused form => both functions fail; oracle 2 (programs without 'this'): evaluation against the world and against the world restricted to the top-level names of the reported fields plus callee names must agree (value by deep comparison, or both errors); non-trivial: >=3 distinct fields and a path of depth >=2, a call with arguments or a $ local; distinct by text")
	defer run.End(t)
	h.RapidSetup(h.N(10000, 3000000), "c10rand")
	cfgThis := c10Cfg
	cfgThis.Kws = []string{"null", "true", "this"}
	rapid.Check(t, func(rt *rapid.T) {
		cfg := &c10Cfg
		if rapid.IntRange(0, 7).Draw(rt, "withthis") == 0 {
			cfg = &cfgThis
		}
		ast := genExpr(rt, cfg, rapid.IntRange(1, 5).Draw(rt, "depth"), ref.LvComma)
		excludeSelfReference(ast)
		text := ast.Text()
		fs := expectedFields(ast)
		cls := "accepted"
		if fs.refused {
			cls = "refused"
		}
		msg := checkFields(text, ast)
		if msg == "" {
			var app bool
			msg, app = checkSufficient(text, ast)
			if app {
				run.Class("sufficiency-checked")
			}
		}
		run.CountKey(text, fieldsNontrivial(ast), cls)
		run.Sample(cls, text)
		if msg != "" {
			run.Pending("rand", "c10", fieldCase{Tree: ast}, msg)
			rt.Fatalf("%s", msg)
		}
	})
}

// TestC10Templates: one template per node type and position.
func TestC10Templates(t *testing.T) {
	run := h.Begin("C10", "templates", "bounded-exhaustive: every node type with a marker path in each of its child positions (binary left/right for all 21 operators, prefix operators, typeof, ?: condition/true/false, array elements first/middle/last, call arguments first/middle/last with and without spread, parentheses, assignment right-hand side, nested two deep), each with 6 marker forms (x, $x, a$b, p.q, $p.q.r, p!.q.null); oracle as in the random part; every case non-trivial")
	defer run.End(t)
	markers := []string{"x", "$x", "a$b", "p.q", "$p.q.r", "p!.q.null"}
	var shapes []string
	for _, op := range append(append([]string{}, ref.BinOps...), ",") {
		shapes = append(shapes, "_ "+op+" o1", "o1 "+op+" _", "_ "+op+" _")
	}
	for _, pre := range []string{"+", "-", "!", "!!", "~", "typeof "} {
		shapes = append(shapes, pre+"_")
	}
	shapes = append(shapes, "_ ? o1 : o2", "o1 ? _ : o2", "o1 ? o2 : _", "[_]", "[_, o1, o2]", "[o1, _, o2]", "[o1, o2, _]", "f(_)", "f(_, o1, o2)", "f(o1, _, o2)", "f(o1, o2, _)", "f(o1, _...)", "g.h(_)", "g.h.i(o1, _)",
		"(_)", "$t = _", "$t = $u = _", "o1, _", "_(o1)", "_(_)", "f(g(_))", "[[_]]", "f([_], g(o1, _))", "(o1 ? [_] : f(_)) + o2", "$t = _, $t + _",
		// a local that the formula itself binds, read as a path before and after the binding: a path is a path
		"fnV(o1, o2, [_, o3]...)", "fnV(o1, o2, [o3, _]...)", "f(o1, [_]...)", "fnSV(o1, _, [o2, o3]...)", "fnSV(o1, o2, [o3, o4, _]...)", "max([_, o1]...)",
		// callees that are computed: on the unchanged tree such a call is an error whatever the data holds
		"(b ? max : min)(1, _)", "(m.a ? upper : lower)('aB' + _)", "(bf || i ? fnV : f)(_)", "[max, min][iz](1, _)", "(s && len)(_)", "(_ ? max : min)(1, 2)", "(_ ? upper : lower)('aB')", "(_ ? fnV : f)(o1)", "(_)(o1)", "(o1 ? _ : max)(1, 2)", "f(o1)(_)", "(_ && len)('abc')", "[max, min][_](1, 2)",
		"$x = o1, _", "_, $x = o1", "$p = o1, [_, $p.q, $p.z]", "f($x = o1, [_, typeof _])", "($p = o1) ? _ : $p.q.r", "$x = $p = o1, [_, $x.k, $p.q.r]", "$a$ = _, $a$.k")
	var idx int64
	for _, sh := range shapes {
		for _, inner := range append([]string{""}, shapes[60:70]...) {
			for _, mk := range markers {
				idx++
				if !h.Mine(idx) || run.NViolations() >= 3 {
					continue
				}
				text := strings.ReplaceAll(sh, "_", mk)
				if inner != "" {
					text = strings.ReplaceAll(sh, "_", "("+strings.ReplaceAll(inner, "_", mk)+")")
				}
				ast := ref.Parse([]byte(text))
				if ast == nil {
					run.Class("template-not-derivable")
					continue
				}
				run.Count(true, "")
				if idx%211 == 0 {
					run.Sample("template", text)
				}
				msg := checkFields(text, ast)
				if msg == "" {
					msg, _ = checkSufficient(text, ast)
				}
				if msg != "" {
					run.Fail("c10", fieldCase{Tree: ast}, msg)
				}
			}
		}
	}
	run.Exhaustive()
}

// TestC10Long: formulas that read many different fields, and long paths.
func TestC10Long(t *testing.T) {
	run := h.Begin("C10", "long", "rapid: formulas with 40..400 items (paths of 1..12 components over a pool of 300 names and 40 member names, with '!.', $ locals, repeats of earlier paths and small generated sub-programs in between) in a comma sequence, a list, one call's arguments, a '+' chain or nested calls; oracle 1 as for random (independent walk: every name and maximal path exactly once); non-trivial: >=40 distinct fields and a path of >=5 components; distinct by text")
	defer run.End(t)
	h.RapidSetup(h.N(300, 60000), "c10long")
	rapid.Check(t, func(rt *rapid.T) {
		n := rapid.IntRange(40, 400).Draw(rt, "n")
		var earlier []*ref.Node
		maxDepth := 0
		item := func() *ref.Node {
			switch k := rapid.IntRange(0, 9).Draw(rt, "itemkind"); {
			case k == 0 && len(earlier) > 0:
				return earlier[rapid.IntRange(0, len(earlier)-1).Draw(rt, "again")]
			case k == 1:
				e := genExpr(rt, &c10Cfg, rapid.IntRange(1, 2).Draw(rt, "depth"), ref.LvAssign)
				excludeSelfReference(e)
				return e
			}
			root := fmt.Sprintf("f%d", rapid.IntRange(0, 299).Draw(rt, "root"))
			if rapid.IntRange(0, 9).Draw(rt, "local") == 0 {
				root = "$" + root
			}
			p := &ref.Node{Kind: "id", Val: root}
			d := rapid.SampledFrom([]int{1, 1, 2, 2, 3, 4, 5, 6, 8, 12}).Draw(rt, "components")
			if d > maxDepth {
				maxDepth = d
			}
			for i := 1; i < d; i++ {
				p = &ref.Node{Kind: "sel", Val: fmt.Sprintf("m%d", rapid.IntRange(0, 39).Draw(rt, "member")), Assert: rapid.IntRange(0, 5).Draw(rt, "assert") == 0, Kids: []*ref.Node{p}}
			}
			earlier = append(earlier, p)
			return p
		}
		var ast *ref.Node
		switch shape := rapid.IntRange(0, 4).Draw(rt, "shape"); shape {
		case 0:
			ast = item()
			for i := 1; i < n; i++ {
				ast = &ref.Node{Kind: "bin", Op: ",", Kids: []*ref.Node{ast, item()}}
			}
		case 1:
			ast = &ref.Node{Kind: "arr"}
			for i := 0; i < n; i++ {
				ast.Kids = append(ast.Kids, item())
			}
		case 2:
			ast = &ref.Node{Kind: "call", Kids: []*ref.Node{{Kind: "id", Val: "max"}}}
			for i := 0; i < n; i++ {
				ast.Kids = append(ast.Kids, item())
			}
		case 3:
			ast = atLevel(item(), ref.BinLevel["+"])
			for i := 1; i < n; i++ {
				ast = &ref.Node{Kind: "bin", Op: "+", Kids: []*ref.Node{ast, atLevel(item(), ref.BinLevel["+"]+1)}}
			}
		default: // f(a, f(b, f(c, ...)))  up to 40 deep, the rest as a list
			ast = &ref.Node{Kind: "arr"}
			for i := 40; i < n; i++ {
				ast.Kids = append(ast.Kids, item())
			}
			for i := 0; i < 40; i++ {
				ast = &ref.Node{Kind: "call", Kids: []*ref.Node{{Kind: "id", Val: "fnV"}, item(), ast}}
			}
		}
		text := ast.Text()
		fs := expectedFields(ast)
		cls := "accepted"
		if fs.refused {
			cls = "refused"
		}
		run.CountKey(text, len(fs.must) >= 40 && maxDepth >= 5, cls)
		if len(text) < 600 {
			run.Sample(cls, text)
		}
		if msg := checkFields(text, ast); msg != "" {
			if len(msg) > 1500 {
				msg = msg[:700] + " ... " + msg[len(msg)-700:]
			}
			run.Pending("long", "c10", fieldCase{Tree: ast}, msg)
			rt.Fatalf("%s", msg)
		}
	})
}
