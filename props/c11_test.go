package props

import (
	"context"
	"encoding/json"
	"fmt"
	"math"
	"math/big"
	"reflect"
	"strconv"
	"strings"
	"testing"
	"time"

	"github.com/aundis/formula"
	"github.com/ericlagergren/decimal"
	"pgregory.net/rapid"

	"verif/internal/h"
	"verif/internal/obs"
	"verif/internal/ref"
	"verif/internal/spec"
)

// C11 — host functions are called exactly as declared, or not at all.

// argVal is one argument: formula text and its model.
type argVal struct {
	Text  string   `json:"text"`
	Kind  string   `json:"kind"` // null bool num str arr map time
	Num   string   `json:"num,omitempty"`
	Str   string   `json:"str,omitempty"`
	Bool  bool     `json:"bool,omitempty"`
	Elems []argVal `json:"elems,omitempty"`
	Raw   bool     `json:"raw,omitempty"`   // num: the value is a plain Go int inside the caller's typed slice (never normalised to a formula number)
	Typed string   `json:"typed,omitempty"` // arr: the value is the caller's typed Go slice of this name in the data ([]string, []int), not a literal
}

type callCase struct {
	Fn     spec.Fn  `json:"fn"`
	Args   []argVal `json:"args"`
	Spread bool     `json:"spread,omitempty"`
}

func (c callCase) text() string {
	var parts []string
	for _, a := range c.Args {
		parts = append(parts, a.Text)
	}
	s := c.Fn.Name + "(" + strings.Join(parts, ", ")
	if c.Spread {
		s += " ..."
	}
	return s + ")"
}

func aNum(text, exact string) argVal { return argVal{Text: text, Kind: "num", Num: exact} }
func aStr(s string) argVal           { return argVal{Text: ref.QuoteString(s, '\''), Kind: "str", Str: s} }
func aArr(elems ...argVal) argVal {
	var parts []string
	for _, e := range elems {
		parts = append(parts, e.Text)
	}
	return argVal{Text: "[" + strings.Join(parts, ", ") + "]", Kind: "arr", Elems: elems}
}

// mapName: the data name behind a map argument (possibly handed through an echo call).
func mapName(a argVal) string {
	if strings.Contains(a.Text, "mn") {
		return "mn"
	}
	return "m"
}

// viaCall spells the argument as the result of a nested host call that hands it through.
func viaCall(a argVal, two bool) argVal {
	if two {
		a.Text = "id2('other', " + a.Text + ")"
	} else {
		a.Text = "idf(" + a.Text + ")"
	}
	return a
}

var (
	aNull = argVal{Text: "null", Kind: "null"}
	aTrue = argVal{Text: "true", Kind: "bool", Bool: true}
	aMap  = argVal{Text: "m", Kind: "map"}
	aTime = argVal{Text: "t", Kind: "time"}
)

var c11Time = time.Date(2024, 2, 29, 12, 34, 56, 789, time.UTC)

func c11Data(fn *spec.Fn, rec *spec.Recorder) map[string]interface{} {
	return map[string]interface{}{
		fn.Name: fn.Build(rec),
		"m":     map[string]interface{}{"a": "x", "b": "y"},
		"strs":  []string{"a", "b"}, // typed Go slices: arrays like any other, also as the operand of a spread
		"ints":  []int{3, 4, 5},
		"mn":    map[string]interface{}{"a": "x", "n": nil, "z": nil}, // a map with null entries: they arrive as nil entries, not as missing keys
		"t":     c11Time,
		"rec":   (&spec.Fn{Name: "rec", Params: []string{"int"}, Ret: "arg0"}).Build(rec),
		// echo functions: arguments that are themselves calls with arguments (nested call frames)
		"idf": (&spec.Fn{Name: "idf", Params: []string{"any"}, Ret: "arg0"}).Build(rec),
		"id2": (&spec.Fn{Name: "id2", Params: []string{"any", "any"}, Ret: "arg1"}).Build(rec),
	}
}

// conv is the contract's conversion of argument a to parameter type p.
// outcome: "ok" (want is the matcher), "err" (the call must fail), "either".
func convOutcome(a argVal, p string) string {
	if strings.HasPrefix(p, "[]") {
		if a.Kind != "arr" {
			if a.Kind == "null" {
				return "either"
			}
			return "err"
		}
		res := "ok"
		for _, e := range a.Elems {
			switch convOutcome(e, p[2:]) {
			case "err":
				return "err"
			case "either":
				res = "either"
			}
		}
		return res
	}
	if strings.HasPrefix(p, "map[string]") {
		switch a.Kind {
		case "map":
			if mapName(a) == "mn" { // null entries: nil for interface elements; what a null becomes as a string or a number element is left open
				if p == "map[string]any" {
					return "ok"
				}
				return "either"
			}
			if p == "map[string]any" || p == "map[string]string" {
				return "ok"
			}
			return "err" // string elements have no conversion to numbers
		case "null":
			return "either"
		}
		return "err"
	}
	switch a.Kind {
	case "null":
		if p == "any" {
			return "ok"
		}
		return "either"
	case "num":
		if p == "uint8" {
			return "either" // unsigned kinds are not among the parameter kinds the statement lists
		}
		if a.Raw && p == "dec" {
			return "either" // a plain Go int element handed to a *decimal.Big parameter: conversion not promised
		}
		if bits := map[string]uint{"int8": 7, "int16": 15, "int32": 31, "int64": 63, "int": 63}[p]; bits > 0 {
			// a whole part outside the parameter type's range: what arrives then is not promised
			if r, ok := new(big.Rat).SetString(a.Num); ok {
				w := new(big.Int).Quo(r.Num(), r.Denom()) // truncates toward zero
				lim := new(big.Int).Lsh(big.NewInt(1), bits)
				if w.CmpAbs(lim) >= 0 {
					return "either"
				}
			}
		}
		switch p {
		case "int", "int8", "int16", "int32", "int64", "float32", "float64", "string", "any", "dec":
			return "ok"
		}
		return "err"
	case "str":
		switch p {
		case "string", "any":
			return "ok"
		}
		return "err"
	case "bool":
		switch p {
		case "bool", "any", "string":
			return "ok"
		}
		return "err"
	case "arr":
		switch p {
		case "any":
			return "ok"
		case "string":
			return "either"
		}
		return "err"
	case "map":
		switch p {
		case "any":
			return "ok"
		case "string":
			return "either"
		}
		return "err"
	case "time":
		switch p {
		case "time", "any":
			return "ok"
		case "string":
			return "either"
		}
		return "err"
	}
	return "either"
}

func numRat(a argVal) *big.Rat { r, _ := new(big.Rat).SetString(a.Num); return r }

// matchArg: got is what the function received for argument a declared as p (outcome "ok").
func matchArg(got interface{}, a argVal, p string, data map[string]interface{}) bool {
	if strings.HasPrefix(p, "[]") {
		gv := reflect.ValueOf(got)
		if !gv.IsValid() || gv.Kind() != reflect.Slice || gv.Type() != spec.TypeOf(p) || gv.Len() != len(a.Elems) {
			return false
		}
		for i, e := range a.Elems {
			if !matchArg(gv.Index(i).Interface(), e, p[2:], data) {
				return false
			}
		}
		return true
	}
	if strings.HasPrefix(p, "map[string]") && mapName(a) == "mn" { // only asserted for map[string]any (see convOutcome)
		gm, ok := got.(map[string]interface{})
		if !ok || len(gm) != 3 {
			return false
		}
		n, hasN := gm["n"]
		z, hasZ := gm["z"]
		return fmt.Sprint(gm["a"]) == "x" && hasN && n == nil && hasZ && z == nil
	}
	if strings.HasPrefix(p, "map[string]") {
		gv := reflect.ValueOf(got)
		if !gv.IsValid() || gv.Type() != spec.TypeOf(p) || gv.Len() != 2 {
			return false
		}
		return fmt.Sprint(gv.MapIndex(reflect.ValueOf("a")).Interface()) == "x" && fmt.Sprint(gv.MapIndex(reflect.ValueOf("b")).Interface()) == "y"
	}
	switch a.Kind {
	case "null":
		return got == nil
	case "num":
		r := numRat(a)
		switch p {
		case "int", "int8", "int16", "int32", "int64":
			gv := reflect.ValueOf(got)
			if !gv.IsValid() || gv.Type() != spec.TypeOf(p) {
				return false
			}
			return big.NewInt(gv.Int()).Cmp(ref.TruncRat(r)) == 0
		case "float64":
			f, ok := got.(float64)
			return ok && f == ref.NearestFloat64(r)
		case "float32":
			f, ok := got.(float32)
			if !ok {
				return false
			}
			want := float32(ref.NearestFloat64(r))
			return f == want || f == math.Nextafter32(want, float32(math.Inf(1))) || f == math.Nextafter32(want, float32(math.Inf(-1)))
		case "string":
			s, ok := got.(string)
			if !ok {
				return false
			}
			neg := strings.HasPrefix(s, "-")
			back, ok2 := ref.RatOf(strings.TrimPrefix(s, "-"))
			if !ok2 {
				return false
			}
			if neg {
				back.Neg(back)
			}
			return back.Cmp(r) == 0
		case "any", "dec":
			if gi, isInt := got.(int); isInt && p == "any" {
				// an element of the caller's []int handed on as it is
				return new(big.Rat).SetInt64(int64(gi)).Cmp(r) == 0
			}
			d, ok := got.(*decimal.Big)
			if !ok || d == nil {
				return false
			}
			g, ok2 := obs.Rat(d)
			return ok2 && g.Cmp(r) == 0
		}
	case "str":
		s, ok := got.(string)
		return ok && s == a.Str
	case "bool":
		if p == "string" {
			s, ok := got.(string)
			return ok && s == strconv.FormatBool(a.Bool)
		}
		b, ok := got.(bool)
		return ok && b == a.Bool
	case "arr": // p == any
		if a.Typed != "" { // the caller's own slice, handed on as it is
			return reflect.DeepEqual(got, data[a.Typed])
		}
		arr, ok := got.([]interface{})
		if !ok || len(arr) != len(a.Elems) {
			return false
		}
		for i, e := range a.Elems {
			if !matchArg(arr[i], e, "any", data) {
				return false
			}
		}
		return true
	case "map": // p == any: the very same object
		return reflect.ValueOf(got).IsValid() && reflect.ValueOf(got).Kind() == reflect.Map && reflect.ValueOf(got).Pointer() == reflect.ValueOf(data[mapName(a)]).Pointer()
	case "time":
		tt, ok := got.(time.Time)
		return ok && tt == c11Time
	}
	return false
}

// verdict decides what the contract demands for the case and, for MustCall,
// which parameter type each (expanded) argument meets.
func verdict(c callCase) (v string, flat []argVal, ptypes []string) {
	n := len(c.Fn.Params)
	args := c.Args
	if c.Spread {
		if !c.Fn.Variadic {
			return "err", nil, nil
		}
		if len(args) == 0 {
			return "either", nil, nil
		}
		last := args[len(args)-1]
		if last.Kind != "arr" {
			return "err", nil, nil
		}
		if len(args) < n {
			return "err", nil, nil
		}
		if len(args) > n {
			return "either", nil, nil
		}
		args = append(append([]argVal{}, args[:len(args)-1]...), last.Elems...)
	} else if c.Fn.Variadic {
		if len(args) < n-1 {
			return "err", nil, nil
		}
	} else if len(args) != n {
		return "err", nil, nil
	}
	res := "call"
	for i, a := range args {
		p := ""
		if c.Fn.Variadic && i >= n-1 {
			p = c.Fn.Params[n-1]
		} else {
			p = c.Fn.Params[i]
		}
		ptypes = append(ptypes, p)
		switch convOutcome(a, p) {
		case "err":
			return "err", nil, nil
		case "either":
			res = "either"
		}
	}
	return res, args, ptypes
}

type ctxMark struct{}

var ctxSerial int

func checkCall(c callCase) (msg string, v string) {
	rec := &spec.Recorder{}
	fn := c.Fn
	data := c11Data(&fn, rec)
	text := c.text()
	p := obs.Parse([]byte(text))
	if !p.OK() {
		return fmt.Sprintf("HARNESS: %q does not parse: %v", text, p.Err), "harness"
	}
	// the caller's context: recognisable by a value unique to this call and by its cancellation
	ctxSerial++
	token := fmt.Sprint("caller-", ctxSerial)
	base, cancel := context.WithCancel(context.Background())
	defer cancel()
	ctx := context.WithValue(base, ctxMark{}, token)
	r := formula.NewRunner()
	r.SetThis(data)
	out := obs.Eval(r, ctx, p.Src.Expression)
	v, flat, ptypes := verdict(c)
	sig := fn.Sig()
	if out.Panic != nil {
		return fmt.Sprintf("%s with %s panicked: %v", text, sig, out.Panic), v
	}
	ncalls := 0
	var the spec.Call
	for _, cl := range rec.Calls {
		if cl.Name == fn.Name {
			ncalls++
			the = cl
		}
	}
	switch v {
	case "err":
		if ncalls != 0 {
			return fmt.Sprintf("%s with %s: the function was invoked (%d times, args %s) although the call does not fit the signature", text, sig, ncalls, obs.Show(the.Args)), v
		}
		if out.Err == nil {
			return fmt.Sprintf("%s with %s = %s, want an error (the call does not fit the signature)", text, sig, obs.Show(out.Val)), v
		}
	case "either":
		if ncalls > 1 {
			return fmt.Sprintf("%s with %s: invoked %d times", text, sig, ncalls), v
		}
		if ncalls == 0 && out.Err == nil {
			return fmt.Sprintf("%s with %s: not invoked but no error either (= %s)", text, sig, obs.Show(out.Val)), v
		}
		if ncalls == 1 && len(the.Args) == len(flat) {
			// "anything to string by formatting": an array / map / time handed to a string parameter must arrive as
			// the language's own string form of that value (what '' + x gives), not as something else
			for i := range flat {
				if ptypes[i] == "string" && (flat[i].Kind == "arr" || flat[i].Kind == "map" || flat[i].Kind == "time") {
					want := obs.EvalText("'' + ("+flat[i].Text+")", data)
					ws, ok := want.Val.(string)
					if gs, isStr := the.Args[i].(string); ok && (!isStr || gs != ws) {
						return fmt.Sprintf("%s with %s: argument %d (%s) arrived as %s, but formatting that value to a string gives %q", text, sig, i+1, flat[i].Text, obs.Show(the.Args[i]), ws), v
					}
				}
			}
		}
	case "call":
		if ncalls != 1 {
			return fmt.Sprintf("%s with %s: invoked %d times, want exactly once (result %s)", text, sig, ncalls, out), v
		}
		if len(the.Args) != len(flat) {
			return fmt.Sprintf("%s with %s: received %d arguments %s, want %d", text, sig, len(the.Args), obs.Show(the.Args), len(flat)), v
		}
		for i := range flat {
			if !matchArg(the.Args[i], flat[i], ptypes[i], data) {
				return fmt.Sprintf("%s with %s: argument %d received as %s (%T), want %s converted to %s", text, sig, i+1, obs.Show(the.Args[i]), the.Args[i], flat[i].Text, ptypes[i]), v
			}
		}
		if fn.Ctx {
			// the caller's context or one derived from it: it carries the caller's values and the caller's cancellation
			if the.Ctx == nil || the.Ctx.Value(ctxMark{}) != token {
				return fmt.Sprintf("%s with %s: received context %v, which does not carry the value %q of the caller's context", text, sig, the.Ctx, token), v
			}
			cancel()
			if the.Ctx.Err() == nil {
				return fmt.Sprintf("%s with %s: received context %v, which is not cancelled when the caller's context is", text, sig, the.Ctx), v
			}
			if fn.Err == "" && out.Err == nil {
				// the same runner (and tree) used again by another caller: that caller's context arrives
				token2 := token + "-second"
				ctx2 := context.WithValue(context.Background(), ctxMark{}, token2)
				n0 := len(rec.Calls)
				out2 := obs.Eval(r, ctx2, p.Src.Expression)
				var second []spec.Call
				for _, cl := range rec.Calls[n0:] {
					if cl.Name == fn.Name {
						second = append(second, cl)
					}
				}
				if out2.Panic != nil || out2.Err != nil || len(second) != 1 {
					return fmt.Sprintf("%s with %s: a second Resolve on the same runner gave %s with %d further invocations, the first %s", text, sig, out2, len(second), out), v
				}
				for i := range flat {
					if !matchArg(second[0].Args[i], flat[i], ptypes[i], data) {
						return fmt.Sprintf("%s with %s: on the second Resolve of the same runner argument %d was received as %s (%T), want %s converted to %s", text, sig, i+1, obs.Show(second[0].Args[i]), second[0].Args[i], flat[i].Text, ptypes[i]), v
					}
				}
				if c2 := second[0].Ctx; c2 == nil || c2.Value(ctxMark{}) != token2 {
					return fmt.Sprintf("%s with %s: on the second Resolve of the same runner, called with another context, the function received context %v instead of the second caller's (value %q)", text, sig, c2, token2), v
				}
			}
		}
		if fn.Err == "" && out.Err == nil {
			// the same parsed tree for another caller: a new runner whose data holds ANOTHER function object under the
			// same name (own recorder) - the call goes to the function found in the current data
			rec3 := &spec.Recorder{}
			fn3 := c.Fn
			r3 := formula.NewRunner()
			r3.SetThis(c11Data(&fn3, rec3))
			before := len(rec.Calls)
			out3 := obs.Eval(r3, context.Background(), p.Src.Expression)
			n3 := 0
			for _, cl := range rec3.Calls {
				if cl.Name == fn.Name {
					n3++
				}
			}
			if out3.Panic != nil || out3.Err != nil || n3 != 1 || len(rec.Calls) != before {
				return fmt.Sprintf("%s with %s: the same parsed tree evaluated by a new runner whose data holds another function object under that name invoked the new function %d times and the first caller's function %d more times (result %s)", text, sig, n3, len(rec.Calls)-before, out3), v
			}
		}
		if fn.Err != "" {
			if out.Err == nil || !strings.Contains(out.Err.Error(), fn.Name) {
				return fmt.Sprintf("%s with %s returning an error: evaluation gave %s, want an error naming the function", text, sig, out), v
			}
			// the error aborts the whole evaluation wherever the call sits
			for _, cx := range []string{"_ ?? 'dflt'", "_ || 1", "_ && 1", "[_]", "true ? _ : 0", "rec(1), _", "(_) + 1", "$v = _", "!!_", "typeof _", "null ?? _", "0 || _", "[1, _, 2]", "_ == null"} {
				f2 := strings.ReplaceAll(cx, "_", text)
				rec2 := &spec.Recorder{}
				fn2 := c.Fn
				o2 := evalWith(f2, c11Data(&fn2, rec2))
				if o2.Panic != nil || o2.Err == nil || !strings.Contains(o2.Err.Error(), fn.Name) {
					return fmt.Sprintf("%s with %s returning an error: evaluation gave %s, want an error naming the function (the returned error must abort the evaluation)", f2, sig, o2), v
				}
			}
		} else if out.Err != nil {
			return fmt.Sprintf("%s with %s failed after a correct invocation: %v", text, sig, out.Err), v
		}
	}
	return "", v
}

func init() {
	h.RegisterReplay("c11", func(raw json.RawMessage) string {
		c, err := h.Decode[callCase](raw)
		if err != nil {
			return "bad replay: " + err.Error()
		}
		m, _ := checkCall(c)
		return m
	})
	h.RegisterReplay("c11-ret", func(raw json.RawMessage) string {
		c, err := h.Decode[[2]string](raw)
		if err != nil {
			return "bad replay: " + err.Error()
		}
		return checkReturn(c[0], c[1])
	})
	h.RegisterReplay("c11-order", func(raw json.RawMessage) string {
		c, err := h.Decode[string](raw)
		if err != nil {
			return "bad replay: " + err.Error()
		}
		return checkOrder(c)
	})
}

var c11Params = []string{"string", "bool", "int", "int8", "int16", "int32", "int64", "float32", "float64", "any", "dec", "time",
	"[]int", "[]string", "[]any", "[]float64", "[]int64", "[]int32", "[]uint8", "map[string]any", "map[string]string", "map[string]int"}

var c11Args = []argVal{
	aNull, aTrue, {Text: "false", Kind: "bool"},
	aNum("3", "3"), aNum("0", "0"), aNum("(-2)", "-2"), aNum("2.7", "27/10"), aNum("(-2.7)", "-27/10"), aNum("0.5", "1/2"), aNum("100", "100"), aNum("(1+1)", "2"), aNum("0.1", "1/10"), aNum("(-0.9)", "-9/10"), aNum("127", "127"),
	// more digits than a binary double or a 16-digit decimal context holds
	aNum("1234567890123456789", "1234567890123456789"), aNum("12345678901234567.891", "12345678901234567891/1000"), aNum("0.12345678901234567891", "12345678901234567891/100000000000000000000"),
	aNum("3.0", "3"), aNum("30e-1", "3"), aNum("(1.5 * 2)", "3"), aNum("(-2.70)", "-27/10"), aNum("1e2", "100"), aNum("(0 * -1)", "0"),
	aStr("s"), aStr(""), aStr("12"), aStr("2024-01-02T03:04:05Z"), aStr("1e3"), aStr("null"),
	aArr(), aArr(aNum("1", "1"), aNum("2", "2")), aArr(aStr("a"), aStr("b")), aArr(aNum("1", "1"), aStr("a")), aArr(aArr(aNum("1", "1"))), aArr(aNum("2.7", "27/10"), aNum("(-2.7)", "-27/10")), aArr(aNull),
	aMap, aTime, {Text: "mn", Kind: "map"},
	{Text: "strs", Kind: "arr", Typed: "strs", Elems: []argVal{aStr("a"), aStr("b")}},
	{Text: "ints", Kind: "arr", Typed: "ints", Elems: []argVal{{Text: "3", Kind: "num", Num: "3", Raw: true}, {Text: "4", Kind: "num", Num: "4", Raw: true}, {Text: "5", Kind: "num", Num: "5", Raw: true}}},
	viaCall(aNum("3", "3"), false), viaCall(aStr("s"), true), viaCall(aArr(aNum("1", "1"), aNum("2", "2")), true), viaCall(aNull, false),
}

func callNontrivial(c callCase, v string) bool {
	if v == "err" || c.Spread || c.Fn.Variadic || c.Fn.Ctx {
		return true
	}
	for i, a := range c.Args {
		if i < len(c.Fn.Params) {
			p := c.Fn.Params[i]
			if a.Kind == "num" && p != "dec" && p != "any" || a.Kind == "arr" || a.Kind == "null" || a.Kind == "bool" && p == "string" {
				return true
			}
		}
	}
	return false
}

// TestC11Exhaustive: signatures of up to 2 parameters x all argument lists.
func TestC11Exhaustive(t *testing.T) {
	run := h.Begin("C11", "exhaustive", fmt.Sprintf("bounded-exhaustive: signatures of 0..2 parameters over %d parameter kinds (string, bool, int8..int64, float32/64, interface{}, *decimal.Big, time.Time, slices and string-keyed maps) x {fixed, variadic tail, plain slice as last parameter} x {with, without leading context}; argument lists of length 0..n+1 (1-parameter signatures: every argument of %d values; 2-parameter: second parameter int/string/any) with and without spread; functions synthesised with reflect.MakeFunc record every invocation; oracle: a model of the contract yields MustCall(converted args) / MustError / Either: exactly one invocation with arguments converted as declared (truncation toward zero, nearest float, formatting to string, nil for interface, element-wise slices, spread over the variadic tail, the caller's context), or zero invocations and an error; non-trivial: a conversion, context injection, variadic/spread expansion or a refusal", len(c11Params), len(c11Args)))
	defer run.End(t)
	var idx int64
	try := func(c callCase) {
		idx++
		if !h.Mine(idx) || run.NViolations() >= 3 {
			return
		}
		msg, v := checkCall(c)
		run.Count(callNontrivial(c, v), v)
		if idx%3001 == 0 {
			run.Sample(v, c.Fn.Sig()+"  <-  "+c.text())
		}
		if msg != "" {
			run.Fail("c11", c, msg)
		}
	}
	for _, ctx := range []bool{false, true} {
		try(callCase{Fn: spec.Fn{Name: "f", Ctx: ctx, Ret: "nil"}})
		for _, a := range c11Args {
			try(callCase{Fn: spec.Fn{Name: "f", Ctx: ctx, Ret: "nil"}, Args: []argVal{a}})
		}
		for _, p1 := range c11Params {
			for _, variadic := range []bool{false, true} {
				if variadic && strings.HasPrefix(p1, "map") {
					continue
				}
				fn := spec.Fn{Name: "f", Ctx: ctx, Params: []string{p1}, Variadic: variadic, Ret: "nil"}
				try(callCase{Fn: fn})
				for _, a := range c11Args {
					try(callCase{Fn: fn, Args: []argVal{a}})
					try(callCase{Fn: fn, Args: []argVal{a}, Spread: true})
					for _, b := range []argVal{aNum("3", "3"), aNum("2.7", "27/10"), aStr("s"), aNull, aArr(aNum("1", "1"), aNum("2", "2"))} {
						try(callCase{Fn: fn, Args: []argVal{a, b}})
						try(callCase{Fn: fn, Args: []argVal{b, a}, Spread: true})
					}
				}
				for _, p0 := range []string{"int", "string", "any"} {
					fn2 := spec.Fn{Name: "f", Ctx: ctx, Params: []string{p0, p1}, Variadic: variadic, Ret: "nil"}
					for _, a := range c11Args {
						for _, b := range []argVal{aNum("3", "3"), aNum("(-2.7)", "-27/10"), aStr("s"), aNull} {
							try(callCase{Fn: fn2, Args: []argVal{b, a}})
							try(callCase{Fn: fn2, Args: []argVal{b, a}, Spread: true})
							try(callCase{Fn: fn2, Args: []argVal{b, a, a}})
						}
						try(callCase{Fn: fn2, Args: []argVal{a}})
						try(callCase{Fn: fn2, Args: []argVal{a}, Spread: true})
					}
				}
			}
		}
	}
	run.Exhaustive()
}

// TestC11Random: up to 4 parameters, longer argument lists, error results.
func TestC11Random(t *testing.T) {
	run := h.Begin("C11", "random", "rapid: signatures of 0-4 parameters (optional context, optional variadic tail, error result), argument lists of length 0..n+2 over all argument values (numbers inside every integer type's range, fractions, negatives, strings, arrays of numbers/strings/mixed/nested/null, a map, a time, null; 1 in 5 handed through a nested echo call with one or two arguments), with and without spread; same oracle; a returned error must abort evaluation with an error naming the function; distinct by (signature, arguments)")
	defer run.End(t)
	h.RapidSetup(h.N(8000, 3000000), "c11rand")
	rapid.Check(t, func(rt *rapid.T) {
		n := rapid.IntRange(0, 4).Draw(rt, "nparams")
		fn := spec.Fn{Name: rapid.SampledFrom([]string{"f", "hostFn", "g1"}).Draw(rt, "name"), Ctx: rapid.Bool().Draw(rt, "ctx"), Ret: "nil"}
		for i := 0; i < n; i++ {
			fn.Params = append(fn.Params, rapid.SampledFrom(c11Params).Draw(rt, "ptype"))
		}
		if n > 0 && !strings.HasPrefix(fn.Params[n-1], "map") && rapid.IntRange(0, 2).Draw(rt, "variadic") == 0 {
			fn.Variadic = true
		}
		if rapid.IntRange(0, 4).Draw(rt, "err") == 0 {
			fn.Err = "boom"
		}
		na := rapid.IntRange(0, n+2).Draw(rt, "nargs")
		c := callCase{Fn: fn, Spread: rapid.IntRange(0, 3).Draw(rt, "spread") == 0}
		for i := 0; i < na; i++ {
			// prefer arguments that fit the parameter, so that complete calls are frequent
			var cand []argVal
			if i < n && rapid.IntRange(0, 3).Draw(rt, "fit") > 0 {
				for _, a := range c11Args {
					if convOutcome(a, fn.Params[i]) == "ok" {
						cand = append(cand, a)
					}
				}
			}
			if len(cand) == 0 {
				cand = c11Args
			}
			a := rapid.SampledFrom(cand).Draw(rt, "arg")
			if !strings.Contains(a.Text, "id") && rapid.IntRange(0, 4).Draw(rt, "nested") == 0 {
				a = viaCall(a, rapid.Bool().Draw(rt, "two")) // the argument arrives through a nested call with arguments
			}
			c.Args = append(c.Args, a)
		}
		if c.Spread && na == 0 {
			c.Spread = false
		}
		msg, v := checkCall(c)
		key, _ := json.Marshal(c)
		run.CountKey(string(key), callNontrivial(c, v), v)
		run.Sample(v, fn.Sig()+"  <-  "+c.text())
		if msg != "" {
			run.Pending("rand", "c11", c, msg)
			rt.Fatalf("%s", msg)
		}
	})
}

// checkReturn: a returned Go int/int32/int64/float32/float64 becomes a formula number.
func checkReturn(kind, val string) string {
	rec := &spec.Recorder{}
	fn := spec.Fn{Name: "f", Ret: kind, RetS: val}
	data := c11Data(&fn, rec)
	r := formula.NewRunner()
	r.SetThis(data)
	p := obs.Parse([]byte("[f(), typeof f() === 'number', f() + 0 === f(), [f()]]"))
	out := obs.Eval(r, context.Background(), p.Src.Expression)
	arr, ok := out.Val.([]interface{})
	if out.Panic != nil || out.Err != nil || !ok || len(arr) != 4 {
		return fmt.Sprintf("f() returning %s(%s) -> %s", kind, val, out)
	}
	if b, ok := arr[1].(bool); !ok || !b {
		return fmt.Sprintf("typeof f() === 'number' is %s for f returning %s(%s)", obs.Show(arr[1]), kind, val)
	}
	got, isNum := obs.Rat(arr[0])
	if !isNum {
		return fmt.Sprintf("f() returning %s(%s) = %s, not a finite number", kind, val, obs.Show(arr[0]))
	}
	var want *big.Rat
	switch kind {
	case "float64":
		f, _ := strconv.ParseFloat(val, 64)
		want = ref.ShortestRat(f)
	case "float32":
		f, _ := strconv.ParseFloat(val, 32)
		// the value of the float32: accept its exact binary value or its shortest decimal form
		exact := ref.Float64Rat(float64(float32(f)))
		short, _ := new(big.Rat).SetString(strconv.FormatFloat(f, 'e', -1, 32))
		wide := ref.ShortestRat(float64(float32(f))) // the float32 widened to float64, as it prints
		if got.Cmp(exact) != 0 && got.Cmp(short) != 0 && got.Cmp(wide) != 0 {
			return fmt.Sprintf("f() returning float32(%s) = %s, want %s or %s", val, obs.Show(arr[0]), ref.DecString(exact), ref.DecString(short))
		}
		return ""
	default:
		want, _ = new(big.Rat).SetString(val)
	}
	if got.Cmp(want) != 0 {
		return fmt.Sprintf("f() returning %s(%s) = %s, want the same number", kind, val, obs.Show(arr[0]))
	}
	return ""
}

// TestC11Returns: returned Go numbers become formula numbers.
func TestC11Returns(t *testing.T) {
	run := h.Begin("C11", "returns", "enumerated + rapid: functions returning int, int32, int64, float32, float64 over boundary values (0, +-1, max/min of the type, 2^53+1, 0.1, 1e21, 3.4e38) and random values; oracle: typeof f() === 'number', the value is exactly the returned one (float64: the value it prints as; float32: its exact or shortest value), f()+0 === f(); non-trivial: |value| > 2^53 or a fraction; distinct by (kind, value)")
	defer run.End(t)
	cases := [][2]string{{"int", "0"}, {"int", "-1"}, {"int", "9007199254740993"}, {"int", "9223372036854775807"}, {"int", "-9223372036854775808"},
		{"int32", "0"}, {"int32", "2147483647"}, {"int32", "-2147483648"}, {"int64", "9007199254740993"}, {"int64", "-9223372036854775808"}, {"int64", "9223372036854775807"}, {"int64", "123"},
		{"float64", "0.1"}, {"float64", "1e21"}, {"float64", "-2.5"}, {"float64", "30.749999000000003"}, {"float64", "5e-324"}, {"float64", "1.7976931348623157e308"},
		{"float32", "0.1"}, {"float32", "1.5"}, {"float32", "3.4e38"}, {"float32", "-0.25"}, {"float32", "16777217"}}
	if h.Mine(0) {
		for _, c := range cases {
			run.CountKey(c[0]+c[1], true, c[0])
			run.Sample(c[0], c[0]+"("+c[1]+")")
			if msg := checkReturn(c[0], c[1]); msg != "" {
				run.Fail("c11-ret", c, msg)
			}
		}
	}
	if run.NViolations() > 0 {
		return
	}
	h.RapidSetup(h.N(1500, 500000), "c11ret")
	rapid.Check(t, func(rt *rapid.T) {
		var c [2]string
		switch rapid.IntRange(0, 3).Draw(rt, "kind") {
		case 0:
			c = [2]string{"int64", strconv.FormatInt(rapid.Int64().Draw(rt, "v"), 10)}
		case 1:
			c = [2]string{"int32", strconv.FormatInt(int64(rapid.Int32().Draw(rt, "v")), 10)}
		case 2:
			f := rapid.Float64().Draw(rt, "f")
			c = [2]string{"float64", strconv.FormatFloat(f, 'g', -1, 64)}
		case 3:
			f := rapid.Float32().Draw(rt, "f")
			c = [2]string{"float32", strconv.FormatFloat(float64(f), 'g', -1, 32)}
		}
		if strings.Contains(c[1], "Inf") || strings.Contains(c[1], "NaN") {
			return
		}
		run.CountKey(c[0]+c[1], len(c[1]) > 15 || strings.Contains(c[1], "."), c[0])
		if msg := checkReturn(c[0], c[1]); msg != "" {
			run.Pending("ret", "c11-ret", c, msg)
			rt.Fatalf("%s", msg)
		}
	})
}

// checkOrder: arguments are evaluated left to right, each exactly once, before the call.
func checkOrder(f string) string {
	rec := &spec.Recorder{}
	fn := spec.Fn{Name: "f", Params: []string{"any", "any"}, Variadic: true, Ret: "nil"}
	data := c11Data(&fn, rec)
	r := formula.NewRunner()
	r.SetThis(data)
	p := obs.Parse([]byte(f))
	if !p.OK() {
		return "HARNESS: " + f + " does not parse"
	}
	out := obs.Eval(r, context.Background(), p.Src.Expression)
	if out.Panic != nil || out.Err != nil {
		return fmt.Sprintf("%s -> %s", f, out)
	}
	// expected order: markers in source order; f after all its arguments
	var want []string
	toks := ref.Lex([]byte(f)).Tokens
	depthCalls := []int{}
	for i, tk := range toks {
		if tk.Kind == "id" && tk.Value == "rec" && toks[i+2].Value != "9" { // marker 9 sits in branches that must not run
			want = append(want, "rec"+toks[i+2].Value)
		}
		if tk.Kind == "id" && tk.Value == "f" {
			depthCalls = append(depthCalls, 0)
		}
	}
	_ = depthCalls
	var got []string
	for _, cl := range rec.Calls {
		if cl.Name == "rec" {
			got = append(got, fmt.Sprintf("rec%v", cl.Args[0]))
		}
	}
	if fmt.Sprint(got) != fmt.Sprint(want) {
		return fmt.Sprintf("%s: argument side effects ran in order %v, want %v (left to right, once each)", f, got, want)
	}
	// every f invocation happens after the markers of its own arguments
	seen := map[string]bool{}
	for _, cl := range rec.Calls {
		if cl.Name == "rec" {
			seen[fmt.Sprintf("rec%v", cl.Args[0])] = true
			continue
		}
		for _, a := range cl.Args {
			if d, ok := a.(*decimal.Big); ok {
				if i, ok := obs.Int(d); ok && i >= 1 && i <= 9 && !seen[fmt.Sprintf("rec%d", i)] {
					return fmt.Sprintf("%s: f was invoked before its argument rec(%d) was evaluated", f, i)
				}
			}
		}
	}
	return ""
}

// TestC11Order: left-to-right evaluation of arguments with side effects.
func TestC11Order(t *testing.T) {
	run := h.Begin("C11", "order", "enumerated: calls whose arguments are recording calls rec(i) (returning i), nested, in arrays, spread, mixed with local assignments; oracle: the recorded markers occur in source order, once each, and every invocation of f happens after its own arguments; every case non-trivial")
	defer run.End(t)
	if i, _ := h.Shard(); i != 0 {
		return
	}
	for _, f := range []string{
		"f(rec(1), rec(2), rec(3))", "f(rec(1), f(rec(2), rec(3)), rec(4))", "f([rec(1), rec(2)], rec(3))", "f(rec(1), [rec(2), rec(3)]...)",
		"f($a = rec(1), $a, rec(2))", "f(rec(1)) , f(rec(2))", "[f(rec(1)), f(rec(2), rec(3))]", "f(f(f(rec(1)), rec(2)), rec(3))", "f(rec(1) + rec(2), rec(3) * rec(4))", "f(true ? rec(1) : rec(9), rec(2))",
	} {
		run.Count(true, "")
		run.Sample("order", f)
		if msg := checkOrder(f); msg != "" {
			run.Fail("c11-order", f, msg)
		}
	}
	run.Exhaustive()
}

// manyCase: a call with many arguments.
type manyCase struct {
	K     int `json:"k"`     // number of values
	Shape int `json:"shape"` // 0 plain list, 1 spread, 2 two plain + spread, 3 array to slice parameter, 4 strings, 5 builtins
	Mul   int `json:"mul"`
}

func checkMany(c manyCase) string {
	vals := make([]int, c.K)
	lits := make([]string, c.K)
	for i := range vals {
		vals[i] = (i*c.Mul)%2001 - 1000
		lits[i] = strconv.Itoa(vals[i])
		if vals[i] < 0 {
			lits[i] = "(" + lits[i] + ")"
		}
	}
	list := strings.Join(lits, ", ")
	var gotAny [][]interface{}
	var gotInt [][]int
	var gotStr [][]string
	var gotHead []string
	data := map[string]interface{}{
		"va": func(xs ...interface{}) (int, error) {
			gotAny = append(gotAny, append([]interface{}(nil), xs...))
			return len(xs), nil
		},
		"vi": func(xs ...int) (int, error) { gotInt = append(gotInt, append([]int(nil), xs...)); return len(xs), nil },
		"va2": func(a, b interface{}, xs ...interface{}) (int, error) {
			gotAny = append(gotAny, append([]interface{}{a, b}, xs...))
			return len(xs) + 2, nil
		},
		"vi2": func(a, b int, xs ...int) (int, error) {
			gotInt = append(gotInt, append([]int{a, b}, xs...))
			return len(xs) + 2, nil
		},
		"sl": func(xs []int) (int, error) { gotInt = append(gotInt, append([]int(nil), xs...)); return len(xs), nil },
		"vs": func(h string, xs ...string) (int, error) {
			gotHead = append(gotHead, h)
			gotStr = append(gotStr, append([]string(nil), xs...))
			return len(xs), nil
		},
	}
	var f string
	wantLen := c.K
	switch c.Shape {
	case 0:
		f = "[va(" + list + "), vi(" + list + ")]"
	case 1:
		f = "[va([" + list + "]...), vi([" + list + "]...)]"
	case 2:
		f = "[va2(" + lits[0] + ", " + lits[1] + ", [" + strings.Join(lits[2:], ", ") + "]...), vi2(" + lits[0] + ", " + lits[1] + ", [" + strings.Join(lits[2:], ", ") + "]...)]"
	case 3:
		f = "[sl([" + list + "])]"
	case 4:
		f = "[vs('h', " + list + "), vs('h', [" + list + "]...)]"
	default:
		f = "[max(" + list + "), min([" + list + "]...), len(join([" + list + "], ','))]"
	}
	p := obs.Parse([]byte(f))
	if !p.OK() {
		return fmt.Sprintf("HARNESS: %q does not parse: %v", f, p.Err)
	}
	r := formula.NewRunner()
	r.SetThis(data)
	out := obs.Eval(r, context.Background(), p.Src.Expression)
	short := f
	if len(short) > 160 {
		short = short[:80] + " ... " + short[len(short)-60:]
	}
	if out.Panic != nil || out.Err != nil {
		return fmt.Sprintf("%s with %d values: %s, want every call made once with all its arguments", short, c.K, out)
	}
	arr, ok := out.Val.([]interface{})
	if !ok {
		return fmt.Sprintf("%s = %s, want a list", short, out)
	}
	if c.Shape == 5 {
		mx, mn, jl := vals[0], vals[0], c.K-1
		for _, v := range vals {
			if v > mx {
				mx = v
			}
			if v < mn {
				mn = v
			}
			jl += len(strconv.Itoa(v))
		}
		for i, w := range []int{mx, mn, jl} {
			if g, ok := obs.Int(arr[i]); !ok || g != int64(w) {
				return fmt.Sprintf("%s with %d values: element %d = %s, want %d", short, c.K, i, obs.Show(arr[i]), w)
			}
		}
		return ""
	}
	for i, e := range arr {
		if g, ok := obs.Int(e); !ok || g != int64(wantLen) {
			return fmt.Sprintf("%s: call %d received %s arguments in its variadic tail / slice, want %d", short, i, obs.Show(e), wantLen)
		}
	}
	if len(gotAny)+len(gotInt)+len(gotStr) != len(arr) {
		return fmt.Sprintf("%s: %d invocations recorded, want %d (one per call)", short, len(gotAny)+len(gotInt)+len(gotStr), len(arr))
	}
	for _, xs := range gotAny {
		for i, x := range xs {
			if g, ok := obs.Int(x); !ok || g != int64(vals[i]) {
				return fmt.Sprintf("%s: argument %d of %d arrived as %s, want %d", short, i, c.K, obs.Show(x), vals[i])
			}
		}
	}
	for _, xs := range gotInt {
		for i, x := range xs {
			if x != vals[i] {
				return fmt.Sprintf("%s: int argument %d of %d arrived as %d, want %d", short, i, c.K, x, vals[i])
			}
		}
	}
	for k, xs := range gotStr {
		if gotHead[k] != "h" {
			return fmt.Sprintf("%s: leading argument arrived as %q, want \"h\"", short, gotHead[k])
		}
		for i, x := range xs {
			if x != strconv.Itoa(vals[i]) {
				return fmt.Sprintf("%s: string argument %d of %d arrived as %q, want %q", short, i, c.K, x, strconv.Itoa(vals[i]))
			}
		}
	}
	return ""
}

func init() {
	h.RegisterReplay("c11-many", func(raw json.RawMessage) string {
		c, err := h.Decode[manyCase](raw)
		if err != nil {
			return "bad replay: " + err.Error()
		}
		return checkMany(c)
	})
}

// TestC11Many: the contract does not bound the number of arguments or elements.
func TestC11Many(t *testing.T) {
	run := h.Begin("C11", "many", "enumerated: calls with k = 3..40, 63..66, 127..130, 255..258, 500, 1000 (thorough: every k up to 300, 1000, 5000) integer arguments - written out, spread from a list, two written out plus a spread, a list for a slice parameter, numbers for a string tail, and the builtins max / min / join - to recording functions with ...interface{}, ...int, (a, b, ...rest), []int and (string, ...string) signatures; oracle: one invocation per call, every argument present, in order, converted; non-trivial: k >= 17; distinct by (k, shape)")
	defer run.End(t)
	ks := []int{500, 1000}
	for k := 3; k <= 40; k++ {
		ks = append(ks, k)
	}
	for _, b := range []int{64, 128, 256} {
		ks = append(ks, b-1, b, b+1, b+2)
	}
	if h.Tier() == "thorough" {
		ks = []int{1000, 5000}
		for k := 3; k <= 300; k++ {
			ks = append(ks, k)
		}
	}
	si, sn := h.Shard()
	n := 0
	for _, k := range ks {
		for shape := 0; shape <= 5; shape++ {
			if n++; n%sn != si {
				continue
			}
			c := manyCase{K: k, Shape: shape, Mul: 7 + 2*(k%5)}
			run.Count(k >= 17, fmt.Sprintf("shape%d", shape))
			if k == 20 {
				run.Sample("many", fmt.Sprintf("k=%d shape=%d", k, shape))
			}
			if msg := checkMany(c); msg != "" {
				run.Fail("c11-many", c, msg)
			}
		}
	}
	run.Exhaustive()
}

// quotaErr is a concrete error type; richErr an interface that embeds error.
type quotaErr struct{ Code int }

func (e *quotaErr) Error() string { return fmt.Sprintf("quota %d", e.Code) }

type richErr interface {
	error
	Rich() bool
}

func (e *quotaErr) Rich() bool { return true }

// checkErrType: one host function whose second result is declared as kind,
// called with fail or not.
func checkErrType(kind string, fail bool) string {
	calls := 0
	var fn interface{}
	switch kind {
	case "error":
		fn = func(n int) (int, error) {
			calls++
			if fail {
				return 0, &quotaErr{n}
			}
			return n * 2, nil
		}
	case "pointer":
		fn = func(n int) (int, *quotaErr) {
			calls++
			if fail {
				return 0, &quotaErr{n}
			}
			return n * 2, nil
		}
	case "interface":
		fn = func(n int) (int, richErr) {
			calls++
			if fail {
				return 0, &quotaErr{n}
			}
			return n * 2, nil
		}
	}
	// the same for the signature shapes a typed fast path would single out
	if kind == "error" {
		sigCalls := 0
		boom := func() error {
			sigCalls++
			if fail {
				return fmt.Errorf("rejected")
			}
			return nil
		}
		sigs := map[string]interface{}{
			"sDec":    func(n *decimal.Big) (*decimal.Big, error) { return n, boom() },
			"sStr":    func(s string) (string, error) { return s, boom() },
			"sPair":   func(a, b string) (bool, error) { return a == b, boom() },
			"sFloat":  func(f float64) (float64, error) { return f, boom() },
			"sAny":    func(v interface{}) (interface{}, error) { return v, boom() },
			"sNone":   func() (int, error) { return 1, boom() },
			"sCtx":    func(ctx context.Context, s string) (string, error) { return s, boom() },
			"sInts":   func(xs ...int) (int, error) { return len(xs), boom() },
			"sTime":   func(t time.Time) (time.Time, error) { return t, boom() },
			"sBoolIn": func(b bool) (bool, error) { return b, boom() },
		}
		for _, f := range []string{"sDec(41)", "sStr('abc')", "sPair('abc', 'b')", "sFloat(2.5)", "sAny('x')", "sNone()", "sCtx('c')", "sInts(1, 2, 3)", "sTime(date(2024, 1, 2))", "sBoolIn(true)", "[sStr('a'), sDec(1)]", "sStr(sStr('a'))"} {
			sigCalls = 0
			p := obs.Parse([]byte(f))
			if !p.OK() {
				return "HARNESS: " + f
			}
			r := formula.NewRunner()
			r.SetThis(sigs)
			out := obs.Eval(r, context.Background(), p.Src.Expression)
			wantCalls := strings.Count(f, "(") - strings.Count(f, "date(")
			if fail {
				wantCalls = 1 // the first returned error ends the evaluation
			}
			if out.Panic != nil || (out.Err != nil) != fail || sigCalls != wantCalls {
				return fmt.Sprintf("%s with every host function returning %v: %s after %d invocations, want %d invocation(s) and error=%v", f, map[bool]string{true: "an error", false: "no error"}[fail], out, sigCalls, wantCalls, fail)
			}
		}
	}
	for _, f := range []string{"reserve(3.9) + 1", "[reserve(3.9), 1]", "$a = reserve(3.9), $a"} {
		calls = 0
		p := obs.Parse([]byte(f))
		if !p.OK() {
			return "HARNESS: " + f
		}
		r := formula.NewRunner()
		r.SetThis(map[string]interface{}{"reserve": fn})
		out := obs.Eval(r, context.Background(), p.Src.Expression)
		what := fmt.Sprintf("%s with reserve declared func(int) (int, %s) returning %v", f, map[string]string{"error": "error", "pointer": "*quotaErr", "interface": "richErr"}[kind], map[bool]string{true: "an error", false: "no error"}[fail])
		if out.Panic != nil {
			return what + ": " + out.String()
		}
		if calls != 1 {
			return fmt.Sprintf("%s: %d invocations, want 1", what, calls)
		}
		if fail {
			if out.Err == nil || !strings.Contains(out.Err.Error(), "reserve") {
				return fmt.Sprintf("%s: %s, want an error naming the function", what, out)
			}
			continue
		}
		if out.Err != nil {
			return fmt.Sprintf("%s: %s, want the returned number (6) to be used", what, out)
		}
	}
	return ""
}

func init() {
	h.RegisterReplay("c11-errtype", func(raw json.RawMessage) string {
		c, err := h.Decode[[2]string](raw)
		if err != nil {
			return "bad replay: " + err.Error()
		}
		return checkErrType(c[0], c[1] == "fail")
	})
}

// TestC11ErrorTypes: "a returned error aborts evaluation" - and only a returned error.
func TestC11ErrorTypes(t *testing.T) {
	run := h.Begin("C11", "error-types", "enumerated: host functions whose second result is declared as error, as a pointer type that implements error, or as an interface that embeds error, returning an error or none, called inside '+', a list and an assignment; oracle: one invocation; no error returned => the returned number is used, an error returned => evaluation fails with an error naming the function; every case non-trivial")
	defer run.End(t)
	if i, _ := h.Shard(); i != 0 {
		return
	}
	for _, kind := range []string{"error", "pointer", "interface"} {
		for _, fail := range []bool{false, true} {
			c := [2]string{kind, map[bool]string{true: "fail", false: "ok"}[fail]}
			run.Count(true, kind)
			run.Sample(kind, c[0]+"/"+c[1])
			if msg := checkErrType(kind, fail); msg != "" {
				run.Fail("c11-errtype", c, msg)
			}
		}
	}
	run.Exhaustive()
}

// aliasArgCase: a call one of whose arguments is a shared number and another an
// expression that computes with the same number.
type aliasArgCase struct {
	Use   string `json:"use"`   // expression with X for the shared number
	Kind  string `json:"kind"`  // local | dec | int | float
	Val   string `json:"val"`   // the shared number
	First bool   `json:"first"` // the shared number is the first argument (else the last)
	Param string `json:"param"` // any | dec | float64 | int
}

func (c aliasArgCase) text() string {
	x := map[string]string{"local": "$x", "dec": "dec", "int": "iv", "float": "fv"}[c.Kind]
	u := strings.ReplaceAll(c.Use, "X", x)
	f := "[got(" + u + ", " + x + "), " + x + "]"
	if c.First {
		f = "[got(" + x + ", " + u + "), " + x + "]"
	}
	if c.Kind == "local" {
		f = "$x = " + c.Val + ", " + f
	}
	return f
}

func checkAliasArg(c aliasArgCase) string {
	want, ok := ref.RatOf(strings.TrimPrefix(c.Val, "-"))
	if !ok {
		return "HARNESS: bad value " + c.Val
	}
	if strings.HasPrefix(c.Val, "-") {
		want.Neg(want)
	}
	d := new(decimal.Big)
	d.SetString(c.Val)
	iv, _ := strconv.Atoi(c.Val)
	fv, _ := strconv.ParseFloat(c.Val, 64)
	var seen []string // the shared argument as it arrived, read at the time of the call
	note := func(v interface{}) {
		if r, ok := obs.Rat(v); ok {
			seen = append(seen, r.RatString())
		} else {
			seen = append(seen, obs.Show(v))
		}
	}
	pick := func(a, b interface{}) interface{} {
		if c.First {
			return a
		}
		return b
	}
	var fn interface{}
	switch c.Param {
	case "any":
		fn = func(a, b interface{}) (int, error) { note(pick(a, b)); return 1, nil }
	case "dec":
		fn = func(a, b *decimal.Big) (int, error) { note(pick(a, b)); return 1, nil }
	case "float64":
		fn = func(a, b float64) (int, error) { note(pick(a, b)); return 1, nil }
	default:
		fn = func(a, b int) (int, error) { note(pick(a, b)); return 1, nil }
	}
	data := map[string]interface{}{"dec": d, "iv": iv, "fv": fv, "got": fn}
	text := c.text()
	p := obs.Parse([]byte(text))
	if !p.OK() {
		return fmt.Sprintf("HARNESS: %q does not parse: %v", text, p.Err)
	}
	for round := 1; round <= 2; round++ {
		seen = nil
		r := formula.NewRunner()
		r.SetThis(data)
		out := obs.Eval(r, context.Background(), p.Src.Expression)
		arr, isArr := out.Val.([]interface{})
		if out.Panic != nil || out.Err != nil || !isArr || len(arr) != 2 {
			return fmt.Sprintf("%s with got declared func(%s, %s) -> %s", text, c.Param, c.Param, out)
		}
		if len(seen) != 1 || seen[0] != want.RatString() {
			return fmt.Sprintf("%s with got declared func(%s, %s) (evaluation %d over the same data): the argument %s arrived as %v, want %s once", text, c.Param, c.Param, round, map[bool]string{true: "1", false: "2"}[c.First], seen, c.Val)
		}
		if g, isNum := obs.Rat(arr[1]); !isNum || g.Cmp(want) != 0 {
			return fmt.Sprintf("%s (evaluation %d over the same data): the shared number reads %s after the call, want %s", text, round, obs.Show(arr[1]), c.Val)
		}
		delete(data, "$x")
	}
	return ""
}

func init() {
	h.RegisterReplay("c11-alias", func(raw json.RawMessage) string {
		c, err := h.Decode[aliasArgCase](raw)
		if err != nil {
			return "bad replay: " + err.Error()
		}
		return checkAliasArg(c)
	})
}

// TestC11AliasedArguments: every argument arrives with the value its expression
// has - also when a neighbouring argument computes with the same number.
func TestC11AliasedArguments(t *testing.T) {
	uses := []string{"-X", "-(X ?? 0)", "-(X || 0)", "-(true ? X : 0)", "-max(X, X)", "-(0, X)", "-($y = X)", "+X", "~X", "X + 1", "X * 2", "0 - X", "abs(X)", "round(X)", "floor(X)", "-toFloat(X)", "-finite(X)", "-min(X, 1000)"}
	run := h.Begin("C11", "aliased-arguments", fmt.Sprintf("bounded-exhaustive: got(X, U) and got(U, X) for %d expressions U that compute with the same number X (unary minus directly and through ??, ||, ?:, comma, assignment, max/min/finite/toFloat; ~, arithmetic, numeric builtins) x X held as a local, a caller's *decimal.Big, int and float64 x 3 values x parameters declared interface{}, *decimal.Big, float64, int, each evaluated twice over the same data; oracle: one invocation, X arrives with its own value (read at the time of the call), and reads the same afterwards; every case non-trivial", len(uses)))
	defer run.End(t)
	var idx int64
	for _, use := range uses {
		for _, kind := range []string{"local", "dec", "int", "float"} {
			for _, val := range []string{"3", "-7", "12"} {
				for _, first := range []bool{true, false} {
					for _, param := range []string{"any", "dec", "float64", "int"} {
						idx++
						if !h.Mine(idx) || run.NViolations() >= 3 {
							continue
						}
						c := aliasArgCase{Use: use, Kind: kind, Val: val, First: first, Param: param}
						run.Count(true, kind)
						if idx%173 == 0 {
							run.Sample(kind, c.text())
						}
						if msg := checkAliasArg(c); msg != "" {
							run.Fail("c11-alias", c, msg)
						}
					}
				}
			}
		}
	}
	run.Exhaustive()
}

// checkEmptySpread evaluates one `f(...)` formula over the six recording functions.
func checkEmptySpread(f string) string {
	type sig struct {
		variadic bool
		fixed    int
	}
	sigs := map[string]sig{"plain": {false, 0}, "withCtx": {false, 0}, "one": {false, 1}, "tail": {true, 0}, "ctxTail": {true, 0}, "oneTail": {true, 1}}
	calls := 0
	data := map[string]interface{}{
		"plain":   func() (int, error) { calls++; return 7, nil },
		"withCtx": func(ctx context.Context) (int, error) { calls++; return 7, nil },
		"one":     func(a int) (int, error) { calls++; return 7, nil },
		"tail":    func(xs ...int) (int, error) { calls++; return len(xs), nil },
		"ctxTail": func(ctx context.Context, xs ...string) (int, error) { calls++; return len(xs), nil },
		"oneTail": func(a int, xs ...int) (int, error) { calls++; return len(xs), nil },
	}
	name := ""
	for n := range sigs {
		if strings.Contains(f, n+"(...)") && len(n) > len(name) {
			name = n
		}
	}
	sg := sigs[name]
	p := obs.Parse([]byte(f))
	if !p.OK() {
		return "" // a grammar that rejects `f(...)` outright reports the misuse even earlier
	}
	r := formula.NewRunner()
	r.SetThis(data)
	out := obs.Eval(r, context.Background(), p.Src.Expression)
	switch {
	case out.Panic != nil:
		return fmt.Sprintf("%s -> %s", f, out)
	case !sg.variadic || sg.fixed > 0:
		if out.Err == nil || calls != 0 {
			return fmt.Sprintf("%s with %s declared without a variadic tail it could fill (%d fixed parameters, variadic=%v) -> %s after %d invocations, want an error and no invocation", f, name, sg.fixed, sg.variadic, out, calls)
		}
	case out.Err != nil && calls != 0, out.Err == nil && calls != 1:
		return fmt.Sprintf("%s -> %s after %d invocations, want an error without invocation or one invocation with an empty tail", f, out, calls)
	}
	return ""
}

func init() {
	h.RegisterReplay("c11-emptyspread", func(raw json.RawMessage) string {
		f, err := h.Decode[string](raw)
		if err != nil {
			return "bad replay: " + err.Error()
		}
		return checkEmptySpread(f)
	})
}

// TestC11EmptySpread: `f(...)` - a spread with nothing in front of it.
func TestC11EmptySpread(t *testing.T) {
	run := h.Begin("C11", "empty-spread", "enumerated: f(...) for recording functions without parameters, with only a context, with fixed parameters, with fixed parameters and a variadic tail, and purely variadic ones, alone and inside a list; oracle: spread on a non-variadic function is misuse - no invocation and an error; on a variadic function either that, or one invocation with an empty tail when no fixed parameter is missing; every case non-trivial")
	defer run.End(t)
	if i, _ := h.Shard(); i != 0 {
		return
	}
	for _, name := range []string{"plain", "withCtx", "one", "tail", "ctxTail", "oneTail"} {
		for _, form := range []string{"_(...)", "[1, _(...)]", "_(...) ?? 0"} {
			f := strings.ReplaceAll(form, "_", name)
			run.Count(true, name)
			run.Sample(name, f)
			if msg := checkEmptySpread(f); msg != "" {
				run.Fail("c11-emptyspread", f, msg)
			}
		}
	}
	run.Exhaustive()
}

type c11Sku string
type c11Offset int

var c11NamedCases = []struct{ f, want, recv string }{
	{"startWith(code, 'AB')", "true", ""}, {"len(code)", "8", ""}, {"upper(code)", "AB-12-AB", ""}, {"find(code, '12')", "3", ""}, {"replace(code, '-', '')", "AB12ab", ""},
	{"lpad(num, '0', 5)", "00042", ""}, {"left('ABCD', off)", "AB", ""}, {"join(tags, ',')", "x,,y", ""},
	{"recS(code)", "AB-12-ab", "AB-12-ab"}, {"recS(num)", "42", "42"}, {"recI(off)", "2", "2"}, {"recV(code, num)", "2", "AB-12-ab|42"}, {"recV(tags...)", "3", "x||y"},
}

func checkNamed(f string) string {
	var got []string
	data := map[string]interface{}{
		"code": c11Sku("AB-12-ab"), "num": json.Number("42"), "off": c11Offset(2), "tags": []c11Sku{"x", "", "y"},
		"recS": func(s string) (string, error) { got = append(got, s); return s, nil },
		"recI": func(n int) (int, error) { got = append(got, strconv.Itoa(n)); return n, nil },
		"recV": func(xs ...string) (int, error) { got = append(got, strings.Join(xs, "|")); return len(xs), nil },
	}
	for _, c := range c11NamedCases {
		if c.f != f {
			continue
		}
		p := obs.Parse([]byte(c.f))
		if !p.OK() {
			return "HARNESS: does not parse: " + c.f
		}
		r := formula.NewRunner()
		r.SetThis(data)
		out := obs.Eval(r, context.Background(), p.Src.Expression)
		val := fmt.Sprint(out.Val)
		if rr, ok := obs.Rat(out.Val); ok {
			val = rr.RatString()
		}
		if out.Panic != nil || out.Err != nil || val != c.want || (c.recv != "" && (len(got) != 1 || got[0] != c.recv)) {
			return fmt.Sprintf("%s over values of defined types (sku string, offset int, json.Number, []sku) -> %s, received %q; want %s and the host function called once with %q", c.f, out, got, c.want, c.recv)
		}
	}
	return ""
}

// TestC11NamedTypes: "anything to string by formatting", "numbers to Go integers" -
// also for host values whose Go type is a defined type over string or int.
func TestC11NamedTypes(t *testing.T) {
	run := h.Begin("C11", "named-types", "enumerated: host values of defined types (type sku string, type offset int, json.Number, []sku) handed to string / int / []string parameters of builtins and of recording host functions; oracle: the parameter receives the value's text / integer, one invocation; every case non-trivial")
	defer run.End(t)
	if i, _ := h.Shard(); i != 0 {
		return
	}
	for _, c := range c11NamedCases {
		run.Count(true, "")
		run.Sample("named", c.f)
		if msg := checkNamed(c.f); msg != "" {
			run.Fail("c11-named", c.f, msg)
		}
	}
	run.Exhaustive()
}

func init() {
	h.RegisterReplay("c11-named", func(raw json.RawMessage) string {
		f, err := h.Decode[string](raw)
		if err != nil {
			return "bad replay: " + err.Error()
		}
		return checkNamed(f)
	})
}

// nestedSpreadCase: a call one of whose arguments is itself a call; `...` belongs to the call it is written in.
type nestedSpreadCase struct {
	Text string `json:"text"`
	Want string `json:"want"` // the expected invocation log followed by the result
}

func checkNestedSpread(c nestedSpreadCase) string {
	var log []string
	note := func(name string, args ...interface{}) {
		log = append(log, name+obs.Show(args))
	}
	data := map[string]interface{}{
		"list": []interface{}{1, 2, 3},
		"one":  []interface{}{7},
		"wrap": func(xs ...interface{}) (interface{}, error) { note("wrap", xs...); return append([]interface{}{}, xs...), nil },
		"count": func(xs ...interface{}) (int, error) {
			note("count", xs...)
			return len(xs), nil
		},
		"sum": func(xs ...int) (int, error) {
			t := 0
			var as []interface{}
			for _, x := range xs {
				t += x
				as = append(as, x)
			}
			note("sum", as...)
			return t, nil
		},
		"add2": func(a, b int) (int, error) { note("add2", a, b); return a + b, nil },
		"pair": func(a interface{}, rest ...interface{}) (int, error) {
			note("pair", append([]interface{}{a}, rest...)...)
			return 1 + len(rest), nil
		},
	}
	p := obs.Parse([]byte(c.Text))
	if !p.OK() {
		return "HARNESS: " + c.Text
	}
	r := formula.NewRunner()
	r.SetThis(data)
	out := obs.Eval(r, context.Background(), p.Src.Expression)
	if out.Panic != nil {
		return fmt.Sprintf("%s panicked: %v", c.Text, out.Panic)
	}
	got := strings.Join(log, " ") + " => " + obs.Show(out.Val)
	if out.Err != nil {
		got = strings.Join(log, " ") + " => error " + out.Err.Error()
	}
	if got != c.Want {
		return fmt.Sprintf("%s with list = [1, 2, 3]: invocations and result %s, want %s (a spread belongs to the call it is written in)", c.Text, got, c.Want)
	}
	return ""
}

func init() {
	h.RegisterReplay("c11-nested", func(raw json.RawMessage) string {
		c, err := h.Decode[nestedSpreadCase](raw)
		if err != nil {
			return "bad replay: " + err.Error()
		}
		return checkNestedSpread(c)
	})
}

// TestC11NestedSpread: calls inside the argument lists of calls, with and without `...` at either level.
func TestC11NestedSpread(t *testing.T) {
	run := h.Begin("C11", "nested-spread", "enumerated: 16 formulas in which a call with a spread argument is an argument (first, last, only, inside a list literal) of a call without one and the other way round, over recording host functions of variadic and fixed signatures; oracle: the invocation log (each function with the arguments it received, inner calls first) and the result; every case non-trivial")
	defer run.End(t)
	cases := []nestedSpreadCase{
		{"count(wrap(list...))", "wrap[1,2,3] count[[1,2,3]] => 1"},
		{"add2(1, sum(list...))", "sum[1,2,3] add2[1,6] => 7"},
		{"add2(sum(list...), 10)", "sum[1,2,3] add2[6,10] => 16"},
		{"count([sum(list...)])", "sum[1,2,3] count[[6]] => 1"},
		{"count(wrap(list...), 5)", "wrap[1,2,3] count[[1,2,3],5] => 2"},
		{"count(5, wrap(list...))", "wrap[1,2,3] count[5,[1,2,3]] => 2"},
		{"wrap(count(list...))", "count[1,2,3] wrap[3] => [3]"},
		{"count(wrap(list...)...)", "wrap[1,2,3] count[1,2,3] => 3"},
		{"count(wrap(list)...)", "wrap[[1,2,3]] count[[1,2,3]] => 1"},
		{"pair(sum(list...), wrap(one...))", "sum[1,2,3] wrap[7] pair[6,[7]] => 2"},
		{"pair(sum(list...), wrap(one...)...)", "sum[1,2,3] wrap[7] pair[6,7] => 2"},
		{"count(count(list...), count(one...))", "count[1,2,3] count[7] count[3,1] => 2"},
		{"count(wrap(wrap(list...)))", "wrap[1,2,3] wrap[[1,2,3]] count[[[1,2,3]]] => 1"},
		{"add2(sum(one...), sum(list...))", "sum[7] sum[1,2,3] add2[7,6] => 13"},
		{"max(sum(list...), 2)", "sum[1,2,3] => 6"},
		{"count(sum(list...), sum(one...))", "sum[1,2,3] sum[7] count[6,7] => 2"},
	}
	for i, c := range cases {
		if !h.Mine(int64(i + 1)) {
			continue
		}
		run.Count(true, "nested")
		run.Sample("nested", c.Text)
		if msg := checkNestedSpread(c); msg != "" {
			run.Fail("c11-nested", c, msg)
		}
	}
	run.Exhaustive()
}
