package props

import (
	"encoding/json"
	"fmt"
	"strings"
	"testing"

	"github.com/ericlagergren/decimal"
	"pgregory.net/rapid"

	"verif/internal/h"
	"verif/internal/obs"
	"verif/internal/ref"
)

// C12 — numeric literals denote exactly the decimal number written.

// litValue evaluates formula (which must yield an array) and returns element idx as a decimal.
func litElems(formulaText string) ([]*decimal.Big, string) {
	out := obs.EvalText(formulaText, map[string]interface{}{"c": true})
	if out.Panic != nil || out.Err != nil {
		return nil, out.String()
	}
	arr, ok := out.Val.([]interface{})
	if !ok {
		return nil, "not an array: " + out.String()
	}
	var res []*decimal.Big
	for _, e := range arr {
		d, ok := e.(*decimal.Big)
		if !ok {
			return nil, fmt.Sprintf("element %s is not a number", obs.Show(e))
		}
		res = append(res, d)
	}
	return res, ""
}

// sameValue: the decimal d equals the number spelled by lit (separators removed).
func sameValue(d *decimal.Big, lit string) bool {
	if d == nil || !d.IsFinite() {
		return false
	}
	s := d.String()
	if strings.HasPrefix(s, "-") || strings.HasPrefix(s, "+") {
		return false
	}
	return ref.SameNum(s, lit)
}

// checkLiteral decides one candidate literal text (no whitespace inside).
func checkLiteral(s string) (msg string, class string) {
	lr := ref.Lex([]byte(s))
	switch {
	case !lr.Err && len(lr.Tokens) == 2 && lr.Tokens[0].Kind == "num":
		val := lr.Tokens[0].Value
		for _, ctx := range []string{"[_]", "[(_)]", "[0,_]", "[c?_:0]", "[ _ ]"} {
			f := strings.ReplaceAll(ctx, "_", s)
			elems, em := litElems(f)
			if em != "" {
				return fmt.Sprintf("%s: valid literal %q did not evaluate: %s", f, s, em), "valid"
			}
			got := elems[len(elems)-1]
			if !sameValue(got, val) {
				return fmt.Sprintf("%s: literal %q evaluated to %s, it denotes %s", f, s, got.String(), val), "valid"
			}
		}
		// ... and behind the other tokens an operand may follow, two of them per literal in turn: operators that
		// hand their right operand on unchanged, written without spaces, and typeof
		c12CtxCount++
		for k := 0; k < 2; k++ {
			ctx := c12MoreCtx[(c12CtxCount*2+k)%len(c12MoreCtx)]
			f := strings.ReplaceAll(ctx, "_", s)
			if strings.Contains(ctx, "typeof") {
				out := obs.EvalText(f, nil)
				if arr, ok := out.Val.([]interface{}); out.Panic != nil || out.Err != nil || !ok || len(arr) != 1 || arr[0] != "number" {
					return fmt.Sprintf("%s: valid literal %q: %s, want [\"number\"]", f, s, out), "valid"
				}
				continue
			}
			elems, em := litElems(f)
			if em != "" {
				return fmt.Sprintf("%s: valid literal %q did not evaluate: %s", f, s, em), "valid"
			}
			if got := elems[len(elems)-1]; !sameValue(got, val) {
				return fmt.Sprintf("%s: literal %q evaluated to %s, it denotes %s", f, s, got.String(), val), "valid"
			}
		}
		// next to a string literal of the same spelling, either way round: the number stays a number, the string a string
		if c12CtxCount%3 == 0 && !strings.ContainsAny(s, "'\\") {
			for _, f := range []string{"['" + s + "', " + s + "]", "[" + s + ", '" + s + "']"} {
				out := obs.EvalText(f, nil)
				arr, ok := out.Val.([]interface{})
				if out.Panic != nil || out.Err != nil || !ok || len(arr) != 2 {
					return fmt.Sprintf("%s: valid literal %q next to a string of the same spelling: %s", f, s, out), "valid"
				}
				ni, si := 1, 0
				if f[1] != '\'' {
					ni, si = 0, 1
				}
				d, isNum := arr[ni].(*decimal.Big)
				str, isStr := arr[si].(string)
				if !isNum || !sameValue(d, val) || !isStr || str != s {
					return fmt.Sprintf("%s = %s, want the number %s and the string %q", f, out, val, s), "valid"
				}
			}
		}
		// the literal as the whole formula (its value is handed back by reference): evaluates, and - through the
		// repeat / re-read checks of obs.EvalText - keeps evaluating to the same float64
		if top := obs.EvalText(s, nil); top.Panic != nil || top.Err != nil {
			return fmt.Sprintf("the literal %q as a whole formula: %s", s, top), "valid"
		}
		return "", "valid"
	case lr.Err && lr.Tokens[0].Kind == "num" && lr.GoodTokens == 0:
		// malformed literal: must be a syntax error in every context
		for _, ctx := range []string{"_", "[_]", "-_", "f(_)", "1+_"} {
			f := strings.ReplaceAll(ctx, "_", s)
			p := obs.Parse([]byte(f))
			if p.Panic != nil {
				return fmt.Sprintf("parse of %q panicked: %v", f, p.Panic), "malformed"
			}
			if p.Err == nil {
				v := obs.EvalText(f, nil)
				return fmt.Sprintf("malformed literal %q (error at offset %d of the literal) was accepted in %q as %s and evaluates to %s", s, lr.ErrPos, f, obs.Dump(p.Src.Expression), v), "malformed"
			}
		}
		return "", "malformed"
	default:
		// not a single literal: the grammar oracle of C02 applies
		return checkGrammar(s, ""), "other"
	}
}

var c12MoreCtx = []string{"[typeof _]", "[null??_]", "[0||_]", "[true&&_]", "[typeof\t_]", "[!c?0:_]", "[$v=_]", "[(0,_)]", "[typeof(_)]", "[len(left('abcdef', 3)), _]", "[len(mid('abcdef', 1, 4) + lpad('7', '0', 3)), 17, _]", "[year(date(2024, 1, 15)), _]"}

var c12CtxCount int

func c12Nontrivial(s string, class string) bool {
	if class == "malformed" {
		return true
	}
	if class != "valid" {
		return false
	}
	feat := 0
	if strings.Contains(s, ".") {
		feat++
	}
	if strings.ContainsAny(s, "eE") {
		feat++
	}
	if strings.Contains(s, "_") {
		feat++
	}
	if len(s) > 1 && s[0] == '0' && s[1] >= '0' && s[1] <= '9' {
		feat++
	}
	digits := 0
	for _, c := range s {
		if c >= '0' && c <= '9' {
			digits++
		}
	}
	if digits > 34 {
		feat++
	}
	return feat >= 2
}

func init() {
	h.RegisterReplay("c12", func(raw json.RawMessage) string {
		c, err := h.Decode[textCase](raw)
		if err != nil {
			return "bad replay: " + err.Error()
		}
		m, _ := checkLiteral(c.text())
		return m
	})
	h.RegisterReplay("c12-adj", func(raw json.RawMessage) string {
		c, err := h.Decode[[2]string](raw)
		if err != nil {
			return "bad replay: " + err.Error()
		}
		return checkAdjacency(c[0], c[1])
	})
}

var c12Alphabet = []string{"0", "1", "5", "9", ".", "e", "E", "_", "a", "$", "+", "-"}

// TestC12Exhaustive: all strings up to k symbols over {0,1,5,9,.,e,E,_,a,$,+,-}.
func TestC12Exhaustive(t *testing.T) {
	k := h.N(6, 7)
	run := h.Begin("C12", "exhaustive", fmt.Sprintf("bounded-exhaustive: every string of 1..%d symbols over {0,1,5,9,.,e,E,_,a,$,+,-}; classified by the reference tokenizer: a single valid literal must evaluate (in 5 contexts, through array elements) to exactly the number spelled (compared as coefficient/exponent, separators removed, leading zeros insignificant); a malformed literal (identifier character directly after it, exponent without digits, misplaced underscore) must be a syntax error in 5 contexts; everything else goes to the C02 grammar oracle; non-trivial: malformed literals, and valid ones combining >=2 of fraction/exponent/underscore/leading zeros/>34 digits", k))
	defer run.End(t)
	var sb strings.Builder
	enumSeq(len(c12Alphabet), k, func(seq []int) {
		if run.NViolations() >= 3 {
			return
		}
		sb.Reset()
		for _, s := range seq {
			sb.WriteString(c12Alphabet[s])
		}
		s := sb.String()
		msg, cls := checkLiteral(s)
		nt := c12Nontrivial(s, cls)
		run.Count(nt, cls)
		if nt && len(seq) == k && (seq[0]*7+seq[k-1]*3+seq[2])%53 == 0 {
			run.Sample(cls, s)
		}
		if msg != "" {
			run.Fail("c12", mkTextCase(s, ""), msg)
		}
	})
	run.Exhaustive()
}

func digitsN(t *rapid.T, label string, min, max int) string {
	n := rapid.IntRange(min, max).Draw(t, label+"n")
	if max >= 40 && rapid.IntRange(0, 15).Draw(t, label+"long") == 0 {
		// occasionally much longer than any plausible buffer ("however many digits it has")
		n = rapid.SampledFrom([]int{63, 64, 65, 127, 128, 129, 255, 256, 257, 400, 1000}).Draw(t, label+"nlong")
	}
	var b []byte
	for i := 0; i < n; i++ {
		b = append(b, byte('0'+rapid.IntRange(0, 9).Draw(t, label)))
	}
	return string(b)
}

// withSeparators inserts valid single underscores between digits.
func withSeparators(t *rapid.T, d string) string {
	if len(d) < 2 || rapid.IntRange(0, 2).Draw(t, "sepq") != 0 {
		return d
	}
	var b []byte
	for i := 0; i < len(d); i++ {
		b = append(b, d[i])
		if i+1 < len(d) && rapid.IntRange(0, 3).Draw(t, "us") == 0 {
			b = append(b, '_')
		}
	}
	return string(b)
}

// genLiteral builds a literal; bad selects one malformation (0 = valid).
func genLiteral(t *rapid.T) (lit string, valid bool) {
	form := rapid.IntRange(0, 3).Draw(t, "form")
	ip, fp := "", ""
	switch form {
	case 0: // digits
		ip = digitsN(t, "ip", 1, 40)
	case 1: // digits.digits
		ip, fp = digitsN(t, "ip", 1, 40), digitsN(t, "fp", 1, 40)
	case 2: // .digits
		fp = digitsN(t, "fp", 1, 40)
	case 3: // digits.
		ip = digitsN(t, "ip", 1, 40)
	}
	if rapid.IntRange(0, 3).Draw(t, "lz") == 0 && ip != "" {
		ip = strings.Repeat("0", rapid.IntRange(1, 4).Draw(t, "nlz")) + ip
	}
	lit = withSeparators(t, ip)
	if form != 0 {
		lit += "." + withSeparators(t, fp)
	}
	if rapid.Bool().Draw(t, "hasexp") {
		e := rapid.SampledFrom([]string{"e", "E"}).Draw(t, "e") + rapid.SampledFrom([]string{"", "+", "-"}).Draw(t, "esign")
		var ed string
		switch rapid.IntRange(0, 3).Draw(t, "ekind") {
		case 0:
			ed = digitsN(t, "ed", 1, 2)
		case 1:
			ed = digitsN(t, "ed", 1, 4)
		case 2:
			ed = "0" + digitsN(t, "ed", 1, 3)
		case 3:
			ed = fmt.Sprint(rapid.IntRange(0, 1000000).Draw(t, "ebig"))
		}
		lit += e + withSeparators(t, ed)
	}
	bad := rapid.IntRange(0, 9).Draw(t, "bad")
	switch bad {
	case 1: // identifier character right after
		idch := rapid.SampledFrom(c12IDChars).Draw(t, "idch")
		lit += idch
		if len(idch) > 1 && rapid.Bool().Draw(t, "idtail") {
			lit += digitsN(t, "idtaild", 1, 3) // ... and digits after a non-ASCII one, as in 2e3 spelled with a look-alike e
		}
		// "1e" + digits case: appending 'e' may form... always malformed (exponent without digits or id char)
		return lit, false
	case 2: // exponent without digits
		if !strings.ContainsAny(lit, "eE") {
			return lit + rapid.SampledFrom([]string{"e", "E", "e+", "e-"}).Draw(t, "noexp"), false
		}
	case 3: // misplaced underscore
		pos := rapid.IntRange(0, len(lit)).Draw(t, "upos")
		cand := lit[:pos] + "_" + lit[pos:]
		lr := ref.Lex([]byte(cand))
		if lr.Err && lr.Tokens[0].Kind == "num" {
			return cand, false
		}
	}
	return lit, true
}

// c12IDChars: identifier-start characters that may directly follow a literal (which makes it malformed): ASCII ones
// and non-ASCII ones, among them look-alikes of e and E (full-width, Cyrillic, Greek, script).
var c12IDChars = func() []string {
	out := []string{"a", "x", "$", "_", "e", "E", "n", "f", "L"}
	for _, r := range []rune{0xe9, 0xff45, 0xff25, 0x0435, 0x0415, 0x03b5, 0x212f, 0x2147, 0x4e2d, 0xb5, 0x2160, 0xff41, 0x1d452} {
		if ref.IsIDStart(r) {
			out = append(out, string(r))
		}
	}
	return out
}()

// TestC12Random: long literals in many arrangements.
func TestC12Random(t *testing.T) {
	run := h.Begin("C12", "random", "rapid: integer/fraction/exponent parts of 0-40 digits, occasionally 63-1000 digits (leading zeros, exponent values up to 10^6), all four literal forms, valid single separators, and one injected malformation (an ASCII or non-ASCII identifier character after the literal - full-width and other look-alikes of e, _ and the digits included -, exponent without digits, misplaced underscore); oracle and non-trivial rule as in the exhaustive part; distinct by literal text")
	defer run.End(t)
	h.RapidSetup(h.N(4000, 1500000), "c12rand")
	rapid.Check(t, func(rt *rapid.T) {
		lit, valid := genLiteral(rt)
		msg, cls := checkLiteral(lit)
		if msg == "" && valid && cls != "valid" {
			msg = fmt.Sprintf("HARNESS: generator believes %q is a valid literal but the reference classifies it as %s", lit, cls)
		}
		if msg == "" && !valid && cls != "malformed" {
			msg = fmt.Sprintf("HARNESS: generator believes %q is malformed but the reference classifies it as %s", lit, cls)
		}
		run.CountKey(lit, c12Nontrivial(lit, cls), cls)
		run.Sample(cls, lit)
		if msg != "" {
			run.Pending("rand", "c12", mkTextCase(lit, ""), msg)
			rt.Fatalf("%s", msg)
		}
	})
}

// checkAdjacency: literals embedded without spaces next to operators; the sum /
// difference / product must be the exact one (small operands, exact in 34 digits).
func checkAdjacency(a, b string) string {
	ra, ok1 := ref.RatOf(a)
	rb, ok2 := ref.RatOf(b)
	if !ok1 || !ok2 {
		return ""
	}
	f := "[" + a + "+" + b + "," + a + "-" + b + "," + a + "*" + b + ",-" + b + "]"
	lr := ref.Lex([]byte(f))
	if lr.Err {
		return ""
	}
	elems, em := litElems(f)
	if em != "" {
		return fmt.Sprintf("%s did not evaluate: %s", f, em)
	}
	want := []string{
		ratAdd(ra, rb).FloatString(60), ratSub(ra, rb).FloatString(60), ratMul(ra, rb).FloatString(60), ratNeg(rb).FloatString(60),
	}
	for i, e := range elems {
		r, ok := obs.Rat(e)
		if !ok || r.FloatString(60) != want[i] {
			return fmt.Sprintf("%s: element %d = %s, want %s", f, i, e.String(), want[i])
		}
	}
	return ""
}

// TestC12Adjacency: every pair of short literal spellings embedded without
// spaces around + - * and unary minus.
func TestC12Adjacency(t *testing.T) {
	run := h.Begin("C12", "adjacency", "bounded-exhaustive: every ordered pair of 24 short literal spellings (1, 1., .5, 1.5, 1e1, 1e+1, 1E-1, 01, 1_0, 0.10, ...) embedded without spaces as a+b, a-b, a*b, -b inside an array; oracle: exact rational arithmetic on the spelled values (all results exact within 34 digits); non-trivial: a spelling with a leading/trailing dot or an exponent sign next to the operator")
	defer run.End(t)
	lits := []string{"1", "0", "7", "1.", ".5", "1.5", "0.25", "1e1", "1e+1", "1E-1", "2e0", "01", "007", "1_0", "1_0.2_5", "0.10", "12.50", "5e-3", ".5e1", "1.e2", "9", "99", "0e0", "00.00"}
	var idx int64
	for _, a := range lits {
		for _, b := range lits {
			idx++
			if !h.Mine(idx) || run.NViolations() >= 3 {
				continue
			}
			nt := strings.HasSuffix(a, ".") || strings.HasPrefix(b, ".") || strings.ContainsAny(a+b, "+-")
			run.Count(nt, "")
			if idx%37 == 0 {
				run.Sample("adj", "["+a+"+"+b+"]")
			}
			if msg := checkAdjacency(a, b); msg != "" {
				run.Fail("c12-adj", [2]string{a, b}, msg)
			}
		}
	}
	run.Exhaustive()
}

// TestC12PaddedParts: a literal denotes the number written however many
// redundant zeros (and separators) its parts carry.
func TestC12PaddedParts(t *testing.T) {
	var lits []string
	for _, k := range []int{1, 8, 16, 17, 18, 19, 20, 21, 32, 40, 64} {
		z := strings.Repeat("0", k)
		zs := strings.Repeat("0_", k/2) + "0"
		lits = append(lits, "1e"+z+"2", "25E+"+z+"1", "2.5e-"+z+"1", ".5e"+z, "7e"+z+"0", "1_0e"+zs+"3", "1e-"+z+"02", z+"12", z+"1.5", "1."+z+"5"+z, z+"."+z+"5", "3."+z, z+"7e"+z+"1", zs+"4")
	}
	run := h.Begin("C12", "padded-parts", fmt.Sprintf("enumerated: %d literals whose integer, fraction and exponent parts carry 1..64 redundant zeros (with and without digit separators, both exponent signs); oracle as for valid literals in the exhaustive part (the value written, in every context); every case non-trivial", len(lits)))
	defer run.End(t)
	for i, lit := range lits {
		if !h.Mine(int64(i)) || run.NViolations() >= 3 {
			continue
		}
		msg, cls := checkLiteral(lit)
		if cls != "valid" {
			run.Fail("c12", mkTextCase(lit, ""), fmt.Sprintf("HARNESS: %q is classified %s by the reference tokenizer", lit, cls))
			continue
		}
		run.Count(true, "")
		if i%17 == 0 && len(lit) < 80 {
			run.Sample("padded", lit)
		}
		if msg != "" {
			run.Fail("c12", mkTextCase(lit, ""), msg)
		}
	}
	run.Exhaustive()
}
