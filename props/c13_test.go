package props

import (
	"context"
	"encoding/json"
	"fmt"
	"strconv"
	"strings"
	"testing"
	"unicode/utf8"

	"github.com/aundis/formula"
	"pgregory.net/rapid"

	"verif/internal/h"
	"verif/internal/obs"
	"verif/internal/ref"
)

// C13 — string literals round-trip every text through quoting and escaping.

type strCase struct {
	Lit  string `json:"literal_quoted"` // the literal as written in the formula (strconv-quoted)
	Want string `json:"text_quoted"`    // the text it must evaluate to (strconv-quoted)
}

func (c strCase) lit() string  { s, _ := strconv.Unquote(c.Lit); return s }
func (c strCase) want() string { s, _ := strconv.Unquote(c.Want); return s }

func mkStrCase(lit, want string) strCase {
	return strCase{Lit: strconv.QuoteToASCII(lit), Want: strconv.QuoteToASCII(want)}
}

// escape forms for one character (rune or invalid byte), given the delimiter
const (
	fRaw = iota
	fNamed
	fHex
	fUni
)

var namedEsc = map[rune]string{'\'': `\'`, '"': `\"`, '\\': `\\`, '\n': `\n`, '\r': `\r`, '\t': `\t`, '\b': `\b`, '\f': `\f`, '\v': `\v`, 0: `\0`}

// formsFor lists the escape forms the statement allows for character c
// (valid reports a decodable rune; invalid bytes can only stay raw).
func formsFor(c rune, valid bool, quote byte) []int {
	if !valid {
		return []int{fRaw}
	}
	var fs []int
	if c != rune(quote) && c != '\\' && !ref.IsNL(c) {
		fs = append(fs, fRaw)
	}
	if _, ok := namedEsc[c]; ok {
		fs = append(fs, fNamed)
	}
	if c <= 0xFF {
		fs = append(fs, fHex)
	}
	if c <= 0xFFFF && !(c >= 0xD800 && c <= 0xDFFF) {
		fs = append(fs, fUni)
	}
	return fs
}

func spell(c rune, raw string, form int, upper bool) string {
	switch form {
	case fNamed:
		return namedEsc[c]
	case fHex:
		s := fmt.Sprintf("%02x", c)
		if upper {
			s = strings.ToUpper(s)
		}
		return `\x` + s
	case fUni:
		s := fmt.Sprintf("%04x", c)
		if upper {
			s = strings.ToUpper(s)
		}
		return `\u` + s
	}
	return raw
}

// pieces splits a text into characters (valid runes or single invalid bytes).
type piece struct {
	r     rune
	raw   string
	valid bool
}

func splitPieces(text string) []piece {
	var ps []piece
	for i := 0; i < len(text); {
		r, sz := utf8.DecodeRuneInString(text[i:])
		ps = append(ps, piece{r: r, raw: text[i : i+sz], valid: !(r == utf8.RuneError && sz == 1)})
		i += sz
	}
	return ps
}

// checkString: the literal must evaluate to exactly want, standalone and embedded.
func checkString(lit, want string) string {
	// harness self-check: the reference tokenizer decodes the literal to want
	lr := ref.Lex([]byte(lit))
	if lr.Err || len(lr.Tokens) != 2 || lr.Tokens[0].Kind != "str" || lr.Tokens[0].Value != want || lr.Tokens[0].Unspec {
		return fmt.Sprintf("HARNESS: reference decodes %q differently from the escaper (%q)", lit, want)
	}
	out := obs.EvalText(lit, nil)
	if got, ok := out.Val.(string); out.Panic != nil || out.Err != nil || !ok || got != want {
		return fmt.Sprintf("literal %s evaluates to %s, want %q", strconv.QuoteToASCII(lit), out, want)
	}
	// embedded: array element, concatenation with a marker, byte length
	out = obs.EvalText("["+lit+", 'L'+"+lit+"+'R', len("+lit+")]", nil)
	arr, ok := out.Val.([]interface{})
	if out.Panic != nil || out.Err != nil || !ok || len(arr) != 3 {
		return fmt.Sprintf("embedded literal %s: %s", strconv.QuoteToASCII(lit), out)
	}
	if s, ok := arr[0].(string); !ok || s != want {
		return fmt.Sprintf("[%s] yields %s, want %q", strconv.QuoteToASCII(lit), obs.Show(arr[0]), want)
	}
	if s, ok := arr[1].(string); !ok || s != "L"+want+"R" {
		return fmt.Sprintf("'L'+%s+'R' yields %s, want %q", strconv.QuoteToASCII(lit), obs.Show(arr[1]), "L"+want+"R")
	}
	if n, ok := obs.Int(arr[2]); !ok || n != int64(len(want)) {
		return fmt.Sprintf("len(%s) yields %s, want %d", strconv.QuoteToASCII(lit), obs.Show(arr[2]), len(want))
	}
	return ""
}

// checkUnterminated: lit (an opened, never properly closed literal) must be a syntax error.
func checkUnterminated(lit string) string {
	for _, ctx := range []string{"_", "[_", "f(_", "a + _"} {
		f := strings.ReplaceAll(ctx, "_", lit)
		p := obs.Parse([]byte(f))
		if p.Panic != nil {
			return fmt.Sprintf("parse of %s panicked: %v", strconv.QuoteToASCII(f), p.Panic)
		}
		if p.Err == nil {
			return fmt.Sprintf("unterminated literal accepted: %s parsed as %s", strconv.QuoteToASCII(f), obs.Dump(p.Src.Expression))
		}
	}
	return ""
}

func init() {
	h.RegisterReplay("c13", func(raw json.RawMessage) string {
		c, err := h.Decode[strCase](raw)
		if err != nil {
			return "bad replay: " + err.Error()
		}
		return checkString(c.lit(), c.want())
	})
	h.RegisterReplay("c13-open", func(raw json.RawMessage) string {
		c, err := h.Decode[textCase](raw)
		if err != nil {
			return "bad replay: " + err.Error()
		}
		return checkUnterminated(c.text())
	})
}

func c13Nontrivial(text string, forms []int) bool {
	esc, special := false, false
	for _, f := range forms {
		if f != fRaw {
			esc = true
		}
	}
	for _, p := range splitPieces(text) {
		if !p.valid || p.r >= 0x80 || p.r == '\'' || p.r == '"' || p.r == '\\' || p.r < 0x20 {
			special = true
		}
	}
	return esc && special
}

var c13Alphabet = []string{"a", " ", "'", "\"", "\\", "\n", "\r", "\t", "\b", "\f", "\v", "\x00", "\u2028", "\u2029", "\u0085", "\uff07", "\uff02", "\u2019", "\uff3c", "_", "$", "\u202e", "\u2066", "\u200d", "é", "ÿ", "中", "￿", "😀", "\xff", "\x80", "x", "u", "0", "n", "1", "\x7f", "\x1b",
	// code points at the edges of the encoding: U+FFFD itself (a character like any other), the last of each
	// UTF-8 length, the neighbours of the surrogate block, the last code point
	"\ufffd", "\ufffe", "\u007f\u0080", "\u07ff", "\u0800", "\ud7ff", "\ue000", "\U0010ffff", "\U00010000"}

// TestC13Exhaustive: all texts of length <=2 over the alphabet x all escape
// choices x both quotes x hex case; plus the unterminated variants.
func TestC13Exhaustive(t *testing.T) {
	run := h.Begin("C13", "exhaustive", fmt.Sprintf("bounded-exhaustive: every text of 0..2 characters over a %d-character alphabet (ASCII, both quotes, backslash, all line breaks, C0 controls, NUL, 2/3/4-byte UTF-8, invalid bytes, letters that look like escape names) x every allowed escape form per character (raw, named, \\xHH, \\uHHHH; both hex cases) x both quote styles; oracle: byte-exact round trip standalone, in an array, in a concatenation and through len(); unterminated variants (closing quote removed, raw line break inserted, trailing backslash) must be syntax errors; non-trivial: >=1 escaped form and >=1 special character", len(c13Alphabet)))
	defer run.End(t)
	var idx int64
	enumSeqAll(len(c13Alphabet), 2, func(seq []int) {
		idx++
		if !h.Mine(idx) || run.NViolations() >= 3 {
			return
		}
		text := ""
		for _, s := range seq {
			text += c13Alphabet[s]
		}
		ps := splitPieces(text)
		for _, q := range []byte{'\'', '"'} {
			// all combinations of forms
			var opts [][]int
			total := 1
			for _, p := range ps {
				f := formsFor(p.r, p.valid, q)
				opts = append(opts, f)
				total *= len(f) * 2
			}
			for m := 0; m < total; m++ {
				mm := m
				lit := string(q)
				var forms []int
				for i, p := range ps {
					k := mm % (len(opts[i]) * 2)
					mm /= len(opts[i]) * 2
					form := opts[i][k/2]
					if form <= fNamed && k%2 == 1 {
						lit = ""
						break // hex case irrelevant for raw/named: skip duplicate
					}
					forms = append(forms, form)
					lit += spell(p.r, p.raw, form, k%2 == 1)
				}
				if lit == "" {
					continue
				}
				closed := lit + string(q)
				nt := c13Nontrivial(text, forms)
				run.Count(nt, "closed")
				if nt && (idx+int64(m))%401 == 0 {
					run.Sample("closed", mkStrCase(closed, text))
				}
				if msg := checkString(closed, text); msg != "" {
					run.Fail("c13", mkStrCase(closed, text), msg)
				}
				// unterminated variants
				for vi, open := range []string{lit, lit + "\n" + "z" + string(q), lit + "\u2028" + string(q), lit + "\\"} {
					run.Count(true, "unterminated")
					if vi == 1 && (idx+int64(m))%601 == 0 {
						run.Sample("unterminated", mkTextCase(open, "").Text)
					}
					if msg := checkUnterminated(open); msg != "" {
						run.Fail("c13-open", mkTextCase(open, ""), msg)
					}
				}
			}
		}
	})
	// the empty literal
	if h.Mine(0) {
		for _, q := range []string{"'", "\""} {
			run.Count(false, "closed")
			if msg := checkString(q+q, ""); msg != "" {
				run.Fail("c13", mkStrCase(q+q, ""), msg)
			}
		}
	}
	run.Exhaustive()
}

// c13Confusables: code points a reader (or an input method) may take for ' " \ and the other punctuation.
var c13Confusables = func() []rune {
	out := []rune{0x2018, 0x2019, 0x201A, 0x201B, 0x201C, 0x201D, 0x201E, 0x2032, 0x2033, 0x2035, 0x00B4, 0x0060, 0x02B9, 0x02BA, 0x02BC, 0x02C8, 0x05F3, 0x05F4, 0xA78C, 0x275B, 0x275C, 0x275D, 0x275E, 0x301D, 0x301E,
		0x2216, 0x29F5, 0x29F9, 0xFE68, 0x2044, 0x2215, 0x00A0, 0x200B, 0x2028, 0x2060, 0xFEFF}
	for r := rune(0xFF01); r <= 0xFF5E; r++ { // full-width ASCII
		out = append(out, r)
	}
	// invisible and formatting characters: soft hyphen, Arabic letter mark, zero-width space / joiners, directional
	// marks, embeddings, overrides and isolates, word joiner and invisible operators, interlinear annotation marks,
	// variation selectors, tag characters, a combining mark, a private-use and a non-character code point
	for _, rg := range [][2]rune{{0xAD, 0xAD}, {0x61C, 0x61C}, {0x180E, 0x180E}, {0x200B, 0x200F}, {0x202A, 0x202E}, {0x2060, 0x2064}, {0x2066, 0x206F}, {0xFFF9, 0xFFFB},
		{0xFE00, 0xFE0F}, {0xE0001, 0xE0001}, {0xE0020, 0xE0022}, {0x301, 0x301}, {0xE000, 0xE000}, {0xFFFE, 0xFFFF}, {0x1D173, 0x1D17A}, {0x10FFFF, 0x10FFFF}} {
		for r := rg[0]; r <= rg[1]; r++ {
			out = append(out, r)
		}
	}
	return out
}()

func genText(t *rapid.T, maxLen int) string {
	n := rapid.IntRange(0, maxLen).Draw(t, "n")
	var b []byte
	for i := 0; i < n; i++ {
		switch rapid.IntRange(0, 8).Draw(t, "cls") {
		case 8: // characters that look like the language's own punctuation: full-width forms, typographic quotes, other slashes
			b = utf8.AppendRune(b, rapid.SampledFrom(c13Confusables).Draw(t, "confusable"))
		case 0, 1:
			b = append(b, byte(rapid.IntRange(0x20, 0x7e).Draw(t, "ascii")))
		case 2:
			b = append(b, byte(rapid.IntRange(0, 0x1f).Draw(t, "c0")))
		case 3:
			b = append(b, rapid.SampledFrom([]string{"'", "\"", "\\", "\\\\", "\\n", "\\x41", "\\u0041", "\\'"}).Draw(t, "meta")...)
		case 4:
			b = append(b, rapid.SampledFrom([]string{"\n", "\r", "\r\n", "\u2028", "\u2029", "\u0085"}).Draw(t, "nl")...)
		case 5:
			b = utf8.AppendRune(b, rune(rapid.IntRange(0x80, 0xFFFF).Filter(func(v int) bool { return v < 0xD800 || v > 0xDFFF }).Draw(t, "bmp")))
		case 6:
			b = utf8.AppendRune(b, rune(rapid.IntRange(0x10000, 0x10FFFF).Draw(t, "astral")))
		case 7:
			b = append(b, byte(rapid.IntRange(0x80, 0xff).Draw(t, "invalid")))
		}
	}
	return string(b)
}

// TestC13Random: random texts, random escape choices.
func TestC13Random(t *testing.T) {
	run := h.Begin("C13", "random", "rapid: texts up to 40 characters over printable ASCII, C0 controls, quotes/backslashes and escape look-alikes, all line breaks, BMP and astral code points, characters that look like the language's punctuation (full-width forms, typographic quotes, other slashes), invalid UTF-8 bytes; a reference escaper draws one allowed form per character; both quote styles; oracle and non-trivial rule as in the exhaustive part; distinct by literal")
	defer run.End(t)
	h.RapidSetup(h.N(4000, 1500000), "c13rand")
	rapid.Check(t, func(rt *rapid.T) {
		text := genText(rt, rapid.SampledFrom([]int{3, 10, 40}).Draw(rt, "max"))
		q := rapid.SampledFrom([]byte{'\'', '"'}).Draw(rt, "quote")
		lit := string(q)
		var forms []int
		ps := splitPieces(text)
		for _, p := range ps {
			fs := formsFor(p.r, p.valid, q)
			f := fs[rapid.IntRange(0, len(fs)-1).Draw(rt, "form")]
			forms = append(forms, f)
			lit += spell(p.r, p.raw, f, rapid.Bool().Draw(rt, "upper"))
		}
		closed := lit + string(q)
		cls := "closed"
		var msg, kind string
		var c interface{}
		if rapid.IntRange(0, 4).Draw(rt, "open") == 0 {
			cls = "unterminated"
			open := lit
			switch rapid.IntRange(0, 2).Draw(rt, "how") {
			case 1:
				open = lit + rapid.SampledFrom([]string{"\n", "\r", "\u2028", "\u2029", "\u0085"}).Draw(rt, "nl") + string(q)
			case 2:
				open = lit + "\\"
			}
			msg, kind, c = checkUnterminated(open), "c13-open", mkTextCase(open, "")
			run.CountKey(open, true, cls)
			run.Sample(cls, mkTextCase(open, "").Text)
		} else {
			msg, kind, c = checkString(closed, text), "c13", mkStrCase(closed, text)
			run.CountKey(closed, c13Nontrivial(text, forms), cls)
			run.Sample(cls, mkStrCase(closed, text))
		}
		if msg != "" {
			run.Pending("rand", kind, c, msg)
			rt.Fatalf("%s", msg)
		}
	})
}

// TestC13Lookalikes: texts that look like values of another kind stay texts.
func TestC13Lookalikes(t *testing.T) {
	run := h.Begin("C13", "lookalikes", "a fixed list and rapid-generated texts that look like something else: timestamps in 20 layouts (RFC 3339 with and without fraction/offset, dates, clock times, RFC 1123/822, ANSI C) at random instants of years 1..9999, date-like digit groups with impossible fields, numbers in every spelling (signs, fractions, exponents, 0x/0b/0o, leading zeros, separators, NaN/Infinity, blanks around), keywords of this and other languages, JSON and Go-printed documents, formula source, format verbs, durations, zone names, UUID/URL/path shapes; spelled raw in either quote style or with one random character escaped; oracle: byte-exact round trip standalone, in an array, in a concatenation and through len(), and the value is a string (typeof and a second evaluation of the same tree included); non-trivial: all (each text parses as a non-string value under some common reader); distinct by literal")
	defer run.End(t)
	one := func(text, cls string, lit string) string {
		msg := checkString(lit, text)
		if msg == "" {
			// one runner first evaluates the text as a formula of its own (a number, a keyword, a call - when it
			// parses), then the string literal: still that string
			r := formula.NewRunner()
			if q := obs.Parse([]byte(text)); q.OK() {
				obs.Eval(r, context.Background(), q.Src.Expression)
			}
			if q := obs.Parse([]byte(lit)); q.OK() {
				if o := obs.Eval(r, context.Background(), q.Src.Expression); o.Panic != nil || o.Err != nil || o.Val != interface{}(text) {
					msg = fmt.Sprintf("literal %s evaluates to %s on a runner that evaluated the formula %q before, want the text %q", strconv.QuoteToASCII(lit), o, text, text)
				}
			}
		}
		if msg == "" {
			// ... and within one formula: the text as an expression of its own, then the literal, and the other way round
			if q := obs.Parse([]byte("[(" + text + "), " + lit + "]")); q.OK() && obs.Parse([]byte(text)).OK() {
				for k, f := range []string{"[(" + text + "), " + lit + "]", "[" + lit + ", (" + text + ")]"} {
					p2 := obs.Parse([]byte(f))
					if !p2.OK() {
						continue
					}
					o := obs.Eval(formula.NewRunner(), context.Background(), p2.Src.Expression)
					var got interface{} = o.Val
					if arr, ok := o.Val.([]interface{}); ok && len(arr) == 2 {
						got = arr[1-k]
					}
					if o.Err == nil && o.Panic == nil && got != interface{}(text) {
						msg = fmt.Sprintf("%s: the literal %s evaluates to %s next to the expression %q, want the text %q", strconv.QuoteToASCII(f), strconv.QuoteToASCII(lit), obs.Show(got), text, text)
					}
				}
			}
		}
		if msg == "" {
			out := obs.EvalText("[typeof "+lit+", "+lit+" == "+lit+", "+lit+" + '' == '' + "+lit+"]", nil)
			if arr, ok := out.Val.([]interface{}); out.Panic != nil || out.Err != nil || !ok || len(arr) != 3 || arr[0] != "string" || arr[1] != true || arr[2] != true {
				msg = fmt.Sprintf("[typeof x, x == x, x+'' == ''+x] for x = %s yields %s, want ['string', true, true]", strconv.QuoteToASCII(lit), out)
			}
		}
		return msg
	}
	for i, text := range lookalikeFixed {
		if !h.Mine(int64(i)) {
			continue
		}
		for _, lit := range []string{escapeForLiteral(text), `"` + strings.ReplaceAll(strings.ReplaceAll(text, `\`, `\\`), `"`, `\"`) + `"`} {
			run.CountKey(lit, true, "fixed")
			if msg := one(text, "fixed", lit); msg != "" {
				run.Fail("c13", mkStrCase(lit, text), msg)
			}
		}
	}
	h.RapidSetup(h.N(3000, 600000), "c13look")
	rapid.Check(t, func(rt *rapid.T) {
		text, cls := genLookalike(rt)
		q := rapid.SampledFrom([]byte{'\'', '"'}).Draw(rt, "quote")
		ps := splitPieces(text)
		escAt := -1
		if len(ps) > 0 && rapid.IntRange(0, 2).Draw(rt, "escape") == 0 {
			escAt = rapid.IntRange(0, len(ps)-1).Draw(rt, "escAt")
		}
		lit := string(q)
		for i, p := range ps {
			fs := formsFor(p.r, p.valid, q)
			f := fs[0]
			if i == escAt {
				f = fs[rapid.IntRange(0, len(fs)-1).Draw(rt, "form")]
			}
			lit += spell(p.r, p.raw, f, false)
		}
		lit += string(q)
		run.CountKey(lit, true, cls)
		run.Sample(cls, mkStrCase(lit, text))
		if msg := one(text, cls, lit); msg != "" {
			run.Pending("look", "c13", mkStrCase(lit, text), msg)
			rt.Fatalf("%s", msg)
		}
	})
}

// FuzzC13StringRoundTrip: native fuzzing; choices drive the escaper.
func FuzzC13StringRoundTrip(f *testing.F) {
	f.Add([]byte("it's"), []byte{0, 1, 2, 3})
	f.Add([]byte("a\\b\"c\n"), []byte{3, 2, 1, 0, 1, 2})
	f.Add([]byte("é中\xff\x00"), []byte{1, 1, 1, 1})
	f.Fuzz(func(t *testing.T, text []byte, choices []byte) {
		if len(text) > 2000 {
			text = text[:2000]
		}
		q := byte('\'')
		if len(choices) > 0 && choices[0]&1 == 1 {
			q = '"'
		}
		lit := string(q)
		for i, p := range splitPieces(string(text)) {
			fs := formsFor(p.r, p.valid, q)
			ch := byte(0)
			if len(choices) > 0 {
				ch = choices[(i+1)%len(choices)]
			}
			lit += spell(p.r, p.raw, fs[int(ch>>1)%len(fs)], ch&1 == 1)
		}
		if msg := checkString(lit+string(q), string(text)); msg != "" {
			t.Fatalf("%s", msg)
		}
		if msg := checkUnterminated(lit); msg != "" {
			t.Fatalf("%s", msg)
		}
	})
}
