package props

import (
	"encoding/json"
	"fmt"
	"strings"
	"testing"
	"unicode/utf8"

	"github.com/aundis/formula"
	"pgregory.net/rapid"

	"verif/internal/h"
	"verif/internal/obs"
	"verif/internal/ref"
)

// C14 — tokens tile the input; longest match; spacing is insignificant.

type scanTok struct {
	Kind            string
	Start, Pos, End int
	Value           string
	NL              bool
	ErrorsBefore    int // number of error callbacks seen before this token was returned
}

type scanOut struct {
	Toks   []scanTok
	Errors int
	Panic  interface{}
	Stuck  bool
}

// scanAll drives the exported scanner over text until EOF (at most len+2 scans).
func scanAll(text []byte) (out scanOut) { return scanAllWith(text, true) }

// scanAllWith: with or without an error handler installed (the scanner accepts nil).
func scanAllWith(text []byte, handler bool) (out scanOut) {
	defer func() {
		if p := recover(); p != nil {
			out.Panic = p
		}
	}()
	var onError formula.ErrorHandler
	if handler {
		onError = func(msg *formula.DiagnosticMessage, pos int, length int) { out.Errors++ }
	}
	sc := formula.CreateScanner(text, onError)
	for i := 0; i <= len(text)+1; i++ {
		k := sc.Scan()
		tk := scanTok{Kind: obs.KindName(k), Start: sc.GetStartPos(), Pos: sc.GetTokenPos(), End: sc.GetTextPos(), NL: sc.HasPrecedingLineBreak(), ErrorsBefore: out.Errors}
		if k == formula.SK_Identifier || k == formula.SK_NumberLiteral || k == formula.SK_StringLiteral || (k >= formula.SK_TrueKeyword && k <= formula.SK_TypeofKeyword) {
			tk.Value = sc.GetTokenValue()
		}
		if k != sc.GetToken() {
			tk.Kind += fmt.Sprintf("(GetToken=%s)", obs.KindName(sc.GetToken()))
		}
		out.Toks = append(out.Toks, tk)
		if k == formula.SK_EndOfFile {
			return
		}
	}
	out.Stuck = true
	return
}

// checkTiling: contiguity, progress, trivia-only gaps, EOF at len(text).
func checkTiling(text []byte) string {
	o := scanAll(text)
	if o.Panic != nil {
		return fmt.Sprintf("scanner panicked on %q: %v", text, o.Panic)
	}
	if o.Stuck {
		return fmt.Sprintf("scanner did not reach EOF within len+2 scans on %q", text)
	}
	prevEnd := 0
	for i, tk := range o.Toks {
		if tk.Start != prevEnd {
			return fmt.Sprintf("token %d of %q: start of trivia %d != end of previous token %d", i, text, tk.Start, prevEnd)
		}
		if tk.Pos < tk.Start || tk.End < tk.Pos || tk.End > len(text) {
			return fmt.Sprintf("token %d of %q: positions out of order start=%d pos=%d end=%d", i, text, tk.Start, tk.Pos, tk.End)
		}
		if tk.Kind != "eof" && tk.End <= tk.Pos {
			return fmt.Sprintf("token %d (%s) of %q does not advance: pos=%d end=%d", i, tk.Kind, text, tk.Pos, tk.End)
		}
		// only whitespace / line breaks between trivia start and token text
		for p := tk.Start; p < tk.Pos; {
			c, sz := utf8.DecodeRune(text[p:])
			if !ref.IsSpace(c) && !ref.IsNL(c) {
				return fmt.Sprintf("token %d of %q: non-whitespace %q inside leading trivia [%d,%d)", i, text, c, tk.Start, tk.Pos)
			}
			p += sz
		}
		prevEnd = tk.End
	}
	// the tokens are a function of the text: a scanner created without an error handler yields the same ones
	if q := scanAllWith(text, false); q.Panic != nil || q.Stuck || len(q.Toks) != len(o.Toks) {
		return fmt.Sprintf("scanner without an error handler on %q: panic=%v stuck=%v, %d tokens against %d with a handler", text, q.Panic, q.Stuck, len(q.Toks), len(o.Toks))
	} else {
		for i := range q.Toks {
			a, b := o.Toks[i], q.Toks[i]
			if a.Kind != b.Kind || a.Start != b.Start || a.Pos != b.Pos || a.End != b.End || a.Value != b.Value || a.NL != b.NL {
				return fmt.Sprintf("token %d of %q is %s[%d,%d) %q with an error handler installed and %s[%d,%d) %q without one", i, text, a.Kind, a.Pos, a.End, a.Value, b.Kind, b.Pos, b.End, b.Value)
			}
		}
	}
	last := o.Toks[len(o.Toks)-1]
	if last.Kind != "eof" || last.End != len(text) || last.Pos != len(text) {
		return fmt.Sprintf("last token of %q is %s [%d,%d), want eof at %d", text, last.Kind, last.Pos, last.End, len(text))
	}
	return ""
}

// checkLexDiff compares the scanner with the reference tokenizer.
func checkLexDiff(text []byte) string {
	if m := checkTiling(text); m != "" {
		return m
	}
	want := ref.Lex(text)
	got := scanAll(text)
	good := want.GoodTokens
	if !want.Err {
		good = len(want.Tokens)
	}
	unspecAt := -1
	for i := 0; i < good; i++ {
		if want.Tokens[i].Unspec {
			// an escape form the properties leave open: nothing from this token on is asserted
			unspecAt = i
			good = i
			break
		}
	}
	for i := 0; i < good; i++ {
		if i >= len(got.Toks) {
			return fmt.Sprintf("%q: scanner produced %d tokens, reference %d", text, len(got.Toks), len(want.Tokens))
		}
		w, g := want.Tokens[i], got.Toks[i]
		if g.ErrorsBefore > 0 {
			return fmt.Sprintf("%q: scanner reported an error before token %d (%s) although tokens up to there are well-formed", text, i, w.Kind)
		}
		if w.Kind != g.Kind || w.Pos != g.Pos || w.End != g.End || w.Start != g.Start {
			return fmt.Sprintf("%q: token %d is %s[%d,%d) start %d, longest-match reference says %s[%d,%d) start %d", text, i, g.Kind, g.Pos, g.End, g.Start, w.Kind, w.Pos, w.End, w.Start)
		}
		if w.NLBefore != g.NL {
			return fmt.Sprintf("%q: token %d (%s) line-break flag %v, reference %v", text, i, w.Kind, g.NL, w.NLBefore)
		}
		if w.Kind == "num" {
			if !ref.SameNum(w.Value, g.Value) {
				return fmt.Sprintf("%q: number token %d has value %q, the literal denotes %q", text, i, g.Value, w.Value)
			}
		} else if !w.Unspec && (w.Kind == "id" || w.Kind == "str" || strings.HasPrefix(w.Kind, "kw:")) && w.Value != g.Value {
			return fmt.Sprintf("%q: token %d (%s) value %q, reference %q", text, i, w.Kind, g.Value, w.Value)
		}
	}
	if unspecAt >= 0 {
		return ""
	}
	if want.Err && got.Errors == 0 {
		return fmt.Sprintf("%q: malformed at offset %d per the lexical grammar but the scanner reported no error (tokens %v)", text, want.ErrPos, kinds(got.Toks))
	}
	if !want.Err && got.Errors > 0 {
		return fmt.Sprintf("%q: lexically well-formed but the scanner reported %d error(s)", text, got.Errors)
	}
	return ""
}

func kinds(ts []scanTok) []string {
	var out []string
	for _, t := range ts {
		out = append(out, t.Kind)
	}
	return out
}

func init() {
	h.RegisterReplay("c14-tiling", func(raw json.RawMessage) string {
		c, err := h.Decode[textCase](raw)
		if err != nil {
			return "bad replay: " + err.Error()
		}
		return checkTiling([]byte(c.text()))
	})
	h.RegisterReplay("c14-lex", func(raw json.RawMessage) string {
		c, err := h.Decode[textCase](raw)
		if err != nil {
			return "bad replay: " + err.Error()
		}
		return checkLexDiff([]byte(c.text()))
	})
	h.RegisterReplay("c14-cp", func(raw json.RawMessage) string {
		c, err := h.Decode[int](raw)
		if err != nil {
			return "bad replay: " + err.Error()
		}
		return checkCodePoint(rune(c))
	})
	h.RegisterReplay("c14-respace", func(raw json.RawMessage) string {
		c, err := h.Decode[[2]string](raw)
		if err != nil {
			return "bad replay: " + err.Error()
		}
		a, _ := unq(c[0])
		b, _ := unq(c[1])
		return checkRespace(a, b)
	})
}

var c14Lexemes = []string{
	"(", ")", "[", "]", ".", "...", ",", "<", ">", "<=", ">=", "==", "===", "!=", "!==",
	"+", "-", "*", "/", "%", "&", "|", "^", "&&", "||", "??", "!", "!.", "!!", "~", "?", ":", "=",
	"true", "false", "null", "this", "ctx", "typeof",
	"truex", "typeofa", "nul", "Null", "$a", "_", "a1", "é", "中", "x", "__v", "___", "$$",
	"1", "0", "1.", ".5", "1.5", "1e5", "1e+5", "1_0", "00",
	"'s'", "\"t\"", "'it\\'s'", "'\\x41\\u00e9'",
	// hostile lexemes
	"#", "\\", "'u", "1a", "1_", "1e", "0x1", "@", "\x80", "e1", "..",
	// characters that may continue an identifier but not start one (digits of other scripts, combining marks),
	// inside a name and on their own
	"x\u0662", "\u0662", "e\u0301", "\u0300", "a\uff11", "\uff11", "\u0633\u0639\u0631\u0662",
}

var c14Seps = []string{"", " ", "\t", "\u00a0", "\n"}

// TestC14LexDifferential: all concatenations of up to k lexemes with every
// separator choice, against the independent longest-match tokenizer.
func TestC14LexDifferential(t *testing.T) {
	k := h.N(2, 3)
	run := h.Begin("C14", "lex-differential", fmt.Sprintf("bounded-exhaustive: every concatenation of 1..%d lexemes from a %d-lexeme alphabet (all operators, keywords, keyword-prefixed identifiers, unicode identifiers, number and string spellings, hostile lexemes) with every separator in {none, SP, TAB, NBSP, LF} per gap; oracle: independent longest-match reference tokenizer (kinds, boundaries, values, line-break flag, error reported iff malformed); non-trivial: an empty separator between two lexemes (merge / re-split possible)", k, len(c14Lexemes)))
	defer run.End(t)
	enumSeq(len(c14Lexemes), k, func(seq []int) {
		if run.NViolations() >= 3 {
			return
		}
		gaps := len(seq) - 1
		total := 1
		for g := 0; g < gaps; g++ {
			total *= len(c14Seps)
		}
		for m := 0; m < total; m++ {
			var sb strings.Builder
			mm := m
			nt := false
			for i, s := range seq {
				if i > 0 {
					sep := c14Seps[mm%len(c14Seps)]
					mm /= len(c14Seps)
					if sep == "" {
						nt = true
					}
					sb.WriteString(sep)
				}
				sb.WriteString(c14Lexemes[s])
			}
			text := sb.String()
			run.Count(nt, "")
			if nt && len(seq) == k && m == 0 && (seq[0]*7+seq[k-1])%97 == 0 {
				run.Sample("concat", text)
			}
			if msg := checkLexDiff([]byte(text)); msg != "" {
				run.Fail("c14-lex", mkTextCase(text, ""), msg)
			}
		}
	})
	run.Exhaustive()
}

func checkCodePoint(c rune) string {
	if got, want := formula.IsIdentifierStart(c), ref.IsIDStart(c); got != want {
		return fmt.Sprintf("IsIdentifierStart(U+%04X) = %v, ES5 class says %v", c, got, want)
	}
	if got, want := formula.IsIdentifierPart(c), ref.IsIDPart(c); got != want {
		return fmt.Sprintf("IsIdentifierPart(U+%04X) = %v, ES5 class says %v", c, got, want)
	}
	if got, want := formula.IsWhiteSpace(c), ref.IsSpace(c); got != want {
		return fmt.Sprintf("IsWhiteSpace(U+%04X) = %v, want %v", c, got, want)
	}
	if got, want := formula.IsLineBreak(c), ref.IsNL(c); got != want {
		return fmt.Sprintf("IsLineBreak(U+%04X) = %v, want %v", c, got, want)
	}
	if c >= 0xD800 && c <= 0xDFFF || c == 0 {
		return ""
	}
	// scan level: "a" + c + "b"
	text := []byte("a" + string(c) + "b")
	o := scanAll(text)
	if o.Panic != nil || o.Stuck {
		return fmt.Sprintf("scanner panicked/stuck on %q", text)
	}
	ks := kinds(o.Toks)
	switch {
	case ref.IsIDPart(c):
		if len(ks) != 2 || ks[0] != "id" || o.Toks[0].Value != string(text) {
			return fmt.Sprintf("%q (U+%04X is an identifier part) should be one identifier, got %v", text, c, ks)
		}
	case ref.IsSpace(c) || ref.IsNL(c):
		if len(ks) != 3 || ks[0] != "id" || ks[1] != "id" || o.Errors != 0 {
			return fmt.Sprintf("%q (U+%04X separates tokens) should be two identifiers, got %v errors=%d", text, c, ks, o.Errors)
		}
		if o.Toks[1].NL != ref.IsNL(c) {
			return fmt.Sprintf("%q: line-break flag %v for U+%04X, want %v", text, o.Toks[1].NL, c, ref.IsNL(c))
		}
	default:
		want := ref.Lex(text)
		if want.Err && o.Errors == 0 {
			return fmt.Sprintf("%q: U+%04X is not a valid character but no error was reported (%v)", text, c, ks)
		}
		if m := checkLexDiff(text); m != "" {
			return m
		}
	}
	return ""
}

// TestC14CodePoints: every Unicode code point for the four class predicates and
// at scan level.
func TestC14CodePoints(t *testing.T) {
	run := h.Begin("C14", "code-points", "exhaustive: all 1,114,112 code points: IsIdentifierStart/Part vs the golden ES5 tables, IsWhiteSpace/IsLineBreak vs the ES sets, and the scan of 'a'+c+'b' (one identifier / two identifiers (+line-break flag) / error); non-trivial: non-ASCII code points that belong to at least one class")
	defer run.End(t)
	for c := rune(0); c <= 0x10FFFF; c++ {
		if !h.Mine(int64(c)) {
			continue
		}
		nt := c >= 0x80 && (ref.IsIDPart(c) || ref.IsSpace(c) || ref.IsNL(c))
		run.Count(nt, "")
		if nt && c%2999 == 0 {
			run.Sample("cp", fmt.Sprintf("U+%04X", c))
		}
		if msg := checkCodePoint(c); msg != "" {
			run.Fail("c14-cp", int(c), msg)
			if run.NViolations() >= 3 {
				return
			}
		}
	}
	run.Exhaustive()
}

// TestC14TablesSandwich validates the golden ES5 tables against independent
// Unicode data: Unicode 3.2 letters must be in the tables (lower bound), and
// everything in the tables must be a letter/mark/digit/connector in Unicode 14
// (upper bound), up to a frozen, explained list of exceptions. A failure here
// is a defect of the harness's golden copy, not of the implementation.
func TestC14TablesSandwich(t *testing.T) {
	if i, _ := h.Shard(); i != 0 {
		return
	}
	in := func(tab []rune, c rune) bool {
		for i := 0; i+1 < len(tab); i += 2 {
			if c >= tab[i] && c <= tab[i+1] {
				return true
			}
		}
		return false
	}
	var lowS, lowP, upS, upP []rune
	for c := rune(0x80); c <= 0xFFFF; c++ {
		if c >= 0xD800 && c <= 0xDFFF {
			continue
		}
		if in(ref.UCD32Start, c) && !in(ref.ES5Start, c) {
			lowS = append(lowS, c)
		}
		if in(ref.UCD32Part, c) && !in(ref.ES5Part, c) {
			lowP = append(lowP, c)
		}
		if in(ref.ES5Start, c) && !in(ref.UCDNewStart, c) {
			upS = append(upS, c)
		}
		if in(ref.ES5Part, c) && !in(ref.UCDNewPart, c) {
			upP = append(upP, c)
		}
	}
	for c := rune(0x10000); c <= 0x10FFFF; c++ {
		if in(ref.ES5Start, c) || in(ref.ES5Part, c) {
			t.Fatalf("golden ES5 table contains astral code point U+%X", c)
		}
	}
	t.Logf("sandwich exceptions: lowStart=%U lowPart=%U upStart=%U upPart=%U", lowS, lowP, upS, upP)
	// frozen expectations (see DESIGN.md §3.6)
	if len(lowS) != 0 || len(upP) != 0 || len(upS) > 2 || len(lowP) > 11 {
		t.Fatalf("golden ES5 tables are not sandwiched by Unicode 3.2 / 14 data: lowStart=%U lowPart=%U upStart=%U upPart=%U", lowS, lowP, upS, upP)
	}
}

func unq(s string) (string, error) {
	c := textCase{Text: s}
	return c.text(), nil
}

// checkRespace: two layouts of the same token sequence must parse identically.
func checkRespace(a, b string) string {
	pa, pb := obs.Parse([]byte(a)), obs.Parse([]byte(b))
	if pa.Panic != nil || pb.Panic != nil {
		return fmt.Sprintf("parse panicked: %v / %v", pa.Panic, pb.Panic)
	}
	if (pa.Err == nil) != (pb.Err == nil) {
		return fmt.Sprintf("layouts of the same tokens disagree: %q -> err=%v ; %q -> err=%v", a, pa.Err, b, pb.Err)
	}
	if pa.Err == nil {
		if da, db := obs.Dump(pa.Src.Expression), obs.Dump(pb.Src.Expression); da != db {
			return fmt.Sprintf("layouts of the same tokens parse differently: %q -> %s ; %q -> %s", a, da, b, db)
		}
	}
	return ""
}

// TestC14Respacing: metamorphic - inserting or removing spaces, tabs and line
// breaks between tokens never changes the parse.
func TestC14Respacing(t *testing.T) {
	run := h.Begin("C14", "respacing", "rapid: a generated program printed with two independent random layouts (separators from none/SP/TAB/NBSP/U+3000/BOM/LF/CRLF/CR/U+2028/U+2029/U+0085; 'none' only where the reference tokenizer confirms no merge; never a line break before '.', '!.', call '('); oracle: identical position-free tree dumps, both accepted; non-trivial: the two layouts together use >=3 distinct separators; distinct by the pair of texts")
	defer run.End(t)
	h.RapidSetup(h.N(3000, 1000000), "c14respace")
	rapid.Check(t, func(rt *rapid.T) {
		ast := genExpr(rt, &syntaxCfg, rapid.IntRange(1, 5).Draw(rt, "depth"), ref.LvComma)
		toks := ast.Flatten()
		s1 := genLayout(rt, toks, 3)
		s2 := genLayout(rt, toks, 1)
		a, b := ref.Join(toks, s1), ref.Join(toks, s2)
		kinds := map[string]bool{}
		for _, s := range append(append([]string{}, s1...), s2...) {
			kinds[s] = true
		}
		run.CountKey(a+"\x00"+b, len(kinds) >= 3, "")
		run.Sample("respace", []string{a, b})
		msg := checkRespace(a, b)
		if msg == "" {
			if pa := obs.Parse([]byte(a)); pa.Err != nil {
				msg = fmt.Sprintf("generated program %q rejected: %v", a, pa.Err)
			} else if d := obs.Dump(pa.Src.Expression); d != ast.Dump() {
				msg = fmt.Sprintf("generated program %q parsed as %s, want %s", a, d, ast.Dump())
			}
		}
		if msg != "" {
			run.Pending("respace", "c14-respace", [2]string{mkTextCase(a, "").Text, mkTextCase(b, "").Text}, msg)
			rt.Fatalf("%s", msg)
		}
		// the converse: the one place where a line break is significant. Put one before a '.', '!.' or call '('
		// of the same token sequence: the result must be what the grammar's same-line rule says (normally a rejection)
		var idxs []int
		for i, tk := range toks {
			if tk.NoNLBefore {
				idxs = append(idxs, i)
			}
		}
		if len(idxs) > 0 {
			at := idxs[rapid.IntRange(0, len(idxs)-1).Draw(rt, "nlat")]
			s3 := append([]string{}, s2...)
			s3[at] = rapid.SampledFrom([]string{"\n", " \n", "\r", "\r\n", "\u2028", "\u2029 ", "\u0085"}).Draw(rt, "nlkind")
			var sb strings.Builder
			for i, tk := range toks {
				sep := s3[i]
				if sep == "" && i > 0 {
					sep = " "
				}
				sb.WriteString(sep)
				sb.WriteString(tk.Text)
			}
			c := sb.String()
			run.Class("converse-line-break")
			if m := checkGrammar(c, ""); m != "" {
				run.Pending("converse", "c02", mkTextCase(c, ""), "line break before a member access / call: "+m)
				rt.Fatalf("%s", m)
			}
		}
	})
}

// byte-string generators shared with C01 -------------------------------------

var soupLexemes = append(append([]string{}, c14Lexemes...), "\"", "'", "\n", "\r\n", "\u2028", "\u2029", "\u0085", "\xff", "\xc3", "\xe2\x80", "0", "9", "e", "E", "_", "$", "\\u0041", "\\x4", "\x00", "\t", "\u00a0", "\ufeff", "((", "[[", "))", "]]")

// oddTails: truncated multi-byte sequences and other endings that trip look-ahead code
var oddTails = []string{"\xe2", "\xe2\x80", "\xc2", "\xef\xbb", "\xf0\x9f\x98", "\r", "\\", "'", "\"", ".", "1e", "1_", "!", "=", "\xe2\x80\xa8", "\xc2\x85", "0x", "a."}

func genBytes(t *rapid.T, maxLen int) []byte {
	b := genBytesCore(t, maxLen)
	if rapid.IntRange(0, 3).Draw(t, "oddtail") == 0 {
		b = append(b, rapid.SampledFrom(oddTails).Draw(t, "tail")...)
		if rapid.Bool().Draw(t, "oddhead") {
			b = append([]byte(rapid.SampledFrom(oddTails).Draw(t, "head")), b...)
		}
	}
	return b
}

func genBytesCore(t *rapid.T, maxLen int) []byte {
	switch rapid.IntRange(0, 4).Draw(t, "bytekind") {
	case 0: // uniform bytes
		return rapid.SliceOfN(rapid.Byte(), 0, maxLen).Draw(t, "bytes")
	case 1: // ASCII punctuation-heavy
		alpha := []byte("()[].,<>=!+-*/%&|^~?:'\"\\ \n\t_$aeE019x#")
		n := rapid.IntRange(0, maxLen).Draw(t, "n")
		b := make([]byte, n)
		for i := range b {
			b[i] = alpha[rapid.IntRange(0, len(alpha)-1).Draw(t, "c")]
		}
		return b
	case 2: // lexeme soup
		n := rapid.IntRange(0, maxLen/3+1).Draw(t, "n")
		var sb strings.Builder
		for i := 0; i < n && sb.Len() < maxLen; i++ {
			sb.WriteString(rapid.SampledFrom(soupLexemes).Draw(t, "lx"))
			if rapid.IntRange(0, 2).Draw(t, "sp") == 0 {
				sb.WriteByte(' ')
			}
		}
		return []byte(sb.String())
	case 3: // valid UTF-8 multi-byte
		n := rapid.IntRange(0, maxLen/3+1).Draw(t, "n")
		var b []byte
		for i := 0; i < n; i++ {
			r := rapid.SampledFrom([]rune{'a', '1', ' ', 'é', '中', 0x2028, 0x85, 0xA0, 0x300, 0x10000, 0x1F600, '\'', '.', 0xFEFF, 0x200B, 0x180E}).Draw(t, "r")
			b = utf8.AppendRune(b, r)
		}
		return b
	default: // mutation of a valid formula
		ast := genExpr(t, &syntaxCfg, rapid.IntRange(1, 4).Draw(t, "depth"), ref.LvComma)
		b := []byte(ast.Compact())
		nm := rapid.IntRange(1, 3).Draw(t, "nmut")
		for m := 0; m < nm && len(b) > 0; m++ {
			at := rapid.IntRange(0, len(b)-1).Draw(t, "at")
			switch rapid.IntRange(0, 4).Draw(t, "mut") {
			case 0:
				b[at] ^= byte(1 << rapid.IntRange(0, 7).Draw(t, "bit"))
			case 1:
				b = append(b[:at:at], append([]byte{rapid.Byte().Draw(t, "ins")}, b[at:]...)...)
			case 2:
				b = append(b[:at:at], b[at+1:]...)
			case 3:
				b = append(b[:at:at], append(append([]byte{}, b[at:]...), b[at:]...)...)
			case 4:
				b = b[:at]
			}
		}
		if len(b) > maxLen {
			b = b[:maxLen]
		}
		return b
	}
}

// TestC14Tiling: tiling and progress on arbitrary bytes.
func TestC14Tiling(t *testing.T) {
	run := h.Begin("C14", "tiling", "rapid: arbitrary byte strings (uniform bytes, punctuation-heavy ASCII, lexeme soups with hostile fragments, valid multi-byte UTF-8, byte-mutated valid formulas; sizes up to 2 KiB quick / 64 KiB thorough); oracle: contiguity, order, progress, trivia-only gaps, EOF at len(text), at most len+2 scans, plus the full reference-tokenizer differential; non-trivial: >=3 tokens and at least one multi-byte or invalid byte or scanner error; distinct by text")
	defer run.End(t)
	h.RapidSetup(h.N(4000, 1000000), "c14tiling")
	maxLen := h.N(2048, 65536)
	rapid.Check(t, func(rt *rapid.T) {
		sz := maxLen
		if rapid.IntRange(0, 9).Draw(rt, "big") != 0 {
			sz = 64
		}
		text := genBytes(rt, sz)
		o := scanAll(text)
		nt := len(o.Toks) >= 3 && (o.Errors > 0 || !isASCII(text))
		run.CountKey(string(text), nt, "")
		if len(text) <= 40 {
			run.Sample("bytes", mkTextCase(string(text), "").Text)
		}
		if msg := checkLexDiff(text); msg != "" {
			run.Pending("tiling", "c14-lex", mkTextCase(string(text), ""), msg)
			rt.Fatalf("%s", msg)
		}
	})
}

func isASCII(b []byte) bool {
	for _, c := range b {
		if c >= 0x80 {
			return false
		}
	}
	return true
}

// FuzzC14ScanTiles: native coverage-guided fuzzing of the scanner; tiling and
// the reference-tokenizer differential are checked inside the target.
func FuzzC14ScanTiles(f *testing.F) {
	for _, lx := range c14Lexemes {
		f.Add([]byte(lx))
		f.Add([]byte(lx + lx))
	}
	f.Add([]byte("a \n.b !== 1_000.5e-3 ?? 'it\\'s' ... \u00a0\u2028x"))
	f.Fuzz(func(t *testing.T, data []byte) {
		if len(data) > 65536 {
			data = data[:65536]
		}
		if msg := checkLexDiff(data); msg != "" {
			t.Fatalf("%s", msg)
		}
	})
}

// TestC14LineBreakSignificance: the only significant white space - a line break
// before '.', '!.' or a call's '(' - over all short postfix chains.
func TestC14LineBreakSignificance(t *testing.T) {
	run := h.Begin("C14", "line-break-significance", "bounded-exhaustive: primary {a, f(x), (a), [a], 1} followed by every chain of 1..4 postfix operations over {.b, !.b, (), (c)}, with one of six line-break forms (or a plain space) before one chosen postfix token, alone and inside 'x + _' / '[_]'; oracle: with spaces the chain parses as written, with a line break before '.', '!.' or a call's '(' it must be what the reference grammar says (a rejection); non-trivial: the cases that contain a line break")
	defer run.End(t)
	sameLineSweep(run, "c14")
	run.Exhaustive()
}

// TestC14RespacingAny: the same holds for token sequences the grammar rejects -
// blanks between tokens decide nothing, so a rejection cannot depend on them.
func TestC14RespacingAny(t *testing.T) {
	run := h.Begin("C14", "respacing-any", "rapid: a generated program with one or two token-level mutations (delete, insert a lexeme of the alphabet, swap neighbours, duplicate; mostly no longer derivable), printed once with single spaces and once with random blanks (none where the reference tokenizer confirms no merge, SP, TAB, NBSP, U+3000, BOM, runs of them; no line breaks, leading and trailing blanks included); oracle: both layouts rejected, or both accepted with identical position-free tree dumps; non-trivial: the reference parser rejects the sequence; distinct by the pair of texts")
	defer run.End(t)
	h.RapidSetup(h.N(4000, 1200000), "c14respaceany")
	blanks := []string{"", "", "", "", "", " ", "  ", "\t", "\u00a0", "\u3000", "\ufeff", " \t "}
	rapid.Check(t, func(rt *rapid.T) {
		ast := genExpr(rt, &syntaxCfg, rapid.IntRange(1, 4).Draw(rt, "depth"), ref.LvComma)
		toks := ast.Flatten()
		for m := rapid.IntRange(1, 2).Draw(rt, "nmut"); m > 0 && len(toks) > 0; m-- {
			at := rapid.IntRange(0, len(toks)-1).Draw(rt, "at")
			switch rapid.IntRange(0, 3).Draw(rt, "mut") {
			case 0:
				toks = append(toks[:at:at], toks[at+1:]...)
			case 1:
				toks = append(toks[:at:at], append([]ref.PTok{{Text: rapid.SampledFrom(c02Alphabet).Draw(rt, "lx")}}, toks[at:]...)...)
			case 2:
				if at+1 < len(toks) {
					toks[at], toks[at+1] = toks[at+1], toks[at]
				}
			default:
				toks = append(toks[:at+1:at+1], toks[at:]...)
			}
		}
		if len(toks) == 0 {
			return
		}
		s1, s2 := make([]string, len(toks)+1), make([]string, len(toks)+1)
		for i := range s1 {
			s1[i] = " "
			s2[i] = rapid.SampledFrom(blanks).Draw(rt, "blank")
		}
		s1[0], s1[len(toks)] = "", ""
		a, b := ref.Join(toks, s1), ref.Join(toks, s2)
		rejected := ref.Parse([]byte(a)) == nil
		cls := "accepted"
		if rejected {
			cls = "rejected"
		}
		run.CountKey(a+"\x00"+b, rejected, cls)
		run.Sample(cls, []string{a, b})
		if msg := checkRespace(a, b); msg != "" {
			run.Pending("respace-any", "c14-respace", [2]string{mkTextCase(a, "").Text, mkTextCase(b, "").Text}, msg)
			rt.Fatalf("%s", msg)
		}
	})
}

// TestC14RespacingSequences: every short token sequence, derivable or not, with and without blanks.
func TestC14RespacingSequences(t *testing.T) {
	k1, k2 := h.N(6, 7), h.N(3, 4)
	run := h.Begin("C14", "respacing-sequences", fmt.Sprintf("bounded-exhaustive: every sequence of 1..%d tokens over {f, (, ), a, ',', ..., [, ], .} and of 1..%d tokens over the 39-lexeme alphabet, printed with single spaces, without any blank (where the reference tokenizer confirms no merge) and with TAB / NBSP / BOM runs; oracle: all three rejected, or all three accepted with identical position-free tree dumps; non-trivial: the reference parser rejects the sequence", k1, k2))
	defer run.End(t)
	odd := []string{"\t", "\u00a0 ", "\ufeff", " \u3000"}
	try := func(alphabet []string, seq []int) {
		if run.NViolations() >= 3 {
			return
		}
		toks := make([]ref.PTok, len(seq))
		s1, s2, s3 := make([]string, len(seq)+1), make([]string, len(seq)+1), make([]string, len(seq)+1)
		for i, x := range seq {
			toks[i] = ref.PTok{Text: alphabet[x]}
			s1[i], s3[i] = " ", odd[(i+x)%len(odd)]
		}
		s1[0], s3[len(seq)] = "", " "
		a, b, c := ref.Join(toks, s1), ref.Join(toks, s2), ref.Join(toks, s3)
		run.Count(ref.Parse([]byte(a)) == nil, "")
		if len(seq) == 5 && (seq[0]+3*seq[2]+seq[4])%97 == 0 {
			run.Sample("sequence", []string{a, b, c})
		}
		for _, other := range []string{b, c} {
			if msg := checkRespace(a, other); msg != "" {
				run.Fail("c14-respace", [2]string{mkTextCase(a, "").Text, mkTextCase(other, "").Text}, msg)
				return
			}
		}
	}
	enumSeq(len(c02ListAlphabet), k1, func(seq []int) { try(c02ListAlphabet, seq) })
	enumSeq(len(c02Alphabet), k2, func(seq []int) { try(c02Alphabet, seq) })
	run.Exhaustive()
}
