package props

import (
	"bytes"
	"context"
	"encoding/json"
	"fmt"
	"strings"
	"testing"
	"unicode/utf8"

	"github.com/aundis/formula"
	"pgregory.net/rapid"

	"verif/internal/h"
	"verif/internal/obs"
	"verif/internal/ref"
)

// C15 — source ranges nest and re-parse; errors point at the right line and column.

// refLineStarts: line starts under LF, CR, CRLF, U+2028, U+2029, U+0085.
func refLineStarts(text []byte) []int {
	starts := []int{0}
	for p := 0; p < len(text); {
		c, sz := utf8.DecodeRune(text[p:])
		end := p + sz
		if c == '\r' && end < len(text) && text[end] == '\n' {
			end++
		}
		if ref.IsNL(c) {
			starts = append(starts, end)
		}
		p = end
	}
	return starts
}

// directLineCol counts line terminators wholly before offset (CRLF once);
// the column is the number of bytes since the last line start.
func directLineCol(text []byte, offset int) (line, col int) {
	lineStart := 0
	for p := 0; p < offset && p < len(text); {
		c, sz := utf8.DecodeRune(text[p:])
		end := p + sz
		if c == '\r' && end < len(text) && text[end] == '\n' {
			end++
		}
		if ref.IsNL(c) {
			if end > offset {
				break
			}
			line++
			lineStart = end
		}
		p = end
	}
	return line, offset - lineStart
}

func checkLineTable(text []byte) string {
	want := refLineStarts(text)
	var got []int
	var pan interface{}
	func() {
		defer func() { pan = recover() }()
		got = formula.ComputeLineStarts(text)
	}()
	if pan != nil {
		return fmt.Sprintf("ComputeLineStarts(%q) panicked: %v", text, pan)
	}
	if fmt.Sprint(got) != fmt.Sprint(want) {
		return fmt.Sprintf("ComputeLineStarts(%q) = %v, want %v", text, got, want)
	}
	for off := 0; off <= len(text); off++ {
		wl, wc := directLineCol(text, off)
		var p1, p2 formula.Position
		func() {
			defer func() { pan = recover() }()
			p1 = formula.GetLineAndCharacterOfPosition(text, got, off)
			p2 = formula.PositionToLineAndCharacter(text, off)
		}()
		if pan != nil {
			return fmt.Sprintf("offset helpers panicked on %q offset %d: %v", text, off, pan)
		}
		if p1.Line != wl || p1.Column != wc {
			return fmt.Sprintf("GetLineAndCharacterOfPosition(%q, %d) = (%d,%d), direct count (%d,%d)", text, off, p1.Line, p1.Column, wl, wc)
		}
		if p2.Line != wl || p2.Column != wc {
			return fmt.Sprintf("PositionToLineAndCharacter(%q, %d) = (%d,%d), direct count (%d,%d)", text, off, p2.Line, p2.Column, wl, wc)
		}
	}
	return ""
}

// checkRanges: every node range nests, children in order, expression nodes re-parse - right after the parse, and
// again after the tree has been evaluated and analysed (ranges are a property of the tree, not of its youth).
func checkRanges(text []byte) string {
	if msg := checkRangesOnce(text, false); msg != "" {
		return msg
	}
	return checkRangesOnce(text, true)
}

func checkRangesOnce(text []byte, used bool) string {
	out := obs.Parse(text)
	if !out.OK() {
		return "" // only accepted programs
	}
	prefix := ""
	if used {
		r := formula.NewRunner()
		r.SetThis(map[string]interface{}{"a": 1, "b": "x", "c": nil})
		// (not evaluated: programs that could store the data map into itself, the shape of known finding KF-C03-cycle)
		if !(bytes.Contains(text, []byte("this")) && bytes.Contains(text, []byte("="))) {
			obs.Eval(r, context.Background(), out.Src.Expression)
		}
		func() {
			defer func() { recover() }()
			formula.ResolveReferenceFields(out.Src)
			formula.ResolveReferenceFieldsNotLocal(out.Src)
		}()
		prefix = "after the tree was evaluated and analysed: "
	}
	msg := ""
	fail := func(f string, a ...interface{}) {
		if msg == "" {
			msg = fmt.Sprintf("%q: ", text) + prefix + fmt.Sprintf(f, a...)
		}
	}
	n := len(text)
	obs.Walk(out.Src.Expression, func(nd formula.Node, parent formula.Node, c obs.Child) {
		if msg != "" || obs.IsNil(nd) {
			return
		}
		if !(0 <= nd.Pos() && nd.Pos() <= nd.End() && nd.End() <= n) {
			fail("%T in slot %s has range [%d,%d) outside the text (len %d)", nd, c.Slot, nd.Pos(), nd.End(), n)
			return
		}
		kids, lists := obs.Children(nd)
		prev := nd.Pos()
		for _, k := range kids {
			if obs.IsNil(k.Node) {
				continue
			}
			if k.Node.Pos() < nd.Pos() || k.Node.End() > nd.End() {
				fail("child %s [%d,%d) not inside parent %T [%d,%d)", k.Slot, k.Node.Pos(), k.Node.End(), nd, nd.Pos(), nd.End())
				return
			}
			if k.Node.Pos() < prev {
				fail("child %s [%d,%d) of %T overlaps or precedes its left sibling (ends %d)", k.Slot, k.Node.Pos(), k.Node.End(), nd, prev)
				return
			}
			prev = k.Node.End()
		}
		for _, l := range lists {
			if !l.Nil && (l.Pos < nd.Pos() || l.End > nd.End() || l.Pos > l.End) {
				fail("list %s [%d,%d) not inside %T [%d,%d)", l.Slot, l.Pos, l.End, nd, nd.Pos(), nd.End())
			}
		}
		if c.Expr {
			sub := text[nd.Pos():nd.End()]
			re := obs.Parse(sub)
			if !re.OK() {
				fail("text %q of %T in slot %s does not parse on its own: %v %v", sub, nd, c.Slot, re.Err, re.Panic)
				return
			}
			if d1, d2 := obs.Dump(nd), obs.Dump(re.Src.Expression); d1 != d2 {
				fail("text %q of %T re-parses to %s, the subtree is %s", sub, nd, d2, d1)
			}
		}
	})
	if msg == "" {
		msg = checkSpans(text, out.Src.Expression)
	}
	return msg
}

// checkDiagnostics: on a rejected input with diagnostics, ranges and the error text.
func checkDiagnostics(text []byte) (msg string, had bool) {
	out := obs.Parse(text)
	if out.Panic != nil || out.Err == nil || out.Src == nil || len(out.Src.Diagnostics) == 0 {
		return "", false
	}
	for i, d := range out.Src.Diagnostics {
		if d.Start < 0 || d.Length < 0 || d.Start+d.Length > len(text) {
			return fmt.Sprintf("%q: diagnostic %d [%d,+%d) lies outside the text (len %d)", text, i, d.Start, d.Length, len(text)), true
		}
	}
	d := out.Src.Diagnostics[0]
	line, col := directLineCol(text, d.Start)
	want := fmt.Sprintf("pos(%d, %d) error(%d) %s", line, col, d.Code, d.MessageText)
	if out.Err.Error() != want {
		return fmt.Sprintf("%q: error text %q, want %q (first diagnostic at offset %d)", text, out.Err.Error(), want, d.Start), true
	}
	if f := formula.FormatDiagnostic(out.Src, d); f != want {
		return fmt.Sprintf("%q: FormatDiagnostic = %q, want %q", text, f, want), true
	}
	return "", true
}

// checkHeld: what the caller got for text a - the line-start table, the parsed
// source with its diagnostics - still says the same after another text b went
// through the same functions. (Results are the caller's; a later call for
// another text has no business changing them.)
func checkHeld(a, b []byte) string {
	var msg string
	func() {
		defer func() {
			if p := recover(); p != nil {
				msg = fmt.Sprintf("held results for %q then %q: panic: %v", a, b, p)
			}
		}()
		tabA := formula.ComputeLineStarts(a)
		wantTab := fmt.Sprint(refLineStarts(a))
		if fmt.Sprint(tabA) != wantTab {
			return // reported by checkLineTable
		}
		srcA := obs.Parse(a).Src
		var fmtA []string
		var posA []formula.Position
		offs := []int{0, len(a) / 2, len(a)}
		if srcA != nil {
			for _, d := range srcA.Diagnostics {
				fmtA = append(fmtA, formula.FormatDiagnostic(srcA, d))
				offs = append(offs, d.Start)
			}
			for _, o := range offs {
				posA = append(posA, formula.GetFileLineAndCharacterFromPosition(srcA, o))
			}
		}
		// another text goes through the same functions
		tabB := formula.ComputeLineStarts(b)
		formula.PositionToLineAndCharacter(b, len(b))
		if srcB := obs.Parse(b).Src; srcB != nil {
			for _, d := range srcB.Diagnostics {
				formula.FormatDiagnostic(srcB, d)
			}
			formula.GetFileLineAndCharacterFromPosition(srcB, len(b))
		}
		if fmt.Sprint(tabA) != wantTab {
			msg = fmt.Sprintf("the line-start table returned for %q was %s and reads %v after the table for %q was computed", a, wantTab, tabA, b)
			return
		}
		if want := fmt.Sprint(refLineStarts(b)); fmt.Sprint(tabB) != want {
			msg = fmt.Sprintf("the line-start table of %q reads %v (want %s) after positions in it were looked up", b, tabB, want)
			return
		}
		if srcA != nil {
			for i, d := range srcA.Diagnostics {
				if f := formula.FormatDiagnostic(srcA, d); f != fmtA[i] {
					msg = fmt.Sprintf("diagnostic %d of %q was formatted as %q and is formatted as %q after %q was parsed", i, a, fmtA[i], f, b)
					return
				}
			}
			for i, o := range offs {
				if p := formula.GetFileLineAndCharacterFromPosition(srcA, o); p != posA[i] {
					msg = fmt.Sprintf("offset %d of %q was at (%d,%d) and is at (%d,%d) after %q was parsed", o, a, posA[i].Line, posA[i].Column, p.Line, p.Column, b)
					return
				}
				wl, wc := directLineCol(a, o)
				if posA[i].Line != wl || posA[i].Column != wc {
					msg = fmt.Sprintf("GetFileLineAndCharacterFromPosition(%q, %d) = (%d,%d), direct count (%d,%d)", a, o, posA[i].Line, posA[i].Column, wl, wc)
					return
				}
			}
		}
	}()
	return msg
}

func init() {
	h.RegisterReplay("c15-held", func(raw json.RawMessage) string {
		c, err := h.Decode[[2]textCase](raw)
		if err != nil {
			return "bad replay: " + err.Error()
		}
		return checkHeld([]byte(c[0].text()), []byte(c[1].text()))
	})
	reg := func(kind string, f func([]byte) string) {
		h.RegisterReplay(kind, func(raw json.RawMessage) string {
			c, err := h.Decode[textCase](raw)
			if err != nil {
				return "bad replay: " + err.Error()
			}
			return f([]byte(c.text()))
		})
	}
	reg("c15-lines", checkLineTable)
	reg("c15-ranges", checkRanges)
	reg("c15-diag", func(b []byte) string { m, _ := checkDiagnostics(b); return m })
}

var c15LineSyms = []string{"a", "é", "\n", "\r", "\u2028", "\u2029", "\u0085", " "}

func multiBreak(text string) bool {
	kinds := 0
	for _, k := range []string{"\r\n", "\u2028", "\u2029", "\u0085"} {
		if strings.Contains(text, k) {
			kinds++
		}
	}
	t2 := strings.ReplaceAll(text, "\r\n", "")
	if strings.Contains(t2, "\n") {
		kinds++
	}
	if strings.Contains(t2, "\r") {
		kinds++
	}
	last := false
	if len(text) > 0 {
		r, _ := utf8.DecodeLastRuneInString(text)
		last = ref.IsNL(r)
	}
	return kinds >= 2 || strings.Contains(text, "\r\n") || last
}

// TestC15LineTables: every text of length <=k over {a, é, LF, CR, U+2028, U+2029, U+0085, SP} x every offset.
func TestC15LineTables(t *testing.T) {
	k := h.N(5, 7)
	run := h.Begin("C15", "line-tables", fmt.Sprintf("bounded-exhaustive: every text of 0..%d symbols over {a, é, LF, CR, U+2028, U+2029, U+0085, SP} (CRLF arises as CR+LF) x every byte offset 0..len; oracle: reference line-start list and a direct count of line terminators wholly before the offset (CRLF once), column in bytes; and the results held for the previous text of the enumeration (its table, its parsed source, formatted diagnostics, positions) are unchanged after this text went through the same functions; non-trivial: >=2 different line-break forms, a CRLF, or a break as the last character", k))
	defer run.End(t)
	if h.Mine(0) {
		run.Count(false, "")
		if msg := checkLineTable(nil); msg != "" {
			run.Fail("c15-lines", mkTextCase("", ""), msg)
		}
	}
	var sb strings.Builder
	prevText := "x\n\ny +"
	enumSeq(len(c15LineSyms), k, func(seq []int) {
		if run.NViolations() >= 3 {
			return
		}
		sb.Reset()
		for _, s := range seq {
			sb.WriteString(c15LineSyms[s])
		}
		text := sb.String()
		nt := multiBreak(text)
		run.Count(nt, "")
		if nt && len(seq) == k && (seq[0]*5+seq[k-1]*3+seq[1])%61 == 0 {
			run.Sample("lines", mkTextCase(text, "").Text)
		}
		if msg := checkLineTable([]byte(text)); msg != "" {
			run.Fail("c15-lines", mkTextCase(text, ""), msg)
		}
		if msg := checkHeld([]byte(prevText), []byte(text)); msg != "" {
			run.Fail("c15-held", [2]textCase{mkTextCase(prevText, ""), mkTextCase(text, "")}, msg)
		}
		prevText = text
	})
	run.Exhaustive()
}

// TestC15LineTablesRandom: longer random texts.
func TestC15LineTablesRandom(t *testing.T) {
	run := h.Begin("C15", "line-tables-random", "rapid: random texts up to 2 KiB (64 KiB thorough) mixing ASCII, multi-byte, invalid bytes and all six line-break forms; same oracle on every offset (sampled offsets for texts over 512 bytes); non-trivial as for line tables; distinct by text")
	defer run.End(t)
	h.RapidSetup(h.N(1500, 200000), "c15lines")
	maxLen := h.N(2048, 65536)
	rapid.Check(t, func(rt *rapid.T) {
		n := rapid.IntRange(0, 64).Draw(rt, "n")
		if rapid.IntRange(0, 9).Draw(rt, "big") == 0 {
			n = rapid.IntRange(0, maxLen/3).Draw(rt, "nbig")
		}
		var b []byte
		syms := []string{"a", "bc", "é", "中", "\n", "\r", "\r\n", "\u2028", "\u2029", "\u0085", " ", "\xff", "\xe2\x80", "\xc2"}
		for i := 0; i < n; i++ {
			b = append(b, rapid.SampledFrom(syms).Draw(rt, "sym")...)
		}
		run.CountKey(string(b), multiBreak(string(b)), "")
		if len(b) < 30 {
			run.Sample("lines", mkTextCase(string(b), "").Text)
		}
		var msg string
		if len(b) <= 512 {
			msg = checkLineTable(b)
		} else {
			msg = checkLineTableSampled(rt, b)
		}
		if msg != "" {
			run.Pending("lines", "c15-lines", mkTextCase(string(b), ""), msg)
			rt.Fatalf("%s", msg)
		}
	})
}

func checkLineTableSampled(rt *rapid.T, text []byte) string {
	want := refLineStarts(text)
	got := formula.ComputeLineStarts(text)
	if fmt.Sprint(got) != fmt.Sprint(want) {
		return fmt.Sprintf("ComputeLineStarts on %d bytes = %v, want %v", len(text), got, want)
	}
	offs := []int{0, len(text)}
	for i := 0; i < 40; i++ {
		offs = append(offs, rapid.IntRange(0, len(text)).Draw(rt, "off"))
	}
	for _, s := range want { // around every line start
		for _, d := range []int{-2, -1, 0, 1} {
			if o := s + d; o >= 0 && o <= len(text) && len(offs) < 400 {
				offs = append(offs, o)
			}
		}
	}
	for _, off := range offs {
		wl, wc := directLineCol(text, off)
		p := formula.PositionToLineAndCharacter(text, off)
		if p.Line != wl || p.Column != wc {
			return fmt.Sprintf("PositionToLineAndCharacter(%d bytes, %d) = (%d,%d), direct count (%d,%d)", len(text), off, p.Line, p.Column, wl, wc)
		}
	}
	return ""
}

// TestC15Ranges: every node of every generated tree.
func TestC15Ranges(t *testing.T) {
	run := h.Begin("C15", "ranges", "rapid: grammar-generated programs with layouts that use all six line-break forms and multi-byte whitespace; oracle: 0<=Pos<=End<=len, children inside the parent, siblings in source order without overlap, text[Pos:End] of every node in expression position parses on its own to a tree with the same position-free dump, and every node / operator token / member name covers exactly the token span the reference parser assigns to it (start inside the leading trivia of its first token, end between its last token and the next token's text); non-trivial: >=5 nodes over >=2 lines; distinct by text")
	defer run.End(t)
	h.RapidSetup(h.N(3000, 800000), "c15ranges")
	rapid.Check(t, func(rt *rapid.T) {
		ast := genExpr(rt, &syntaxCfg, rapid.IntRange(1, 6).Draw(rt, "depth"), ref.LvComma)
		toks := ast.Flatten()
		seps := genLayout(rt, toks, rapid.IntRange(0, 4).Draw(rt, "nlw"))
		text := ref.Join(toks, seps)
		run.CountKey(text, ast.Count() >= 5 && hasNL(text), "")
		run.Sample("ranges", text)
		msg := checkRanges([]byte(text))
		if msg == "" {
			// the same program with a line break in front of one member access
			// or call: wherever that is still accepted, the nodes' texts stand
			// on their own as before
			var at []int
			for i, tk := range toks {
				if tk.NoNLBefore {
					at = append(at, i)
				}
			}
			if len(at) > 0 {
				broken := append([]string(nil), seps...)
				broken[at[rapid.IntRange(0, len(at)-1).Draw(rt, "breakat")]] = rapid.SampledFrom(sepsNL).Draw(rt, "breaknl")
				if m := checkRanges([]byte(ref.Join(toks, broken))); m != "" {
					msg, text = m, ref.Join(toks, broken)
				}
			}
		}
		if msg == "" && !obs.Parse([]byte(text)).OK() {
			msg = fmt.Sprintf("generated program %q rejected", text)
		}
		if msg == "" {
			// the same program inside redundant, directly nested parentheses
			for _, wrapped := range []string{"((" + text + ")) + 1", "f(((" + text + ")), ( (a) ))", "((( " + text + " ))) . k"} {
				if m := checkRanges([]byte(wrapped)); m != "" {
					msg, text = m, wrapped
					break
				}
			}
		}
		if msg != "" {
			run.Pending("ranges", "c15-ranges", mkTextCase(text, ""), msg)
			rt.Fatalf("%s", msg)
		}
	})
}

// TestC15RangesExhaustive: every accepted token sequence up to k tokens.
func TestC15RangesExhaustive(t *testing.T) {
	k := h.N(4, 5)
	run := h.Begin("C15", "ranges-exhaustive", fmt.Sprintf("bounded-exhaustive: every accepted sequence of 1..%d tokens over the 39-lexeme alphabet (separated by ' ' or '\\n ' alternately); oracle as for ranges; non-trivial: accepted sequences with >=3 nodes", k))
	defer run.End(t)
	var sb strings.Builder
	enumSeq(len(c02Alphabet), k, func(seq []int) {
		if run.NViolations() >= 3 {
			return
		}
		sb.Reset()
		for i, s := range seq {
			if i > 0 {
				lx := c02Alphabet[s]
				if i%2 == 0 && lx != "." && lx != "!." && lx != "(" {
					sb.WriteString("\n ")
				} else {
					sb.WriteByte(' ')
				}
			}
			sb.WriteString(c02Alphabet[s])
		}
		text := []byte(sb.String())
		out := obs.Parse(text)
		if !out.OK() {
			// rejected inputs are counted under the diagnostics sub-check
			return
		}
		run.Count(out.Src.NodeCount >= 3, "")
		if len(seq) == k && (seq[0]+seq[k-1])%17 == 0 {
			run.Sample("ranges", string(text))
		}
		if msg := checkRanges(text); msg != "" {
			run.Fail("c15-ranges", mkTextCase(string(text), ""), msg)
		}
	})
	run.Exhaustive()
}

var c15PrevDiagText = "total +\nprice +\n\n  * qty"

var c15Breaks = []string{"\n", "\r", "\r\n", "\u2028", "\u2029", "\u0085"}

// TestC15Diagnostics: rejected inputs, multi-line layouts, every line-break form,
// errors at the very end of the text.
func TestC15Diagnostics(t *testing.T) {
	run := h.Begin("C15", "diagnostics", "rapid: (i) generated programs with one or two token-level mutations, (ii) token soups over the full alphabet, (iii) truncated valid programs (error at the very end), all laid out over several lines with random line-break forms including a trailing break, optionally with string literals that continue over a line end after a backslash; oracle: every diagnostic inside the text and the error string equal to 'pos(line, column) error(code) message' built from the first diagnostic with line/column from a direct count; the diagnostics, positions and line table held for the previously generated text are unchanged afterwards; counted only when a SourceCode with diagnostics is returned; non-trivial: first diagnostic not on line 0, or text with >=2 line-break forms / CRLF / trailing break; distinct by text")
	defer run.End(t)
	h.RapidSetup(h.N(6000, 1500000), "c15diag")
	rapid.Check(t, func(rt *rapid.T) {
		var toks []string
		switch rapid.IntRange(0, 2).Draw(rt, "src") {
		case 0:
			ast := genExpr(rt, &syntaxCfg, rapid.IntRange(1, 4).Draw(rt, "depth"), ref.LvComma)
			for _, tk := range ast.Flatten() {
				toks = append(toks, tk.Text)
			}
			for m := rapid.IntRange(1, 2).Draw(rt, "nmut"); m > 0 && len(toks) > 0; m-- {
				at := rapid.IntRange(0, len(toks)-1).Draw(rt, "at")
				switch rapid.IntRange(0, 2).Draw(rt, "mut") {
				case 0:
					toks = append(toks[:at:at], toks[at+1:]...)
				case 1:
					toks = append(toks[:at:at], append([]string{rapid.SampledFrom(c01Alphabet).Draw(rt, "lx")}, toks[at:]...)...)
				case 2:
					toks = toks[:at]
				}
			}
		case 1:
			n := rapid.IntRange(1, 8).Draw(rt, "n")
			for i := 0; i < n; i++ {
				toks = append(toks, rapid.SampledFrom(c01Alphabet).Draw(rt, "lx"))
			}
		case 2:
			ast := genExpr(rt, &syntaxCfg, rapid.IntRange(2, 4).Draw(rt, "depth"), ref.LvComma)
			for _, tk := range ast.Flatten() {
				toks = append(toks, tk.Text)
			}
			toks = toks[:rapid.IntRange(0, len(toks)).Draw(rt, "cut")]
			toks = append(toks, rapid.SampledFrom([]string{"+", "(", "[", ",", "?", "a ? b :", ".", "f(", "'x", "1e", "="}).Draw(rt, "tail"))
		}
		// string literals that run over a line end through a backslash (the line break still counts as one)
		for k := rapid.IntRange(0, 2).Draw(rt, "ncont"); k > 0 && rapid.IntRange(0, 2).Draw(rt, "cont?") == 0; k-- {
			lit := rapid.SampledFrom([]string{"'x\\\ny'", "\"a\\\r\nb\"", "'\\\u2028'", "'p\\\u0085q'", "'\\\r'", "'\\\n\\\n'", "'u\\\u2029v' + 'w\\\nz'"}).Draw(rt, "contlit")
			at := rapid.IntRange(0, len(toks)).Draw(rt, "contat")
			toks = append(toks[:at:at], append([]string{lit}, toks[at:]...)...)
		}
		var sb strings.Builder
		sep := func(label string) string {
			if rapid.IntRange(0, 2).Draw(rt, label) == 0 {
				return rapid.SampledFrom(c15Breaks).Draw(rt, "brk")
			}
			return rapid.SampledFrom([]string{" ", "  ", "\t", "\u00a0"}).Draw(rt, "ws")
		}
		if rapid.Bool().Draw(rt, "lead") {
			sb.WriteString(sep("s0"))
		}
		for i, tk := range toks {
			if i > 0 {
				sb.WriteString(sep("s"))
			}
			sb.WriteString(tk)
		}
		if rapid.Bool().Draw(rt, "trail") {
			sb.WriteString(rapid.SampledFrom(c15Breaks).Draw(rt, "tbrk"))
		}
		text := sb.String()
		msg, had := checkDiagnostics([]byte(text))
		if !had {
			run.Class("no-diagnostic-path")
			return
		}
		out := obs.Parse([]byte(text))
		line, _ := directLineCol([]byte(text), out.Src.Diagnostics[0].Start)
		atEnd := out.Src.Diagnostics[0].Start == len(text)
		cls := "diag"
		if atEnd {
			cls = "diag-at-end"
		}
		run.CountKey(text, line > 0 || multiBreak(text), cls)
		run.Sample(cls, mkTextCase(text, "").Text)
		if msg != "" {
			run.Pending("diag", "c15-diag", mkTextCase(text, ""), msg)
			rt.Fatalf("%s", msg)
		}
		// the previous rejected text's source and table are still the caller's after this one was processed
		prev := c15PrevDiagText
		c15PrevDiagText = text
		if hm := checkHeld([]byte(prev), []byte(text)); hm != "" {
			run.Pending("held", "c15-held", [2]textCase{mkTextCase(prev, ""), mkTextCase(text, "")}, hm)
			rt.Fatalf("%s", hm)
		}
	})
}

// TestC15DiagnosticsExhaustive: error at the end of a short text after each break form.
func TestC15DiagnosticsExhaustive(t *testing.T) {
	run := h.Begin("C15", "diagnostics-exhaustive", "bounded-exhaustive: 12 incomplete formulas x every sequence of 0..3 line-break forms (LF, CR, CRLF, U+2028, U+2029, U+0085) inserted before the last token and/or appended at the very end; oracle as for diagnostics; non-trivial: every case with at least one break")
	defer run.End(t)
	heads := [][2]string{{"a +", ""}, {"a", "+"}, {"(a", ""}, {"[a,", ""}, {"f(a", ""}, {"a ?", "b"}, {"a ? b", ":"}, {"a.", ""}, {"'x", ""}, {"1", "e"}, {"a", "#"}, {"a b", ""}}
	var idx int64
	enumSeqAll(len(c15Breaks), 3, func(seq []int) {
		brk := ""
		for _, s := range seq {
			brk += c15Breaks[s]
		}
		for _, hd := range heads {
			for variant := 0; variant < 3; variant++ {
				idx++
				if !h.Mine(idx) || run.NViolations() >= 3 {
					continue
				}
				var text string
				switch variant {
				case 0:
					text = hd[0] + brk + hd[1]
				case 1:
					text = hd[0] + " " + hd[1] + brk
				case 2:
					text = brk + hd[0] + brk + hd[1] + brk
				}
				msg, had := checkDiagnostics([]byte(text))
				if !had {
					run.Class("no-diagnostic-path")
					continue
				}
				run.Count(true, "")
				if idx%301 == 0 {
					run.Sample("diag", mkTextCase(text, "").Text)
				}
				if msg != "" {
					run.Fail("c15-diag", mkTextCase(text, ""), msg)
				}
			}
		}
	})
	run.Exhaustive()
}

// checkSpans compares every node's range with the token span the reference
// parser assigns to the same node: a range must start inside the leading trivia
// of its first token and end between the end of its last token and the start
// of the next token's text; operator tokens and member names must cover exactly
// their own token.
func checkSpans(text []byte, root formula.Node) string {
	lr := ref.Lex(text)
	if lr.Err {
		return ""
	}
	want := ref.ParseTokens(lr.Tokens)
	if want == nil || want.Dump() != obs.Dump(root) {
		return "" // C02's concern
	}
	toks := lr.Tokens
	inSpan := func(n formula.Node, f, l int, what string) string {
		if obs.IsNil(n) {
			return ""
		}
		if n.Pos() < toks[f].Start || n.Pos() > toks[f].Pos {
			return fmt.Sprintf("%q: %s starts at %d, its first token %q has leading trivia at %d and text at %d", text, what, n.Pos(), text[toks[f].Pos:toks[f].End], toks[f].Start, toks[f].Pos)
		}
		if n.End() < toks[l].End || n.End() > toks[l+1].Pos {
			return fmt.Sprintf("%q: %s ends at %d, its last token %q ends at %d (next token text starts at %d)", text, what, n.End(), text[toks[l].Pos:toks[l].End], toks[l].End, toks[l+1].Pos)
		}
		return ""
	}
	var walk func(n formula.Node, r *ref.Node) string
	walk = func(n formula.Node, r *ref.Node) string {
		if m := inSpan(n, r.F, r.L, fmt.Sprintf("%T", n)); m != "" {
			return m
		}
		switch x := n.(type) {
		case *formula.PrefixUnaryExpression:
			if m := inSpan(x.Operator, r.F, r.F, "prefix operator token"); m != "" {
				return m
			}
			return walk(x.Operand, r.Kids[0])
		case *formula.TypeOfExpression:
			return walk(x.Expression, r.Kids[0])
		case *formula.BinaryExpression:
			if m := inSpan(x.Operator, r.Kids[0].L+1, r.Kids[0].L+1, "binary operator token"); m != "" {
				return m
			}
			if m := walk(x.Left, r.Kids[0]); m != "" {
				return m
			}
			return walk(x.Right, r.Kids[1])
		case *formula.ConditionalExpression:
			if m := inSpan(x.QuestionTok, r.Kids[0].L+1, r.Kids[0].L+1, "'?' token"); m != "" {
				return m
			}
			if m := inSpan(x.ColonTok, r.Kids[1].L+1, r.Kids[1].L+1, "':' token"); m != "" {
				return m
			}
			for i, k := range []formula.Node{x.Condition, x.WhenTrue, x.WhenFalse} {
				if m := walk(k, r.Kids[i]); m != "" {
					return m
				}
			}
		case *formula.SelectorExpression:
			if m := inSpan(x.Name, r.L, r.L, "member name"); m != "" {
				return m
			}
			return walk(x.Expression, r.Kids[0])
		case *formula.CallExpression:
			if m := walk(x.Expression, r.Kids[0]); m != "" {
				return m
			}
			for i := 0; i < x.Arguments.Len(); i++ {
				if m := walk(x.Arguments.At(i), r.Kids[i+1]); m != "" {
					return m
				}
			}
			if x.DotDotDotToken != nil {
				if m := inSpan(x.DotDotDotToken, r.L-1, r.L-1, "'...' token"); m != "" {
					return m
				}
			}
		case *formula.ArrayLiteralExpression:
			for i := 0; i < x.Elements.Len(); i++ {
				if m := walk(x.Elements.At(i), r.Kids[i]); m != "" {
					return m
				}
			}
		case *formula.ParenthesizedExpression:
			return walk(x.Expression, r.Kids[0])
		}
		return ""
	}
	return walk(root, want)
}

// TestC15Long: programs of hundreds of lines; ranges, spans and diagnostics far from the start.
func TestC15Long(t *testing.T) {
	run := h.Begin("C15", "long", "rapid: programs of 100..600 small generated items, one or a few per line (all six line-break forms, lines up to 400 bytes), in a list, an argument list or a comma sequence (<=80 items there); (i) accepted: the ranges / own-text / span oracle on every node; (ii) the same text with one token removed, doubled or replaced near the end: the diagnostics oracle (position hundreds of lines and columns from the start); non-trivial: >=100 lines; distinct by text")
	defer run.End(t)
	h.RapidSetup(h.N(40, 6000), "c15long")
	rapid.Check(t, func(rt *rapid.T) {
		shape := rapid.IntRange(0, 2).Draw(rt, "shape")
		n := rapid.IntRange(100, 600).Draw(rt, "n")
		if shape == 2 {
			n = rapid.IntRange(30, 80).Draw(rt, "ncomma")
		}
		perLine := rapid.SampledFrom([]int{1, 1, 2, 5, 40}).Draw(rt, "perline")
		var ast *ref.Node
		switch shape {
		case 0:
			ast = &ref.Node{Kind: "arr"}
		case 1:
			ast = &ref.Node{Kind: "call", Kids: []*ref.Node{{Kind: "id", Val: "f"}}}
		}
		for i := 0; i < n; i++ {
			it := genExpr(rt, &syntaxCfg, rapid.IntRange(0, 2).Draw(rt, "depth"), ref.LvAssign)
			switch {
			case shape < 2:
				ast.Kids = append(ast.Kids, it)
			case ast == nil:
				ast = it
			default:
				ast = &ref.Node{Kind: "bin", Op: ",", Kids: []*ref.Node{ast, it}}
			}
		}
		toks := ast.Flatten()
		seps := make([]string, len(toks)+1)
		items := 0
		for i, tk := range toks {
			seps[i] = ""
			if i > 0 {
				seps[i] = rapid.SampledFrom([]string{"", " ", " ", "\t"}).Draw(rt, "ws")
			}
			if i > 0 && toks[i-1].Text == "," && !tk.NoNLBefore {
				if items++; items%perLine == 0 {
					seps[i] = rapid.SampledFrom(c15Breaks).Draw(rt, "brk") + rapid.SampledFrom([]string{"", "  ", "\t"}).Draw(rt, "indent")
				}
			}
		}
		text := ref.Join(toks, seps)
		lines := len(refLineStarts([]byte(text)))
		run.CountKey(text, lines >= 100, "")
		if len(text) < 500 {
			run.Sample("long", text)
		}
		msg := checkRanges([]byte(text))
		if msg == "" && !obs.Parse([]byte(text)).OK() {
			msg = fmt.Sprintf("generated program %q rejected", text)
		}
		kind, bad := "c15-ranges", text
		if msg == "" {
			// one token near the end removed, doubled or replaced
			at := len(toks) - 1 - rapid.IntRange(0, 30).Draw(rt, "fromend")
			if at < 0 {
				at = 0
			}
			mut := append([]ref.PTok(nil), toks...)
			switch rapid.IntRange(0, 2).Draw(rt, "mut") {
			case 0:
				mut = append(mut[:at:at], mut[at+1:]...)
			case 1:
				mut = append(mut[:at+1:at+1], mut[at:]...)
			default:
				mut[at] = ref.PTok{Text: rapid.SampledFrom([]string{")", "]", "?", ":", "'x", "1e", "..."}).Draw(rt, "repl")}
			}
			ms := append([]string(nil), seps...)
			for len(ms) < len(mut)+1 {
				ms = append(ms, " ")
			}
			for i := range ms {
				if ms[i] == "" && i > 0 && i < len(mut) {
					ms[i] = " "
				}
			}
			bad = ref.Join(mut, ms[:len(mut)+1])
			var had bool
			msg, had = checkDiagnostics([]byte(bad))
			if had {
				run.Class("late-diagnostic")
			}
			kind = "c15-diag"
		}
		if msg != "" {
			if len(msg) > 1500 {
				msg = msg[:700] + " ... " + msg[len(msg)-700:]
			}
			run.Pending("long", kind, mkTextCase(bad, ""), msg)
			rt.Fatalf("%s", msg)
		}
	})
}

// checkBigRanges: the range part of the oracle (no re-parse of every node) for a text of any size.
func checkBigRanges(text []byte) string {
	out := obs.Parse(text)
	if !out.OK() {
		if out.Panic != nil {
			return fmt.Sprintf("parsing a generated program of %d bytes panicked: %v", len(text), out.Panic)
		}
		// whether a text of this size and depth is accepted is not this property's
		// business (a nesting limit is legitimate): no tree, no ranges to check
		return c15Rejected
	}
	n := len(text)
	msg := ""
	count := 0
	obs.Walk(out.Src.Expression, func(nd formula.Node, parent formula.Node, c obs.Child) {
		if msg != "" || obs.IsNil(nd) {
			return
		}
		count++
		if !(0 <= nd.Pos() && nd.Pos() <= nd.End() && nd.End() <= n) {
			msg = fmt.Sprintf("%T in slot %s has range [%d,%d) outside the text (len %d)", nd, c.Slot, nd.Pos(), nd.End(), n)
			return
		}
		kids, lists := obs.Children(nd)
		prev := nd.Pos()
		for _, k := range kids {
			if obs.IsNil(k.Node) {
				continue
			}
			if k.Node.Pos() < nd.Pos() || k.Node.End() > nd.End() {
				msg = fmt.Sprintf("child %s [%d,%d) not inside parent %T [%d,%d)", k.Slot, k.Node.Pos(), k.Node.End(), nd, nd.Pos(), nd.End())
				return
			}
			if k.Node.Pos() < prev {
				msg = fmt.Sprintf("child %s [%d,%d) of %T overlaps or precedes its left sibling (ends %d)", k.Slot, k.Node.Pos(), k.Node.End(), nd, prev)
				return
			}
			prev = k.Node.End()
		}
		for _, l := range lists {
			if !l.Nil && (l.Pos < nd.Pos() || l.End > nd.End() || l.Pos > l.End) {
				msg = fmt.Sprintf("list %s [%d,%d) not inside %T [%d,%d)", l.Slot, l.Pos, l.End, nd, nd.Pos(), nd.End())
				return
			}
		}
		// the own text of a sample of nodes
		if c.Expr && count%997 == 1 && nd.End()-nd.Pos() < 1<<12 {
			sub := text[nd.Pos():nd.End()]
			if re := obs.Parse(sub); !re.OK() {
				msg = fmt.Sprintf("text %q of %T at [%d,%d) does not parse on its own: %v", sub, nd, nd.Pos(), nd.End(), re.Err)
			} else if obs.Dump(nd) != obs.Dump(re.Src.Expression) {
				msg = fmt.Sprintf("text %q of %T at [%d,%d) parses on its own to another subtree", sub, nd, nd.Pos(), nd.End())
			}
		}
	})
	if msg == "" {
		root := out.Src.Expression
		if strings.TrimSpace(string(text[root.End():])) != "" || strings.TrimSpace(string(text[:root.Pos()])) != "" {
			msg = fmt.Sprintf("the root %T covers [%d,%d) of a text of %d bytes that is one expression", root, root.Pos(), root.End(), n)
		}
		if eof := out.Src.EndOfFileToken; eof != nil && (eof.Pos() > n || eof.End() != n) {
			msg = fmt.Sprintf("the end-of-file token is at [%d,%d) in a text of %d bytes", eof.Pos(), eof.End(), n)
		}
	}
	if msg != "" {
		return fmt.Sprintf("program of %d bytes starting %q: %s", n, text[:min(n, 40)], msg)
	}
	return ""
}

type bigCase struct {
	Shape string `json:"shape"`
	Size  int    `json:"size"`
}

func (c bigCase) text() []byte {
	n := c.Size
	switch c.Shape {
	case "string":
		return []byte("'" + strings.Repeat("x", n) + "'")
	case "string-in-call":
		return []byte("len(\"" + strings.Repeat("é", n/2) + "\") + 1")
	case "sum":
		return []byte("a" + strings.Repeat(" + b", n/4))
	case "list":
		return []byte("[" + strings.Repeat("a1, ", n/4) + "z]")
	case "lines":
		return []byte("f(" + strings.Repeat("x.y,\n", n/5) + "1)")
	case "number":
		return []byte("[" + strings.Repeat("9", n) + ", 1]")
	case "nested":
		return []byte(strings.Repeat("(", 200) + "a" + strings.Repeat(" * 2", n/4) + strings.Repeat(")", 200))
	case "blank":
		return []byte("a +" + strings.Repeat(" ", n) + "b")
	}
	return []byte("conditional" + strings.Repeat(" ? 1 : c", n/8))
}

func init() {
	h.RegisterReplay("c15-big", func(raw json.RawMessage) string {
		c, err := h.Decode[bigCase](raw)
		if err != nil {
			return "bad replay: " + err.Error()
		}
		if msg := checkBigRanges(c.text()); msg != c15Rejected {
			return msg
		}
		return ""
	})
}

const c15Rejected = "rejected"

// TestC15Big: ranges in texts around and beyond 64 KiB.
func TestC15Big(t *testing.T) {
	sizes := []int{65000, 65530, 65536, 66000, 70000, 131072 + 9, 300000}
	shapes := []string{"string", "string-in-call", "sum", "list", "lines", "number", "nested", "blank", "conditional"}
	run := h.Begin("C15", "big", fmt.Sprintf("enumerated: %d shapes (one long string literal, a long sum / list / argument list over many lines / digit run / conditional ladder, a long run of blanks inside a node) at %d sizes around 2^16 and 2^17 and at 300000 bytes; oracle: every range inside the text, children inside the parent in source order, the root covers the text, the end-of-file token ends it, a sample of nodes re-parses to the same subtree; non-trivial: the text was accepted (all of them on the unchanged tree)", len(shapes), len(sizes)))
	defer run.End(t)
	var idx int64
	for _, sh := range shapes {
		for _, sz := range sizes {
			idx++
			if !h.Mine(idx) || run.NViolations() >= 3 {
				continue
			}
			c := bigCase{Shape: sh, Size: sz}
			msg := checkBigRanges(c.text())
			if msg == c15Rejected {
				run.Count(false, "rejected (no tree to check)")
				continue
			}
			run.Count(true, sh)
			if msg != "" {
				run.Fail("c15-big", c, msg)
			}
		}
	}
	run.Exhaustive()
}
