package props

import (
	"context"
	"encoding/json"
	"fmt"
	"math/big"
	"reflect"
	"strings"
	"testing"
	"time"

	"github.com/aundis/formula"
	"pgregory.net/rapid"

	"verif/internal/h"
	"verif/internal/obs"
	"verif/internal/ref"
	"verif/internal/spec"
)

// C16 — names and member access read the caller's data, null-safely.

type pathStep struct {
	Key    string `json:"key"`
	Assert bool   `json:"assert,omitempty"` // '!.' instead of '.'
}

type pathCase struct {
	Data  map[string]spec.V `json:"data"`            // nil => runner without any map
	NoMap bool              `json:"nomap,omitempty"` // evaluate on a runner that never got a map
	This  bool              `json:"this,omitempty"`  // path starts with `this`
	Root  string            `json:"root"`            // first name
	Steps []pathStep        `json:"steps,omitempty"` // member accesses
	Bang  bool              `json:"bang,omitempty"`  // with This: written this!.root
	Used  bool              `json:"used,omitempty"`  // the runner served another caller's data (same keys, other values, locals, auxiliary entries) before
}

func (c pathCase) text() string {
	s := c.Root
	if c.This {
		s = "this." + c.Root
		if c.Bang && !c.NoMap {
			s = "this!." + c.Root // the data map is never null, however few entries it has
		}
	}
	for _, st := range c.Steps {
		if st.Assert {
			s += "!." + st.Key
		} else {
			s += "." + st.Key
		}
	}
	return s
}

func isNullGo(v interface{}) bool {
	if v == nil {
		return true
	}
	rv := reflect.ValueOf(v)
	return rv.Kind() == reflect.Ptr && rv.IsNil()
}

// refStep is the reference semantics of one member access on a Go value.
// outcome: "ok", "err" (must be an error) or "unspec" (not asserted).
func refStep(v interface{}, key string, assert bool) (interface{}, string) {
	if isNullGo(v) {
		if assert {
			return nil, "err"
		}
		return nil, "ok"
	}
	switch m := v.(type) {
	case map[string]interface{}:
		return m[key], "ok" // missing key -> null
	case map[string]int:
		if x, ok := m[key]; ok {
			return x, "ok"
		}
		return nil, "ok"
	case map[string]string:
		if x, ok := m[key]; ok {
			return x, "ok"
		}
		return nil, "ok"
	case spec.S1:
		switch key {
		case "Name":
			return m.Name, "ok"
		case "Age":
			return m.Age, "ok"
		case "Score":
			return m.Score, "ok"
		case "Inner":
			return m.Inner, "ok"
		case "P":
			return m.P, "ok"
		case "Any":
			return m.Any, "ok"
		}
		return nil, "unspec" // missing / unexported field: C03's concern
	case spec.S2:
		switch key {
		case "Label":
			return m.Label, "ok"
		case "N":
			return m.N, "ok"
		}
		return nil, "unspec"
	case spec.S3: // field k of the struct, by Go's own selectors
		switch key {
		case "Label":
			return m.Label, "ok"
		case "N":
			return m.N, "ok"
		case "Extra":
			return m.Extra, "ok"
		case "S2":
			return m.S2, "ok"
		}
		return nil, "unspec"
	case spec.S4:
		switch key {
		case "Label":
			return m.Label, "ok"
		case "N":
			return m.N, "ok"
		case "Deep":
			return m.Deep, "ok"
		case "S2":
			return m.S2, "ok"
		case "S5":
			return m.S5, "ok"
		case "S6":
			return m.S6, "ok"
		}
		return nil, "unspec"
	case spec.S5:
		switch key {
		case "Label":
			return m.Label, "ok"
		case "Deep":
			return m.Deep, "ok"
		case "S6":
			return m.S6, "ok"
		}
		return nil, "unspec"
	case spec.S6:
		switch key {
		case "Label":
			return m.Label, "ok"
		case "Deep":
			return m.Deep, "ok"
		}
		return nil, "unspec"
	}
	// struct types synthesised per case (reflect.StructOf / anonymous structs): exported field by name
	if rv := reflect.ValueOf(v); rv.Kind() == reflect.Struct {
		if _, known := v.(time.Time); !known {
			if f := rv.FieldByName(key); f.IsValid() && f.CanInterface() {
				return f.Interface(), "ok"
			}
			return nil, "unspec"
		}
	}
	return nil, "unspec" // scalars, slices, functions, pointers to structs: not asserted
}

var c16Shared *formula.Runner

// checkPath evaluates the path and compares with the reference lookup.
func checkPath(c pathCase) (msg string, class string) {
	rec := &spec.Recorder{}
	var data map[string]interface{}
	r := formula.NewRunner()
	if c.Used {
		// an earlier life of the runner: every key of the universe bound to a decoy, `$` locals written through
		// SetThisValue and by an evaluated assignment, auxiliary entries under the same names
		decoy := map[string]interface{}{}
		for _, k := range c16Keys {
			decoy[k] = map[string]interface{}{"a": "decoy", "Name": "decoy", "__v": "decoy"}
		}
		decoy[c.Root] = "decoy-root"
		r.SetThis(decoy)
		r.SetThisValue("$v", "stale")
		if strings.HasPrefix(c.Root, "$") {
			r.SetThisValue(c.Root, "stale-root")
		}
		if q := obs.Parse([]byte("$v = 'stale2', $w = a, [$v, this.a, a.a]")); q.OK() {
			obs.Eval(r, context.Background(), q.Src.Expression)
		}
		r.Set(c.Root, "aux")
		r.Set("$v", "aux")
		if c.NoMap {
			r.SetThis(nil)
		}
	}
	if !c.NoMap {
		data = spec.BuildMap(c.Data, rec)
		r.SetThis(data)
	} else {
		// another runner that never got a map has bound the very same names: its entries are its own
		rp := formula.NewRunner()
		rp.SetThisValue(c.Root, "another runner's")
		rp.SetThisValue("$v", "another runner's")
		for _, st := range c.Steps {
			rp.SetThisValue(st.Key, map[string]interface{}{"a": "another runner's"})
		}
		if q := obs.Parse([]byte("typeof this, $w = 1")); q.OK() {
			obs.Eval(rp, context.Background(), q.Src.Expression)
		}
	}
	text := c.text()
	// reference lookup
	var cur interface{}
	if !c.This {
		if _, isBuiltin := builtinArity[c.Root]; isBuiltin || c.Root == "true" || c.Root == "false" {
			return checkBuiltinWins(c, r, data)
		}
	}
	cur = data[c.Root] // missing name / no map -> null
	outcome := "ok"
	for _, st := range c.Steps {
		cur, outcome = refStep(cur, st.Key, st.Assert)
		if outcome != "ok" {
			break
		}
	}
	if outcome == "unspec" {
		return "", "unspecified"
	}
	p := obs.Parse([]byte("[" + text + ", (" + text + ") === null, (" + text + ") == null, null === (" + text + "), null == (" + text + "), (" + text + ") !== null, null != (" + text + ")]"))
	if !p.OK() {
		return fmt.Sprintf("the path %q - names and '.' / '!.' only - is rejected by the parser: %v", text, p.Err), "rejected"
	}
	if c.Used {
		// an earlier life of the tree, too: evaluated by another runner over another caller's record
		other := map[string]interface{}{}
		for _, k := range c16Keys {
			other[k] = map[string]interface{}{"a": "other", "Name": "other", "__v": "other", "k": "other"}
		}
		r0 := formula.NewRunner()
		r0.SetThis(other)
		obs.Eval(r0, context.Background(), p.Src.Expression)
	}
	before := obs.Snapshot(data, func(string) bool { return true })
	out := obs.Eval(r, context.Background(), p.Src.Expression)
	if out.Panic != nil {
		return fmt.Sprintf("%s panicked: %v", text, out.Panic), "panic"
	}
	// reading is reading: the caller's data (every entry, nested values included, with their Go types) is as it was
	if after := obs.Snapshot(data, func(string) bool { return true }); after != before {
		return fmt.Sprintf("evaluating the read-only path %s changed the caller's data:\nbefore %s\nafter  %s", text, before, after), "data-changed"
	}
	// One runner lives as long as the process and has served every earlier case - the failing ones
	// ('!.' on null) included. Handed this case's data it must answer like the new one.
	if c16Shared == nil {
		c16Shared = formula.NewRunner()
	}
	if c.NoMap {
		c16Shared.SetThis(nil)
	} else {
		c16Shared.SetThis(data)
	}
	if so := obs.Eval(c16Shared, context.Background(), p.Src.Expression); so.String() != out.String() {
		return fmt.Sprintf("%s: a new runner gives %s, a runner that served all earlier cases (errors included) and was then handed the same data gives %s", text, out, so), "used-runner"
	}
	if outcome == "err" {
		if out.Err == nil {
			return fmt.Sprintf("%s = %s, want an error ('!.' on null)", text, obs.Show(out.Val)), "assert-error"
		}
		return "", "assert-error"
	}
	arr, ok := out.Val.([]interface{})
	if out.Err != nil || !ok || len(arr) != 7 {
		return fmt.Sprintf("%s -> %s, the reference lookup gives %s", text, out, obs.Show(cur)), "value"
	}
	got := arr[0]
	isNullWant := isNullGo(cur)
	if b, ok := arr[1].(bool); !ok || b != isNullWant {
		return fmt.Sprintf("(%s) === null is %s, want %v (reference value %s)", text, obs.Show(arr[1]), isNullWant, obs.Show(cur)), "null-test"
	}
	for k, want := range map[int]bool{3: isNullWant, 5: !isNullWant} {
		if b, ok := arr[k].(bool); !ok || b != want {
			return fmt.Sprintf("element %d of [x, x === null, x == null, null === x, null == x, x !== null, null != x] with x = %s is %s, want %v (reference value %s)", k, text, obs.Show(arr[k]), want, obs.Show(cur)), "null-test"
		}
	}
	if isNullWant {
		for _, k := range []int{4} {
			if b, ok := arr[k].(bool); !ok || !b {
				return fmt.Sprintf("null == (%s) is %s, want true", text, obs.Show(arr[k])), "null-test"
			}
		}
		if b, ok := arr[6].(bool); !ok || b {
			return fmt.Sprintf("null != (%s) is %s, want false", text, obs.Show(arr[6])), "null-test"
		}
		if b, ok := arr[2].(bool); !ok || !b {
			return fmt.Sprintf("(%s) == null is %s, want true", text, obs.Show(arr[2])), "null-test"
		}
		if !isNullGo(got) {
			return fmt.Sprintf("%s = %s (%T), want null", text, obs.Show(got), got), "null"
		}
		return "", "null"
	}
	switch w := cur.(type) {
	case int, int32, int64:
		want := new(big.Rat).SetInt64(reflect.ValueOf(w).Int())
		if g, ok := obs.Rat(got); !ok || g.Cmp(want) != 0 || !obs.IsNum(got) {
			return fmt.Sprintf("%s = %s (%T), want the number %s", text, obs.Show(got), got, want.RatString()), "number"
		}
		return "", "number"
	case float64:
		want := ref.ShortestRat(w)
		if g, ok := obs.Rat(got); !ok || g.Cmp(want) != 0 {
			return fmt.Sprintf("%s = %s (%T), want the number %v", text, obs.Show(got), got, w), "number"
		}
		return "", "number"
	case string, bool:
		if got != cur {
			return fmt.Sprintf("%s = %s (%T), want %s", text, obs.Show(got), got, obs.Show(cur)), "scalar"
		}
		return "", "scalar"
	case time.Time:
		g, ok := got.(time.Time)
		if !ok || !g.Equal(w) || g.Location().String() != w.Location().String() {
			return fmt.Sprintf("%s = %s (%T), want the time %s unchanged", text, obs.Show(got), got, w), "time"
		}
		return "", "time"
	}
	rv := reflect.ValueOf(cur)
	switch rv.Kind() {
	case reflect.Map, reflect.Slice:
		gv := reflect.ValueOf(got)
		if !gv.IsValid() || gv.Type() != rv.Type() || gv.Pointer() != rv.Pointer() || gv.Len() != rv.Len() {
			return fmt.Sprintf("%s = %s (%T), want the caller's %T handed on unchanged (same object)", text, obs.Show(got), got, cur), "object"
		}
		return "", "object"
	}
	return "", "unspecified"
}

// checkBuiltinWins: a bare name that is also a builtin denotes the builtin, while this.name reads the data.
func checkBuiltinWins(c pathCase, r *formula.Runner, data map[string]interface{}) (string, string) {
	name := c.Root
	var f string
	var want interface{}
	switch name {
	case "len":
		f, want = "len('abc')", float64(3)
	case "max":
		f, want = "max(1, 2)", float64(2)
	case "abs":
		f, want = "abs(0-4)", float64(4)
	case "upper":
		f, want = "upper('a')", "A"
	case "true":
		f, want = "true", true
	case "false":
		f, want = "false", false
	default:
		return "", "unspecified"
	}
	p := obs.Parse([]byte(f))
	out := obs.Eval(r, context.Background(), p.Src.Expression)
	if out.Panic != nil || out.Err != nil || out.Val != want {
		return fmt.Sprintf("with a data entry named %q, %s -> %s; the bare name must denote the builtin (want %v)", name, f, out, want), "builtin"
	}
	return "", "builtin"
}

func init() {
	h.RegisterReplay("c16", func(raw json.RawMessage) string {
		c, err := h.Decode[pathCase](raw)
		if err != nil {
			return "bad replay: " + err.Error()
		}
		// a replay starts in a new process: give the long-lived runner a past first (200 evaluations, half of them failing)
		if c16Shared == nil {
			c16Shared = formula.NewRunner()
			c16Shared.SetThis(map[string]interface{}{"a": map[string]interface{}{"b": 1}, "n": nil})
			for k := 0; k < 50; k++ {
				for _, f := range []string{"zz!.a", "a.b", "n!.x.y", "a.zz!.k + 1"} {
					if q := obs.Parse([]byte(f)); q.OK() {
						obs.Eval(c16Shared, context.Background(), q.Src.Expression)
					}
				}
			}
		}
		m, _ := checkPath(c)
		return m
	})
}

var c16Keys = []string{"a", "b", "c", "len", "max", "zz", "Name", "Inner", "P", "Label", "N", "Age", "Score", "Any", "$v", "null", "true", "typeof", "this", "ctx", "\u00e9", "Len", "__v", "__proto__", "___x", "_", "a_b", "A", "x1", "_a"}

// c16MapKeys: keys of generated nested maps.
var c16MapKeys = []string{"a", "b", "c", "len", "max", "zz", "Name", "Inner", "__v", "_", "a_b", "x1"}

func genLeafV(t *rapid.T) spec.V {
	switch rapid.IntRange(0, 14).Draw(t, "leafk") {
	case 0:
		return spec.V{K: "nil"}
	case 1:
		return spec.V{K: "nilptr"}
	case 2:
		return spec.V{K: "nilS"}
	case 3:
		return spec.V{K: "int", S: rapid.SampledFrom([]string{"0", "1", "-5", "9007199254740993"}).Draw(t, "i")}
	case 4:
		return spec.V{K: "int64", S: rapid.SampledFrom([]string{"0", "9223372036854775807", "-1"}).Draw(t, "i64")}
	case 5:
		return spec.V{K: "int32", S: rapid.SampledFrom([]string{"0", "32", "-2147483648"}).Draw(t, "i32")}
	case 6:
		return spec.V{K: "float64", S: rapid.SampledFrom([]string{"0", "0.1", "-2.5", "1e21"}).Draw(t, "f")}
	case 7:
		if rapid.IntRange(0, 2).Draw(t, "lookalike?") == 0 {
			txt, _ := genLookalike(t) // a text that looks like a timestamp, a number, a keyword ...: still a string
			return spec.V{K: "string", S: txt}
		}
		return spec.V{K: "string", S: rapid.SampledFrom([]string{"", "s", "中"}).Draw(t, "s")}
	case 8:
		return spec.V{K: "bool", S: rapid.SampledFrom([]string{"true", "false"}).Draw(t, "b")}
	case 9:
		return spec.V{K: "time", S: rapid.SampledFrom([]string{"2024-02-29T12:34:56Z", "2024-02-29T12:34:56Z", "0001-01-01T00:00:00Z", "1970-01-01T00:00:00Z"}).Draw(t, "instant"), Z: rapid.SampledFrom([]string{"", "Asia/Shanghai"}).Draw(t, "z")}
	case 10:
		return spec.V{K: "slice", L: []spec.V{{K: "int", S: "1"}}}
	case 11:
		return spec.V{K: "mapint", M: map[string]spec.V{"a": {K: "int", S: "0"}, "b": {K: "int", S: "2"}, "len": {K: "int", S: "0"}}}
	case 12:
		return spec.V{K: "mapstr", M: map[string]spec.V{"a": {K: "string", S: ""}, "b": {K: "string", S: "x"}}}
	case 13:
		return spec.V{K: rapid.SampledFrom([]string{"nilslice", "nilstrs", "nilmap", "nilmapint"}).Draw(t, "nilcoll")}
	default:
		return spec.V{K: "strs", L: []spec.V{{K: "string", S: "e"}}}
	}
}

func genValueV(t *rapid.T, depth int) spec.V {
	if depth <= 0 {
		return genLeafV(t)
	}
	switch rapid.IntRange(0, 5).Draw(t, "vk") {
	case 0, 1, 2:
		m := map[string]spec.V{}
		n := rapid.IntRange(0, 4).Draw(t, "nkeys")
		for i := 0; i < n; i++ {
			m[rapid.SampledFrom(c16MapKeys).Draw(t, "key")] = genValueV(t, depth-1)
		}
		return spec.V{K: "map", M: m}
	case 3:
		sm := map[string]spec.V{"Name": {K: "string", S: rapid.SampledFrom([]string{"", "Ann"}).Draw(t, "nm")}, "Age": {K: "int", S: rapid.SampledFrom([]string{"0", "30"}).Draw(t, "age")},
			"Score": {K: "float64", S: rapid.SampledFrom([]string{"0", "1.25"}).Draw(t, "sc")}, "Label": {K: "string", S: "in"}, "N": {K: "int", S: rapid.SampledFrom([]string{"0", "5"}).Draw(t, "n")}}
		if rapid.Bool().Draw(t, "anyset") {
			sm["Any"] = genValueV(t, depth-1)
		}
		return spec.V{K: "struct", M: sm}
	case 4: // a struct type synthesised for this case: random field order and field types
		names := rapid.Permutation([]string{"Name", "Age", "Score", "Label", "N", "Any"}).Draw(t, "dynorder")
		n := rapid.IntRange(1, len(names)).Draw(t, "dynn")
		v := spec.V{K: "dyn"}
		for _, nm := range names[:n] {
			f := genLeafV(t)
			if nm == "Any" && rapid.Bool().Draw(t, "dynnest") {
				f = genValueV(t, depth-1)
			}
			f.N = nm
			v.L = append(v.L, f)
		}
		return v
	default:
		return genLeafV(t)
	}
}

func pathNontrivial(c pathCase) bool {
	if c.NoMap || c.This {
		return true
	}
	if _, b := builtinArity[c.Root]; b {
		return true
	}
	// walk the spec to see what the path meets
	rec := &spec.Recorder{}
	data := spec.BuildMap(c.Data, rec)
	cur := data[c.Root]
	for i, st := range c.Steps {
		if st.Assert {
			return true
		}
		if isNullGo(cur) && i < len(c.Steps) {
			return true
		}
		switch cur.(type) {
		case spec.S1, spec.S2, map[string]int, map[string]string:
			return true
		}
		var oc string
		cur, oc = refStep(cur, st.Key, false)
		if oc != "ok" {
			return false
		}
	}
	switch v := cur.(type) {
	case int:
		return v == 0 && len(c.Steps) > 0
	case string:
		return v == "" && len(c.Steps) > 0
	}
	return len(c.Steps) >= 2
}

// TestC16Random: random data specs x random dotted paths.
func TestC16Random(t *testing.T) {
	run := h.Begin("C16", "random", "rapid: data maps built from specs (nested map[string]interface{} up to depth 4, map[string]int / map[string]string with zero values, structs with nested struct / nil pointer / interface fields, nil and typed-nil entries at every level, int/int32/int64/float64/string/bool/time/slice leaves, keys colliding with builtin names, a runner that never got a map) x dotted paths of depth 0-4 over present and absent keys with '.' or '!.' at every position, optionally rooted at 'this'; oracle: an independent reference lookup over the Go values (type switches, no reflection on the implementation's path): null propagation, '!.' errors exactly on null, missing key/name -> null, typed nil == null, Go numbers -> exact numbers, strings/bools/times equal, maps/slices the very same object; cases that step through scalars, slices, pointers to structs or missing struct fields are not asserted; non-trivial: depth>=2, an absent key or typed nil before the last step, '!.', a struct or typed-map step, a zero-valued entry, a builtin-colliding key, 'this', no map; distinct by (data, path)")
	defer run.End(t)
	h.RapidSetup(h.N(10000, 3000000), "c16rand")
	rapid.Check(t, func(rt *rapid.T) {
		var c pathCase
		c.Data = map[string]spec.V{}
		n := rapid.IntRange(0, 5).Draw(rt, "ntop")
		for i := 0; i < n; i++ {
			c.Data[rapid.SampledFrom(c16Keys).Draw(rt, "topkey")] = genValueV(rt, rapid.IntRange(0, 3).Draw(rt, "vdepth"))
		}
		c.NoMap = rapid.IntRange(0, 19).Draw(rt, "nomap") == 0
		c.Used = rapid.IntRange(0, 2).Draw(rt, "used") == 0
		c.This = rapid.IntRange(0, 4).Draw(rt, "this") == 0
		c.Bang = rapid.Bool().Draw(rt, "bang")
		if rapid.IntRange(0, 9).Draw(rt, "emptydata") == 0 {
			c.Data = map[string]spec.V{} // an empty (non-nil) data map
		}
		// walk down, preferring present keys
		keys := spec.Keys(c.Data)
		if len(keys) > 0 && rapid.IntRange(0, 4).Draw(rt, "present") > 0 {
			c.Root = rapid.SampledFrom(keys).Draw(rt, "root")
		} else {
			c.Root = rapid.SampledFrom(c16Keys).Draw(rt, "rootabs")
		}
		cur, has := c.Data[c.Root]
		depth := rapid.IntRange(0, 4).Draw(rt, "pdepth")
		for i := 0; i < depth; i++ {
			var key string
			var cand []string
			if has {
				switch cur.K {
				case "map", "mapint", "mapstr":
					cand = spec.Keys(cur.M)
				case "struct":
					cand = []string{"Name", "Age", "Score", "Inner", "P", "Any"}
				case "dyn":
					for _, f := range cur.L {
						cand = append(cand, f.N)
					}
				}
			}
			if len(cand) > 0 && rapid.IntRange(0, 4).Draw(rt, "kpresent") > 0 {
				key = rapid.SampledFrom(cand).Draw(rt, "k")
			} else {
				key = rapid.SampledFrom(c16Keys).Draw(rt, "kabs")
			}
			c.Steps = append(c.Steps, pathStep{Key: key, Assert: rapid.IntRange(0, 3).Draw(rt, "assert") == 0})
			if has && (cur.K == "map" || cur.K == "mapint" || cur.K == "mapstr") {
				cur, has = cur.M[key]
			} else if has && cur.K == "struct" && key == "Any" {
				cur, has = cur.M["Any"]
			} else if has && cur.K == "dyn" {
				found := false
				for _, f := range cur.L {
					if f.N == key {
						cur, found = f, true
					}
				}
				has = found
			} else if has && cur.K == "struct" && key == "Inner" {
				cur, has = spec.V{K: "inner"}, true
			} else {
				has = false
			}
		}
		if !c.This {
			switch c.Root {
			case "null", "true", "typeof", "this", "ctx", "false":
				c.This = true // a keyword is only a name after a dot
			}
		}
		msg, cls := checkPath(c)
		if cls == "unspecified" {
			run.Class("unspecified-skipped")
			return
		}
		key, _ := json.Marshal(c)
		run.CountKey(string(key), pathNontrivial(c), cls)
		run.Sample(cls, c.text())
		if msg != "" {
			run.Pending("rand", "c16", c, msg)
			rt.Fatalf("%s", msg)
		}
	})
}

// TestC16Grid: a fixed rich data map x every path of depth <=3 over its key universe.
func TestC16Grid(t *testing.T) {
	data := map[string]spec.V{
		"n":   {K: "nil"},
		"np":  {K: "nilptr"},
		"ns":  {K: "nilS"},
		"i":   {K: "int", S: "0"},
		"s":   {K: "string", S: ""},
		"len": {K: "int", S: "5"},
		"max": {K: "string", S: "shadowed"},
		"__v": {K: "int", S: "7"},
		"nsl": {K: "nilstrs"}, "nmp": {K: "nilmap"}, "nt": {K: "niltime"},
		"cs": {K: "map", M: map[string]spec.V{"ID": {K: "int", S: "1"}, "Id": {K: "int", S: "2"}, "name": {K: "string", S: "x"}}},
		"_": {K: "string", S: "2024-01-02T03:04:05Z"},
		"m": {K: "map", M: map[string]spec.V{"nsl": {K: "nilslice"}, "nmp": {K: "nilmapint"}, "__v": {K: "string", S: "123"}, "_": {K: "time", S: "0001-01-01T00:00:00Z"}, "a": {K: "int", S: "0"}, "n": {K: "nil"}, "np": {K: "nilptr"}, "len": {K: "int", S: "9"},
			"b":  {K: "map", M: map[string]spec.V{"a": {K: "float64", S: "0.1"}, "ns": {K: "nilS"}, "m": {K: "map", M: map[string]spec.V{"a": {K: "string", S: "deep"}}}}},
			"mi": {K: "mapint", M: map[string]spec.V{"a": {K: "int", S: "0"}, "b": {K: "int", S: "2"}}},
			"st": {K: "struct", M: map[string]spec.V{"Name": {K: "string", S: ""}, "Age": {K: "int", S: "0"}, "N": {K: "int", S: "5"}, "Any": {K: "map", M: map[string]spec.V{"a": {K: "int", S: "1"}}}}}}},
		"mi": {K: "mapint", M: map[string]spec.V{"a": {K: "int", S: "0"}, "b": {K: "int", S: "2"}}},
		"ms": {K: "mapstr", M: map[string]spec.V{"a": {K: "string", S: ""}, "b": {K: "string", S: "x"}}},
		"st": {K: "struct", M: map[string]spec.V{"Name": {K: "string", S: "Ann"}, "Age": {K: "int", S: "30"}, "Score": {K: "float64", S: "0"}, "Label": {K: "string", S: ""}, "N": {K: "int", S: "0"}}},
		// two synthesised struct types with the same field names in different orders / of different types
		"a": {K: "dyn", L: []spec.V{{K: "string", S: "alice", N: "Name"}, {K: "int", S: "30", N: "Age"}, {K: "nil", N: "Any"}}},
		"b": {K: "dyn", L: []spec.V{{K: "int", S: "41", N: "Age"}, {K: "mapint", N: "Any", M: map[string]spec.V{"a": {K: "int", S: "0"}}}, {K: "string", S: "bob", N: "Name"}, {K: "float64", S: "0", N: "Score"}}},
		"c": {K: "dyn", L: []spec.V{{K: "float64", S: "2.5", N: "Score"}, {K: "string", S: "", N: "Name"}}},
	}
	keys := []string{"a", "b", "n", "np", "ns", "m", "mi", "ms", "st", "len", "max", "zz", "Name", "Age", "Score", "Inner", "P", "Any", "Label", "N", "i", "s", "__v", "_", "nsl", "nmp", "nt", "cs", "id", "NAME"}
	run := h.Begin("C16", "grid", fmt.Sprintf("bounded-exhaustive: one rich data map (nil, typed nil pointers at top level and inside maps, zero-valued int/string entries, typed maps with zero values, nested maps, structs with zero fields / nil pointer / interface holding a map, keys 'len' and 'max' colliding with builtins, keys '__v' and '_', strings that look like a timestamp or a number, Go's zero time, typed nil slices and maps) x every path root[.|!.]k1[.|!.]k2 over a %d-key universe (depth 0-2 with both access forms at every position), rooted at the bare name and at 'this', plus a runner without a map; oracle as in the random part; non-trivial as in the random part", len(keys)))
	defer run.End(t)
	var idx int64
	try := func(c pathCase) {
		idx++
		if !h.Mine(idx) || run.NViolations() >= 3 {
			return
		}
		c.Bang = (idx/3)%2 == 1
		c.Used = (idx/7)%2 == 1 // every other block of cases on a runner that served other data before
		msg, cls := checkPath(c)
		if cls == "unspecified" {
			run.Class("unspecified-skipped")
			return
		}
		run.Count(pathNontrivial(c), cls)
		if idx%1499 == 0 {
			run.Sample(cls, c.text())
		}
		if msg != "" {
			run.Fail("c16", c, msg)
		}
	}
	for _, this := range []bool{false, true} {
		for _, root := range keys {
			try(pathCase{Data: data, This: this, Root: root})
			try(pathCase{NoMap: true, This: this, Root: root})
			try(pathCase{Data: map[string]spec.V{}, This: this, Root: root})                                               // an empty, non-nil data map
			try(pathCase{Data: map[string]spec.V{}, This: this, Root: root, Steps: []pathStep{{Key: "a", Assert: false}}}) // ... and a step further
			for _, k1 := range keys {
				for _, a1 := range []bool{false, true} {
					try(pathCase{Data: data, This: this, Root: root, Steps: []pathStep{{k1, a1}}})
					if this && root != "m" && root != "st" {
						continue
					}
					for _, k2 := range keys {
						for _, a2 := range []bool{false, true} {
							try(pathCase{Data: data, This: this, Root: root, Steps: []pathStep{{k1, a1}, {k2, a2}}})
						}
					}
				}
			}
		}
	}
	run.Exhaustive()
	_ = strings.Join
}

// TestC16Embedded: structs that embed structs. Field k of such a struct is what
// Go's selector x.k denotes: the struct's own field before a promoted one, the
// shallower promoted field before a deeper one.
func TestC16Embedded(t *testing.T) {
	data := map[string]spec.V{
		"e3": {K: "emb3", S: "own", Z: "promoted"},
		"e4": {K: "emb4", S: "shallow", Z: "deep"},
		"m":  {K: "map", M: map[string]spec.V{"e3": {K: "emb3", S: "", Z: "promoted"}, "e4": {K: "emb4", S: "", Z: "deep"}}},
		"N":  {K: "int", S: "1"},
	}
	keys := []string{"e3", "e4", "m", "Label", "N", "Extra", "Deep", "S2", "S5", "S6", "zz"}
	run := h.Begin("C16", "embedded", fmt.Sprintf("bounded-exhaustive: structs with embedded structs (an own field shadowing a promoted one of the same name, the same name one and two levels down, a field promoted from two levels down; also inside a map, with empty strings) x every path root[.|!.]k1[.|!.]k2[.|!.]k3 over a %d-key universe, rooted at the bare name and at 'this'; oracle: Go's own selectors on the same values; non-trivial: the path reads Label, N or Deep of an embedding struct", len(keys)))
	defer run.End(t)
	var idx int64
	try := func(c pathCase) {
		idx++
		if !h.Mine(idx) || run.NViolations() >= 3 {
			return
		}
		c.Used = (idx/7)%2 == 1
		msg, cls := checkPath(c)
		if cls == "unspecified" {
			run.Class("unspecified-skipped")
			return
		}
		nt := false
		if n := len(c.Steps); n > 0 {
			last := c.Steps[n-1].Key
			nt = (last == "Label" || last == "N" || last == "Deep") && (c.Root == "e3" || c.Root == "e4" || c.Root == "m")
		}
		run.Count(nt, cls)
		if idx%397 == 0 {
			run.Sample(cls, c.text())
		}
		if msg != "" {
			run.Fail("c16", c, msg)
		}
	}
	for _, this := range []bool{false, true} {
		for _, root := range []string{"e3", "e4", "m"} {
			for _, k1 := range keys {
				for _, a1 := range []bool{false, true} {
					try(pathCase{Data: data, This: this, Root: root, Steps: []pathStep{{k1, a1}}})
					for _, k2 := range keys {
						try(pathCase{Data: data, This: this, Root: root, Steps: []pathStep{{k1, a1}, {k2, !a1}}})
						if root != "m" || (k1 != "e3" && k1 != "e4") {
							continue
						}
						for _, k3 := range keys {
							try(pathCase{Data: data, This: this, Root: root, Steps: []pathStep{{k1, a1}, {k2, false}, {k3, a1}}})
						}
					}
				}
			}
		}
	}
	run.Exhaustive()
}

// c16Words: names that are words of other languages' operators and keywords - here they are names.
var c16Words = []string{"and", "or", "not", "in", "is", "if", "else", "then", "let", "var", "new", "void", "undefined", "NaN", "Infinity", "mod", "div", "xor", "function", "return", "nil", "none", "True", "FALSE", "Null", "self", "it", "as", "of", "like", "between"}

// TestC16WordNames: a key is a key whatever word it spells.
func TestC16WordNames(t *testing.T) {
	run := h.Begin("C16", "word-names", fmt.Sprintf("bounded-exhaustive: %d words that are operators or keywords elsewhere (and, or, not, in, is, if, mod, div, undefined, NaN, nil, self, ...) as top-level keys, as keys of a nested map, as missing keys and as missing names: the paths w, this.w, row.w, row!.w, w.k, absent.w, row.w!.k; oracle as in the grid; every case non-trivial", len(c16Words)))
	defer run.End(t)
	var idx int64
	for _, w := range c16Words {
		data := map[string]spec.V{
			w:     {K: "int", S: "7"},
			"row": {K: "map", M: map[string]spec.V{w: {K: "string", S: "in-row"}, "k": {K: "int", S: "1"}}},
			"rec": {K: "map", M: map[string]spec.V{"k": {K: "map", M: map[string]spec.V{w: {K: "nil"}}}}},
		}
		for _, c := range []pathCase{
			{Data: data, Root: w}, {Data: data, This: true, Root: w}, {Data: data, Root: "row", Steps: []pathStep{{w, false}}}, {Data: data, Root: "row", Steps: []pathStep{{w, true}}},
			{Data: data, This: true, Root: "row", Steps: []pathStep{{w, false}}}, {Data: data, Root: w, Steps: []pathStep{{"k", false}}}, {Data: data, Root: "absent", Steps: []pathStep{{w, false}}},
			{Data: data, Root: "rec", Steps: []pathStep{{"k", false}, {w, false}, {"k", true}}}, {Data: data, Root: "rec", Steps: []pathStep{{"k", true}, {w, true}}},
			{Data: map[string]spec.V{"row": data["row"]}, Root: w}, {Data: map[string]spec.V{"row": data["row"]}, Root: w, Steps: []pathStep{{w, false}}}, {NoMap: true, Root: w},
		} {
			idx++
			if !h.Mine(idx) || run.NViolations() >= 3 {
				continue
			}
			msg, cls := checkPath(c)
			if cls == "unspecified" {
				run.Class("unspecified-skipped")
				continue
			}
			run.Count(true, cls)
			if idx%41 == 0 {
				run.Sample(cls, c.text())
			}
			if msg != "" {
				run.Fail("c16", c, msg)
			}
		}
	}
	run.Exhaustive()
}
