package props

import (
	"context"
	"encoding/json"
	"fmt"
	"github.com/aundis/formula"
	"regexp"
	"strconv"
	"strings"
	"testing"
	"unicode"
	"unicode/utf8"

	"pgregory.net/rapid"

	"verif/internal/h"
	"verif/internal/obs"
	"verif/internal/ref"
)

// C17 — string builtins obey the laws of prefix, suffix, slice and pad.
//
// One case = (s, t, positions, pad char, list, pattern). All laws of the
// statement are evaluated for the case through the real evaluator (the strings
// enter as data-map entries; every third formula is evaluated once more with
// the strings written as literals, which must give the same outcome) and compared
// with naive byte-level reference implementations written with explicit loops.

type c17Case struct {
	S    string   `json:"s"`
	T    string   `json:"t"`
	N    int      `json:"n"`
	I    int      `json:"i"`
	J    int      `json:"j"`
	C    string   `json:"c"` // one-byte pad
	L    int      `json:"l"` // pad length
	List []string `json:"list"`
	Sep  string   `json:"sep"`
	Pat  string   `json:"pat"` // extra regular expression (valid RE2), may be empty
	R    string   `json:"r"`   // replacement
	Pre  string   `json:"pre"` // whitespace prefix for trim
	Suf  string   `json:"suf"`
}

func naiveHasPrefix(s, t string) bool {
	if len(t) > len(s) {
		return false
	}
	for i := 0; i < len(t); i++ {
		if s[i] != t[i] {
			return false
		}
	}
	return true
}

func naiveHasSuffix(s, t string) bool {
	if len(t) > len(s) {
		return false
	}
	for i := 0; i < len(t); i++ {
		if s[len(s)-len(t)+i] != t[i] {
			return false
		}
	}
	return true
}

func naiveIndex(s, t string) int {
	for i := 0; i+len(t) <= len(s); i++ {
		if naiveHasPrefix(s[i:], t) {
			return i
		}
	}
	return -1
}

func naiveReplaceAll(s, old, new string) string {
	// left-to-right, non-overlapping; old non-empty
	var b []byte
	for i := 0; i < len(s); {
		if naiveHasPrefix(s[i:], old) {
			b = append(b, new...)
			i += len(old)
		} else {
			b = append(b, s[i])
			i++
		}
	}
	return string(b)
}

func mapRunes(s string, f func(rune) rune) string {
	var b []byte
	for _, r := range s {
		b = utf8.AppendRune(b, f(r))
	}
	return string(b)
}

func c17Eval(c c17Case, expr string) ([]interface{}, string) {
	data := map[string]interface{}{
		"s": c.S, "t": c.T, "n": c.N, "i": c.I, "j": c.J, "c": c.C, "l": c.L,
		"sep": c.Sep, "pat": c.Pat, "r": c.R, "ws": c.Pre + c.S + c.Suf,
	}
	li := make([]interface{}, len(c.List))
	for k, v := range c.List {
		li[k] = v
	}
	data["list"] = li
	data["slist"] = append([]string{}, c.List...) // the same list as a caller-owned []string
	data["nl"] = []string(nil)                    // empty lists in every guise: nil typed slices, read by name and through members
	data["rec"] = map[string]interface{}{"nl": []string(nil), "el": []interface{}{}, "nil2": []interface{}(nil)}
	out := obs.EvalText(expr, data)
	if out.Panic != nil || out.Err != nil {
		return nil, fmt.Sprintf("%s -> %s", expr, out)
	}
	arr, ok := out.Val.([]interface{})
	if !ok {
		return nil, fmt.Sprintf("%s -> not an array: %s", expr, out)
	}
	// the same formula with the strings written as literals instead of read from the data: same outcome
	c17LitCount++
	if c17LitCount%3 == 0 && !strings.Contains(expr, "slist") {
		lit := c17Words.ReplaceAllStringFunc(expr, func(w string) string {
			if v, isStr := data[w].(string); isStr {
				return ref.QuoteString(v, '\'')
			}
			return w
		})
		if lit != expr {
			if out2 := obs.EvalText(lit, data); out2.String() != out.String() {
				return nil, fmt.Sprintf("%s = %s with the strings read from the data, but %s with the same strings written as literals: %s", expr, out, out2, strconv.QuoteToASCII(lit))
			}
		}
	}
	return arr, ""
}

var c17Words = regexp.MustCompile(`\b(s|t|c|sep|pat|r|ws)\b`)
var c17LitCount int

func wantBool(arr []interface{}, k int, want bool, what string) string {
	got, ok := arr[k].(bool)
	if !ok || got != want {
		return fmt.Sprintf("%s = %s, want %v", what, obs.Show(arr[k]), want)
	}
	return ""
}

func wantStr(arr []interface{}, k int, want string, what string) string {
	got, ok := arr[k].(string)
	if !ok || got != want {
		return fmt.Sprintf("%s = %s, want %q", what, obs.Show(arr[k]), want)
	}
	return ""
}

func wantInt(arr []interface{}, k int, want int, what string) string {
	got, ok := obs.Int(arr[k])
	if !ok || got != int64(want) {
		return fmt.Sprintf("%s = %s, want %d", what, obs.Show(arr[k]), want)
	}
	return ""
}

func first(msgs ...string) string {
	for _, m := range msgs {
		if m != "" {
			return m
		}
	}
	return ""
}

// checkC17 returns "" when every law holds for the case.
func checkC17(c c17Case) string {
	s, t := c.S, c.T
	// --- group A: prefix / suffix / substring / index / regexp equivalents
	arr, msg := c17Eval(c, `[startWith(s,t), endWith(s,t), contains(s,t), find(s,t), find(s,t) == -1, len(s), lower(s), upper(s), trim(ws), join(list,sep), includes(list,t), includes(list,s)]`)
	if msg != "" {
		return msg
	}
	idx := naiveIndex(s, t)
	joined := ""
	inT, inS := false, false
	for k, e := range c.List {
		if k > 0 {
			joined += c.Sep
		}
		joined += e
		inT = inT || e == t
		inS = inS || e == s
	}
	// the same through a caller-owned []string, membership asked before and after the concatenation
	arrS, msgS := c17Eval(c, `[includes(slist,t), includes(slist,s), join(slist,sep), includes(slist,t), join(slist,sep), slist]`)
	if msgS != "" {
		return msgS
	}
	if m := first(
		wantBool(arrS, 0, inT, "includes(slist,t)"), wantBool(arrS, 1, inS, "includes(slist,s)"),
		wantStr(arrS, 2, joined, "join(slist,sep) after includes"), wantBool(arrS, 3, inT, "includes(slist,t) again"), wantStr(arrS, 4, joined, "join(slist,sep) again"),
	); m != "" {
		return m
	}
	if sl, ok := arrS[5].([]string); !ok || strings.Join(sl, "\x00") != strings.Join(c.List, "\x00") {
		return fmt.Sprintf("the caller's []string list reads back as %v after includes/join, want %v", arrS[5], c.List)
	}
	if m := first(
		wantBool(arr, 0, naiveHasPrefix(s, t), "startWith(s,t)"),
		wantBool(arr, 1, naiveHasSuffix(s, t), "endWith(s,t)"),
		wantBool(arr, 2, idx >= 0, "contains(s,t)"),
		wantInt(arr, 3, idx, "find(s,t)"),
		wantBool(arr, 4, idx < 0, "find(s,t)==-1"),
		wantInt(arr, 5, len(s), "len(s)"),
		wantStr(arr, 8, s, fmt.Sprintf("trim(%q)", c.Pre+s+c.Suf)),
		wantStr(arr, 9, joined, "join(list,sep)"),
		wantBool(arr, 10, inT, "includes(list,t)"),
		wantBool(arr, 11, inS, "includes(list,s)"),
	); m != "" {
		return m
	}
	if utf8.ValidString(s) {
		lo := mapRunes(s, unicode.ToLower)
		up := mapRunes(s, unicode.ToUpper)
		if m := first(wantStr(arr, 6, lo, "lower(s)"), wantStr(arr, 7, up, "upper(s)")); m != "" {
			return m
		}
		// idempotence
		arr2, msg := c17Eval(c, `[lower(lower(s)) == lower(s), upper(upper(s)) == upper(s)]`)
		if msg != "" {
			return msg
		}
		if m := first(wantBool(arr2, 0, true, "lower idempotent"), wantBool(arr2, 1, true, "upper idempotent")); m != "" {
			return m
		}
	}
	if t != "" {
		arr, msg = c17Eval(c, `[replace(s,t,r)]`)
		if msg != "" {
			return msg
		}
		if m := wantStr(arr, 0, naiveReplaceAll(s, t, c.R), "replace(s,t,r)"); m != "" {
			return m
		}
	} else if utf8.ValidString(s) && utf8.ValidString(c.R) {
		// the empty string occurs between characters (and at both ends), never
		// inside one: the result is s with r at every one of those places - or
		// s itself, if an implementation counts no occurrences at all
		arr, msg = c17Eval(c, `[replace(s,t,r)]`)
		if msg != "" {
			return msg
		}
		all := c.R
		for _, ch := range s {
			all += string(ch) + c.R
		}
		if got, ok := arr[0].(string); !ok || (got != all && got != s) {
			return fmt.Sprintf("replace(s,'',r) = %s, want r between the characters of s (%q) or s unchanged", obs.Show(arr[0]), all)
		}
	}
	// regexp: quoted needle behaves like contains / startWith / endWith, alternation like either
	if utf8.ValidString(t) && utf8.ValidString(s) {
		q := regexp.QuoteMeta(t)
		cc := c
		for k, variant := range []struct {
			pat  string
			want bool
		}{
			{q, idx >= 0},
			{"^" + q, naiveHasPrefix(s, t)},
			{q + "$", naiveHasSuffix(s, t)},
			{"^(?:" + q + ")$", s == t},
			{"(" + q + "|zzz)", idx >= 0},
		} {
			cc.Pat = variant.pat
			arr, msg = c17Eval(cc, `[regexp(s,pat)]`)
			if msg != "" {
				return msg
			}
			if m := wantBool(arr, 0, variant.want, fmt.Sprintf("regexp(s,%q)#%d", variant.pat, k)); m != "" {
				return m
			}
		}
		if c.Pat != "" {
			re, err := regexp.Compile(c.Pat)
			if err == nil {
				arr, msg = c17Eval(c, `[regexp(s,pat)]`)
				if msg != "" {
					return msg
				}
				if m := wantBool(arr, 0, re.MatchString(s), fmt.Sprintf("regexp(s,%q)", c.Pat)); m != "" {
					return m
				}
			}
		}
	}
	// --- group A': the needle arrives through another builtin that hands it through unchanged
	// (mid / left / right over the whole of t, a pad to t's own length, a one-element join)
	arrW, msgW := c17Eval(c, `[find(s, mid(t,0,len(t))), contains(s, left(t,len(t))), startWith(s, right(t,len(t))), endWith(s, rpad(t,'x',len(t))), find(s, join([t], ',')), replace(s, lpad(t,'x',len(t)), r)]`)
	if msgW != "" {
		return msgW
	}
	if m := first(
		wantInt(arrW, 0, idx, "find(s, mid(t,0,len(t)))"),
		wantBool(arrW, 1, idx >= 0, "contains(s, left(t,len(t)))"),
		wantBool(arrW, 2, naiveHasPrefix(s, t), "startWith(s, right(t,len(t)))"),
		wantBool(arrW, 3, naiveHasSuffix(s, t), "endWith(s, rpad(t,'x',len(t)))"),
		wantInt(arrW, 4, idx, "find(s, join([t], ','))"),
	); m != "" {
		return m
	}
	if t != "" {
		if m := wantStr(arrW, 5, naiveReplaceAll(s, t, c.R), "replace(s, lpad(t,'x',len(t)), r)"); m != "" {
			return m
		}
	}
	// --- empty lists, whichever way they arrive: nothing to join, nothing included
	arrE, msgE := c17Eval(c, `[join(nl, sep), includes(nl, t), join(this.nl, sep), includes(rec.nl, t), join(rec.el, sep), includes(rec.nil2, s), join(rec.nil2, sep), includes(this.nl, '')]`)
	if msgE != "" {
		return msgE
	}
	if m := first(
		wantStr(arrE, 0, "", "join(nl, sep) for a nil []string"), wantBool(arrE, 1, false, "includes(nl, t) for a nil []string"),
		wantStr(arrE, 2, "", "join(this.nl, sep)"), wantBool(arrE, 3, false, "includes(rec.nl, t)"),
		wantStr(arrE, 4, "", "join(rec.el, sep) for an empty list"), wantBool(arrE, 5, false, "includes(rec.nil2, s) for a nil list"),
		wantStr(arrE, 6, "", "join(rec.nil2, sep)"), wantBool(arrE, 7, false, "includes(this.nl, '')"),
	); m != "" {
		return m
	}
	// --- group B: left / right with in-range n
	if c.N >= 0 && c.N <= len(s) {
		arr, msg = c17Eval(c, `[left(s,n), right(s,n), left(s,n) + right(s,len(s)-n) == s, startWith(s,left(s,n)), endWith(s,right(s,n)), left(s,n) + right(s,len(s)-n)]`)
		if msg != "" {
			return msg
		}
		if m := first(
			wantStr(arr, 0, s[:c.N], "left(s,n)"),
			wantStr(arr, 1, s[len(s)-c.N:], "right(s,n)"),
			wantBool(arr, 2, true, "left(s,n)+right(s,len(s)-n)==s"),
			wantBool(arr, 3, true, "startWith(s,left(s,n))"),
			wantBool(arr, 4, true, "endWith(s,right(s,n))"),
			wantStr(arr, 5, s, "left(s,n)+right(s,len(s)-n)"),
		); m != "" {
			return m
		}
	}
	// mid: slice i..j clamped to the string, when well-formed
	ii, jj := c.I, c.J
	if ii < 0 {
		ii = 0
	}
	if jj > len(s) {
		jj = len(s)
	}
	if ii <= jj && jj >= 0 {
		arr, msg = c17Eval(c, `[mid(s,i,j)]`)
		if msg != "" {
			return msg
		}
		if m := wantStr(arr, 0, s[ii:jj], fmt.Sprintf("mid(s,%d,%d)", c.I, c.J)); m != "" {
			return m
		}
	}
	// pads
	if c.L >= 0 && len(c.C) == 1 {
		arr, msg = c17Eval(c, `[lpad(s,c,l), rpad(s,c,l), len(lpad(s,c,l)), len(rpad(s,c,l))]`)
		if msg != "" {
			return msg
		}
		var wl, wr string
		if len(s) > c.L {
			wl, wr = s[:c.L], s[:c.L]
		} else {
			pad := ""
			for k := 0; k < c.L-len(s); k++ {
				pad += c.C
			}
			wl, wr = pad+s, s+pad
		}
		if m := first(
			wantStr(arr, 0, wl, "lpad(s,c,l)"), wantStr(arr, 1, wr, "rpad(s,c,l)"),
			wantInt(arr, 2, c.L, "len(lpad)"), wantInt(arr, 3, c.L, "len(rpad)"),
		); m != "" {
			return m
		}
	}
	// the subject and the needle as values of a defined string type (`type text string`): a builtin's string
	// parameter receives their text all the same
	c17NamedCount++
	if c17NamedCount%4 == 0 {
		f := `[startWith(s,t), endWith(s,t), contains(s,t), find(s,t), len(s), lower(s), upper(s), replace(s,t,r), trim(ws), left(s,0), right(s,0), rpad(s,c,0)]`
		plain := map[string]interface{}{"s": s, "t": t, "r": c.R, "c": c.C, "ws": c.Pre + s + c.Suf}
		named := map[string]interface{}{"s": c17Text(s), "t": c17Text(t), "r": c17Text(c.R), "c": c17Text(c.C), "ws": c17Text(c.Pre + s + c.Suf)}
		if p := obs.Parse([]byte(f)); p.OK() {
			r1, r2 := formula.NewRunner(), formula.NewRunner()
			r1.SetThis(plain)
			r2.SetThis(named)
			a, b := obs.Eval(r1, context.Background(), p.Src.Expression), obs.Eval(r2, context.Background(), p.Src.Expression)
			if a.String() != b.String() {
				return fmt.Sprintf("%s with s, t, r, c, ws of type string gives %s, with the same texts held as values of a defined string type %s", f, a, b)
			}
		}
	}
	return ""
}

// c17Text is a defined string type, as hosts use for codes and identifiers.
type c17Text string

var c17NamedCount int

func c17Nontrivial(c c17Case) bool {
	s, t := c.S, c.T
	multi := t != "" && strings.Count(s, t) > 1
	bothEnds := t != "" && len(t) < len(s) && naiveHasPrefix(s, t) && naiveHasSuffix(s, t)
	boundary := c.N == 0 || c.N == len(s) || c.I <= 0 || c.J >= len(s) || c.L <= len(s)
	multibyte := len(s) != utf8.RuneCountInString(s)
	return multi || bothEnds || boundary || multibyte
}

func init() {
	h.RegisterReplay("c17", func(raw json.RawMessage) string {
		c, err := h.Decode[c17Case](raw)
		if err != nil {
			return "bad replay: " + err.Error()
		}
		return checkC17(c)
	})
}

func abStrings(maxLen int) []string {
	out := []string{""}
	prev := []string{""}
	for l := 1; l <= maxLen; l++ {
		var cur []string
		for _, p := range prev {
			cur = append(cur, p+"a", p+"b")
		}
		out = append(out, cur...)
		prev = cur
	}
	return out
}

// TestC17Exhaustive: all (s,t) with |s|<=6, |t|<=3 over {a,b}; for each pair all
// positions -1..len+2 for n, all (i,j) in -1..len+1, pad lengths 0..len+2.
func TestC17Exhaustive(t *testing.T) {
	run := h.Begin("C17", "exhaustive", "all s in {a,b}^<=6 (quick <=5) x t in {a,b}^<=3 x every position n,i,j,l from -1 to len+2; oracle: naive loops; non-trivial: needle occurs twice or at both ends, or a position on/over a boundary")
	defer run.End(t)
	ss := abStrings(h.N(5, 7))
	ts := abStrings(3)
	var idx int64
	for _, s := range ss {
		for _, tt := range ts {
			idx++
			if !h.Mine(idx) {
				continue
			}
			for n := -1; n <= len(s)+2; n++ {
				// n drives left/right, pads; (i,j) sweep tied to n to keep the product bounded
				for j := -1; j <= len(s)+1; j++ {
					c := c17Case{S: s, T: tt, N: n, I: n, J: j, C: "x", L: n, List: []string{tt, "q", s}, Sep: tt, R: "XY", Pre: " \t", Suf: "\n "}
					if n < 0 {
						c.N, c.L = 0, 0
					}
					nt := c17Nontrivial(c)
					run.Count(nt, "")
					if msg := checkC17(c); msg != "" {
						run.Fail("c17", c, msg)
						if run.NViolations() >= 5 {
							return
						}
					}
					if n == 1 && j == 2 {
						run.Sample("exh", c)
					}
				}
			}
		}
	}
	run.Exhaustive()
}

var c17Alphabets = []string{"ab", "abX", "aé", "ab中", "a b", "aA", ".*a(", "éÉß", "a\x00b",
	"a\uff0cb\uff08", "\uff11\uff1a,1", "\u2019'a", "a\\b", "_a_"} // full-width punctuation and digits, typographic quotes, backslashes, underscores

func genC17(t *rapid.T) c17Case {
	alpha := []rune(rapid.SampledFrom(c17Alphabets).Draw(t, "alpha"))
	str := func(label string, max int) string {
		n := rapid.IntRange(0, max).Draw(t, label+"len")
		var b []rune
		for k := 0; k < n; k++ {
			b = append(b, alpha[rapid.IntRange(0, len(alpha)-1).Draw(t, label)])
		}
		return string(b)
	}
	s := str("s", 12)
	if rapid.IntRange(0, 5).Draw(t, "lookalike?") == 0 {
		s, _ = genLookalike(t) // a text that looks like a timestamp, a number, a keyword ...: a string like any other
	}
	if rapid.IntRange(0, 11).Draw(t, "long?") == 0 {
		// a long text: a short unit many times over, with one odd piece somewhere inside
		if unit := str("unit", 4); unit != "" {
			k := rapid.SampledFrom([]int{20, 64, 100, 255, 256, 300, 1000}).Draw(t, "repeats")
			at := rapid.IntRange(0, k).Draw(t, "oddat")
			s = strings.Repeat(unit, at) + str("odd", 3) + strings.Repeat(unit, k-at)
		}
	}
	var tt string
	switch rapid.IntRange(0, 4).Draw(t, "tkind") {
	case 0:
		tt = str("t", 4)
	case 1: // prefix
		tt = s[:byteCut(s, rapid.IntRange(0, len(s)).Draw(t, "cut"))]
	case 2: // suffix
		tt = s[byteCut(s, rapid.IntRange(0, len(s)).Draw(t, "cut")):]
	case 3: // middle
		a := byteCut(s, rapid.IntRange(0, len(s)).Draw(t, "a"))
		b := byteCut(s, rapid.IntRange(a, len(s)).Draw(t, "b"))
		tt = s[a:b]
	case 4:
		tt = s + str("t", 2)
	}
	c := c17Case{S: s, T: tt}
	c.N = rapid.IntRange(0, len(s)).Draw(t, "n")
	c.I = rapid.IntRange(-3, len(s)+3).Draw(t, "i")
	c.J = rapid.IntRange(-3, len(s)+3).Draw(t, "j")
	c.L = rapid.IntRange(0, len(s)+8).Draw(t, "l")
	c.C = string(rune(rapid.SampledFrom([]byte("x 0-_")).Draw(t, "c")))
	nl := rapid.IntRange(0, 4).Draw(t, "nlist")
	for k := 0; k < nl; k++ {
		c.List = append(c.List, rapid.SampledFrom([]string{s, tt, str("e", 3), ""}).Draw(t, "elem"))
	}
	c.Sep = rapid.SampledFrom([]string{"", ",", tt, ", "}).Draw(t, "sep")
	c.R = rapid.SampledFrom([]string{"", "X", tt + tt, s}).Draw(t, "r")
	c.Pat = rapid.SampledFrom([]string{"", "a+b", "^a*$", "[ab]{2}", "a.b", "(a|b)b", "^$", "b$", "\\d", "(?i)A", "/a/", "/b/i", "//", "/[ab]+/g", "/", "#a#"}).Draw(t, "pat")
	ws := []string{"", " ", "\t", "\n", " \r\n", "\v\f"}
	c.Pre = rapid.SampledFrom(ws).Draw(t, "pre")
	c.Suf = rapid.SampledFrom(ws).Draw(t, "suf")
	// trim law needs a core that does not itself start/end with whitespace
	if strings.TrimSpace(s) != s {
		c.Pre, c.Suf = "", ""
		// then trim(ws) == s cannot be demanded; make ws a non-space-delimited variant
		c.S = "a" + s + "a"
		c.N = rapid.IntRange(0, len(c.S)).Draw(t, "n2")
	}
	return c
}

func byteCut(s string, at int) int {
	// move a byte offset back to a rune boundary
	for at > 0 && at < len(s) && !utf8.RuneStart(s[at]) {
		at--
	}
	return at
}

// TestC17Random: random strings over small alphabets (repeats likely), multi-byte
// text, needles drawn as prefixes/suffixes/middles of the haystack.
func TestC17Random(t *testing.T) {
	run := h.Begin("C17", "random", "rapid: s over small alphabets incl. multi-byte, NUL and regexp metacharacters, or (1 in 6) a text that looks like a timestamp / number / keyword / document, or (1 in 12) a text of 20..1000 repeats of a short unit around one odd piece; t drawn as prefix/suffix/middle/unrelated; positions -3..len+3; oracle: naive loops, unicode.ToLower/ToUpper, Go regexp for RE2 agreement; non-trivial as in the exhaustive part or multi-byte s")
	defer run.End(t)
	h.RapidSetup(h.N(3000, 1000000), "c17")
	rapid.Check(t, func(rt *rapid.T) {
		c := genC17(rt)
		key, _ := json.Marshal(c)
		nt := c17Nontrivial(c)
		cls := "ascii"
		if len(c.S) != utf8.RuneCountInString(c.S) {
			cls = "multibyte"
		}
		run.CountKey(string(key), nt, cls)
		run.Sample(cls, c)
		if msg := checkC17(c); msg != "" {
			run.Pending("random", "c17", c, msg)
			rt.Fatalf("%s", msg)
		}
	})
}
