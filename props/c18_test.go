package props

import (
	"context"
	"encoding/json"
	"fmt"
	"math"
	"math/big"
	"strconv"
	"strings"
	"testing"

	"github.com/aundis/formula"
	"github.com/ericlagergren/decimal"
	"pgregory.net/rapid"

	"verif/internal/h"
	"verif/internal/obs"
	"verif/internal/ref"
)

// C18 — numeric builtins and bit operators compute what their names say.

type numCase struct {
	X    decOperand   `json:"x"`
	List []decOperand `json:"list,omitempty"` // for max/min
	A    int64        `json:"a"`              // bit operands
	B    int64        `json:"b"`
}

func evalArr(f string, data map[string]interface{}) ([]interface{}, string) {
	out := obs.EvalText(f, data)
	arr, ok := out.Val.([]interface{})
	if out.Panic != nil || out.Err != nil || !ok {
		return nil, fmt.Sprintf("%s -> %s", f, out)
	}
	return arr, ""
}

func ratEq(v interface{}, want *big.Rat) bool {
	r, ok := obs.Rat(v)
	return ok && r.Cmp(want) == 0
}

func intRat(i *big.Int) *big.Rat { return new(big.Rat).SetInt(i) }

func isNaN(v interface{}) bool {
	d, ok := v.(*decimal.Big)
	return ok && d.IsNaN(0)
}

// checkExactFns: abs ceil floor round roundBank toInt toFloat toString finite on x.
func checkExactFns(x decOperand) string {
	if m := checkExactFnsSpelled(x, x.lit(1)); m != "" {
		return m
	}
	// the same value in other representations: trailing zeros, shifted exponent, computed
	alt := x
	alt.Coef, alt.Exp = x.Coef+"00", x.Exp-2
	if m := checkExactFnsSpelled(x, alt.lit(1)); m != "" {
		return m
	}
	if m := checkExactFnsSpelled(x, alt.lit(0)); m != "" {
		return m
	}
	if m := checkExactFnsSpelled(x, "("+x.lit(0)+" * 1.00)"); m != "" {
		return m
	}
	return checkExactAcross(x)
}

// evalSteps evaluates the texts one after the other on one runner (over an empty
// caller map) and returns the last outcome as a list.
func evalSteps(texts ...string) ([]interface{}, string) {
	r := formula.NewRunner()
	r.SetThis(map[string]interface{}{})
	var out obs.EvalOut
	for _, tx := range texts {
		p := obs.Parse([]byte(tx))
		if !p.OK() {
			return nil, fmt.Sprintf("HARNESS: %q does not parse: %v", tx, p.Err)
		}
		out = obs.Eval(r, context.Background(), p.Src.Expression)
		if out.Panic != nil || out.Err != nil {
			return nil, fmt.Sprintf("%s (after %q on the same runner) -> %s", tx, texts, out)
		}
	}
	arr, ok := out.Val.([]interface{})
	if !ok {
		return nil, fmt.Sprintf("%q on one runner -> %s, want a list", texts, out)
	}
	return arr, ""
}

// checkExactAcross: the argument is a local bound by an earlier evaluation of the same runner
// (directly, and handed on by unary plus / max) and used by later ones.
func checkExactAcross(x decOperand) string {
	xr, xl := x.rat(), x.lit(1)
	steps := []string{"$x = " + xl, "$p = +$x", "$m = max($x, $x)", "[$x, $p, $m]", "[abs($x), ceil($p), floor($m), toInt($x) == toInt(" + xl + "), finite($p), $x, $p, $m]"}
	arr, msg := evalSteps(steps...)
	if msg != "" {
		return msg
	}
	want := []*big.Rat{new(big.Rat).Abs(xr), intRat(ref.CeilRat(xr)), intRat(ref.FloorRat(xr)), nil, xr, xr, xr, xr}
	names := []string{"abs($x)", "ceil($p)", "floor($m)", "toInt($x) == toInt(x)", "finite($p)", "$x", "$p", "$m"}
	if len(arr) != len(want) {
		return fmt.Sprintf("%q: wrong arity of result", steps)
	}
	for i, w := range want {
		if w == nil {
			if b, ok := arr[i].(bool); !ok || !b {
				return fmt.Sprintf("after %q on one runner: %s = %s, want true", steps[:4], names[i], obs.Show(arr[i]))
			}
			continue
		}
		if !ratEq(arr[i], w) {
			return fmt.Sprintf("after %q on one runner: %s = %s, want %s", steps[:4], names[i], obs.Show(arr[i]), ref.DecString(w))
		}
	}
	return ""
}

func checkExactFnsSpelled(x decOperand, xl string) string {
	xr := x.rat()
	sl := "'" + strings.Trim(x.lit(1), "()") + "'" // numeric string spelling (may carry a minus sign)
	if strings.Contains(xl, "*") {
		sl = "'" + strings.Trim(x.lit(0), "()") + "'"
	}
	f := fmt.Sprintf("[abs(%s), ceil(%s), floor(%s), round(%s), roundBank(%s), toInt(%s), toFloat(%s), toString(%s), finite(%s), toFloat(%s), toInt(%s), toFloat(toString(%s))]", xl, xl, xl, xl, xl, xl, xl, xl, xl, sl, sl, xl)
	arr, msg := evalArr(f, nil)
	if msg != "" {
		return msg
	}
	if len(arr) != 12 {
		return f + ": wrong arity of result"
	}
	bad := func(name string, got interface{}, want string) string {
		return fmt.Sprintf("%s(%s) = %s, want %s", name, xl, obs.Show(got), want)
	}
	if !ratEq(arr[0], new(big.Rat).Abs(xr)) {
		return bad("abs", arr[0], ref.DecString(new(big.Rat).Abs(xr)))
	}
	if !ratEq(arr[1], intRat(ref.CeilRat(xr))) {
		return bad("ceil", arr[1], ref.CeilRat(xr).String())
	}
	if !ratEq(arr[2], intRat(ref.FloorRat(xr))) {
		return bad("floor", arr[2], ref.FloorRat(xr).String())
	}
	// round: an integer within 1/2 of x
	if r, ok := obs.Rat(arr[3]); !ok || !r.IsInt() || new(big.Rat).Abs(new(big.Rat).Sub(r, xr)).Cmp(big.NewRat(1, 2)) > 0 {
		return bad("round", arr[3], "an integer within 1/2 of "+ref.DecString(xr))
	}
	// roundBank: nearest, ties to even
	fl := ref.FloorRat(xr)
	frac := new(big.Rat).Sub(xr, intRat(fl))
	wb := new(big.Int).Set(fl)
	switch frac.Cmp(big.NewRat(1, 2)) {
	case 1:
		wb.Add(wb, big.NewInt(1))
	case 0:
		if wb.Bit(0) == 1 {
			wb.Add(wb, big.NewInt(1))
		}
	}
	if !ratEq(arr[4], intRat(wb)) {
		return bad("roundBank", arr[4], wb.String())
	}
	tr := intRat(ref.TruncRat(xr))
	inRange := new(big.Rat).Abs(xr).Cmp(new(big.Rat).SetInt64(1<<53)) < 0
	if inRange && !ratEq(arr[5], tr) {
		return bad("toInt", arr[5], tr.RatString())
	}
	if !ratEq(arr[6], xr) {
		return bad("toFloat", arr[6], ref.DecString(xr))
	}
	s, ok := arr[7].(string)
	if !ok {
		return bad("toString", arr[7], "a string")
	}
	neg := strings.HasPrefix(s, "-")
	back, ok2 := ref.RatOf(strings.TrimPrefix(s, "-"))
	if ok2 && neg {
		back.Neg(back)
	}
	if !ok2 || back.Cmp(xr) != 0 {
		return bad("toString", arr[7], "a string that parses back to "+ref.DecString(xr))
	}
	if !ratEq(arr[8], xr) {
		return bad("finite", arr[8], ref.DecString(xr))
	}
	if !ratEq(arr[9], xr) {
		return fmt.Sprintf("toFloat(%s) = %s, want %s", sl, obs.Show(arr[9]), ref.DecString(xr))
	}
	if inRange && !ratEq(arr[10], tr) {
		return fmt.Sprintf("toInt(%s) = %s, want %s", sl, obs.Show(arr[10]), tr.RatString())
	}
	if !ratEq(arr[11], xr) {
		return fmt.Sprintf("toFloat(toString(%s)) = %s, want %s", xl, obs.Show(arr[11]), ref.DecString(xr))
	}
	// the same builtins applied to one number held in a local: each sees x, and x is still x afterwards
	f2 := fmt.Sprintf("$x = %s, [abs($x), ceil($x), floor($x), round($x), roundBank($x), toInt($x), max($x, $x), min($x), finite($x), sqrt(abs($x)), $x, floor($x), ceil($x), roundBank($x)]", xl)
	arr2, msg2 := evalArr(f2, nil)
	if msg2 != "" {
		return msg2
	}
	for _, pair := range [][2]int{{0, 0}, {1, 1}, {2, 2}, {3, 3}, {4, 4}, {11, 2}, {12, 1}, {13, 4}} {
		a, b := arr2[pair[0]], arr[pair[1]]
		ra, oka := obs.Rat(a)
		rb, okb := obs.Rat(b)
		if !oka || !okb || ra.Cmp(rb) != 0 {
			return fmt.Sprintf("with $x = %s, element %d of %s is %s, but on the literal the same builtin gives %s", xl, pair[0], f2, obs.Show(a), obs.Show(b))
		}
	}
	if !ratEq(arr2[10], xr) || !ratEq(arr2[6], xr) || !ratEq(arr2[7], xr) || !ratEq(arr2[8], xr) {
		return fmt.Sprintf("with $x = %s: after the numeric builtins were applied to $x, [max($x,$x), min($x), finite($x), $x] = [%s, %s, %s, %s], want %s each", xl, obs.Show(arr2[6]), obs.Show(arr2[7]), obs.Show(arr2[8]), obs.Show(arr2[10]), ref.DecString(xr))
	}
	return ""
}

// checkRealFns: sqrt exp ln log against 320-bit references.
func checkRealFns(x decOperand) string {
	xr := x.rat()
	xl := x.lit(0)
	xf := ref.RatToFloat(xr)
	const tol = 5e-15
	rel := func(name string, got interface{}, want *big.Float, tol float64) string {
		r, ok := obs.Rat(got)
		if !ok {
			return fmt.Sprintf("%s(%s) = %s, want %s", name, xl, obs.Show(got), want.Text('g', 20))
		}
		if e := ref.RelErr(ref.RatToFloat(r), want); e > tol {
			return fmt.Sprintf("%s(%s) = %s, the real function gives %s (relative error %.3g > %.1g)", name, xl, obs.Show(got), want.Text('g', 20), e, tol)
		}
		return ""
	}
	if xr.Sign() >= 0 {
		arr, msg := evalArr(fmt.Sprintf("[sqrt(%s), sqrt(%s * %s)]", xl, xl, xl), nil)
		if msg != "" {
			return msg
		}
		if xr.Sign() == 0 {
			if !ratEq(arr[0], new(big.Rat)) {
				return fmt.Sprintf("sqrt(0) = %s", obs.Show(arr[0]))
			}
		} else {
			if m := rel("sqrt", arr[0], ref.Sqrt(xf), tol); m != "" {
				return m
			}
			if len(x.Coef) <= 8 {
				if m := rel("sqrt(x*x) with x=", arr[1], xf, 1e-14); m != "" {
					return m
				}
			}
		}
	}
	if xr.Sign() > 0 {
		arr, msg := evalArr(fmt.Sprintf("[ln(%s), log(%s), exp(ln(%s))]", xl, xl, xl), nil)
		if msg != "" {
			return msg
		}
		lnx := ref.Ln(xf)
		if xr.Cmp(big.NewRat(1, 1)) == 0 {
			if !ratEq(arr[0], new(big.Rat)) || !ratEq(arr[1], new(big.Rat)) {
				return fmt.Sprintf("ln(1), log(1) = %s, %s, want 0", obs.Show(arr[0]), obs.Show(arr[1]))
			}
		} else {
			// near 1 the logarithm is tiny: a relative bound on the result is still what 15 significant digits means
			if m := rel("ln", arr[0], lnx, tol); m != "" {
				return m
			}
			if m := rel("log", arr[1], ref.Log10(xf), tol); m != "" {
				return m
			}
		}
		if m := rel("exp(ln(x)) with x=", arr[2], xf, 2e-13); m != "" {
			return m
		}
	}
	// exp on |x| <= 800
	if new(big.Rat).Abs(xr).Cmp(big.NewRat(800, 1)) <= 0 {
		arr, msg := evalArr(fmt.Sprintf("[exp(%s), ln(exp(%s))]", xl, xl), nil)
		if msg != "" {
			return msg
		}
		if m := rel("exp", arr[0], ref.Exp(xf), tol); m != "" {
			return m
		}
		// ln(exp x) ~ x: absolute error 1e-14 + relative 1e-14
		r, ok := obs.Rat(arr[1])
		if !ok {
			return fmt.Sprintf("ln(exp(%s)) = %s", xl, obs.Show(arr[1]))
		}
		d := new(big.Rat).Abs(new(big.Rat).Sub(r, xr))
		bound := new(big.Rat).Add(big.NewRat(1, 100000000000000), new(big.Rat).Mul(new(big.Rat).Abs(xr), big.NewRat(1, 100000000000000)))
		if d.Cmp(bound) > 0 {
			return fmt.Sprintf("ln(exp(%s)) = %s, want %s", xl, obs.Show(arr[1]), ref.DecString(xr))
		}
	}
	return ""
}

func checkPow10(k int) string {
	arr, msg := evalArr(fmt.Sprintf("[log(1e%d), sqrt(1e%d), log(1e%d) == %d]", k, 2*k, k, k), nil)
	if msg != "" {
		return msg
	}
	r, ok := obs.Rat(arr[0])
	if !ok || new(big.Rat).Abs(new(big.Rat).Sub(r, big.NewRat(int64(k), 1))).Cmp(big.NewRat(1, 10000000000000)) > 0 {
		return fmt.Sprintf("log(1e%d) = %s, want %d", k, obs.Show(arr[0]), k)
	}
	if !ratEq(arr[1], ref.Pow10Rat(k)) {
		return fmt.Sprintf("sqrt(1e%d) = %s, want 1e%d", 2*k, obs.Show(arr[1]), k)
	}
	return ""
}

// checkMaxMin: the result equals one argument and bounds all the others.
func checkMaxMin(list []decOperand) string {
	var parts []string
	for i, d := range list {
		parts = append(parts, d.lit(i))
	}
	args := strings.Join(parts, ", ")
	// the same arguments, each handed through a call of its own (max / min of a single argument return it)
	var wrapped []string
	for i, p := range parts {
		wrapped = append(wrapped, []string{"max(", "min("}[i%2]+p+")")
	}
	wargs := strings.Join(wrapped, ", ")
	arr, msg := evalArr("[max("+args+"), min("+args+"), max(["+args+"]...), min(["+args+"]...), max("+wargs+"), min("+wargs+")]", nil)
	if msg != "" {
		return msg
	}
	for i, name := range []string{"max", "min", "max(spread)", "min(spread)", "max(arguments through calls)", "min(arguments through calls)"} {
		r, ok := obs.Rat(arr[i])
		if !ok {
			return fmt.Sprintf("%s(%s) = %s", name, args, obs.Show(arr[i]))
		}
		isArg := false
		for _, d := range list {
			c := r.Cmp(d.rat())
			if c == 0 {
				isArg = true
			}
			if i%2 == 0 && c < 0 || i%2 == 1 && c > 0 {
				return fmt.Sprintf("%s(%s) = %s does not bound the argument %s", name, args, obs.Show(arr[i]), d.lit(0))
			}
		}
		if !isArg {
			return fmt.Sprintf("%s(%s) = %s is none of its arguments", name, args, obs.Show(arr[i]))
		}
	}
	return ""
}

// checkBits: & | ^ ~ against Go int64.
func checkBits(a, b int64) string {
	lit := func(v int64) string {
		if v < 0 {
			return "(-" + strconv.FormatInt(-v, 10) + ")"
		}
		return strconv.FormatInt(v, 10)
	}
	// the operands are integer VALUES: every spelling of the same integer must behave alike
	spell := func(v int64, style int) string {
		l := lit(v)
		switch style {
		case 1:
			return "(" + l + " * 1.0)"
		case 2:
			if v < 0 {
				return "(-" + strconv.FormatInt(-v, 10) + ".0)"
			}
			return l + ".0"
		case 3:
			if v != 0 && v%100 == 0 {
				return "(" + lit(v/100) + " * 1e2)"
			}
			return "(" + l + " + 0.00)"
		case 4:
			return "(" + l + " * 100 / 100)"
		}
		return l
	}
	want := []int64{a & b, a | b, a ^ b, ^a, ^b, a}
	names := []string{"&", "|", "^", "~a", "~b", "~~a"}
	// the same integers as Go data values of the kinds a caller would use: int64, int, and float64 where the
	// integer is exactly representable (|v| <= 2^53)
	data := map[string]interface{}{"ia": a, "ib": b, "na": int(a), "nb": int(b)}
	exact := func(v int64) bool { return v >= -(1<<53) && v <= 1<<53 }
	for style := 0; style < 8; style++ {
		al, bl := spell(a, style%5), spell(b, (style+2)%5)
		switch style {
		case 5:
			al, bl = "ia", "ib"
		case 6:
			al, bl = "na", spell(b, 0)
			if exact(b) {
				data["fb"], bl = float64(b), "fb"
			}
		case 7:
			if !exact(a) {
				continue
			}
			data["fa"], al, bl = float64(a), "fa", "ib"
		}
		f := fmt.Sprintf("[%s & %s, %s | %s, %s ^ %s, ~%s, ~%s, ~~%s]", al, bl, al, bl, al, bl, al, bl, al)
		arr, msg := evalArr(f, data)
		if msg != "" {
			return msg
		}
		for i, w := range want {
			if !ratEq(arr[i], new(big.Rat).SetInt64(w)) {
				return fmt.Sprintf("a=%s b=%s: %s = %s, two's complement says %d", al, bl, names[i], obs.Show(arr[i]), w)
			}
		}
	}
	// the operands as locals bound by earlier evaluations of the same runner
	if arr, msg := evalSteps("$a = "+lit(a), "$b = "+lit(b), "$a & $b", "[$a & $b, $a | $b, $a ^ $b, ~$a, ~$b, ~~$a, $a, $b]"); msg != "" {
		return msg
	} else {
		for i, w := range append(append([]int64{}, want...), a, b) {
			if i < len(arr) && !ratEq(arr[i], new(big.Rat).SetInt64(w)) {
				return fmt.Sprintf("$a=%d and $b=%d bound by earlier evaluations on the same runner: element %d of [$a & $b, $a | $b, $a ^ $b, ~$a, ~$b, ~~$a, $a, $b] = %s, two's complement says %d", a, b, i, obs.Show(arr[i]), w)
			}
		}
	}
	// stacked prefix operators: each one acts on the value of its own operand,
	// `~-5` is the complement of minus five
	if a > math.MinInt64 && a < math.MaxInt64 {
		mag := a
		if mag < 0 {
			mag = -mag
		}
		m := strconv.FormatInt(mag, 10)
		f := fmt.Sprintf("[~-%s, -~%s, ~-ia, -~ia, ~+ia, - -ia, ~-~ia, -~-%s, ~ -%s & ib, ~-na]", m, m, m, m)
		arr, msg := evalArr(f, data)
		if msg != "" {
			return msg
		}
		wantP := []int64{^(-mag), -(^mag), ^(-a), -(^a), ^a, a, ^(-(^a)), -(^(-mag)), ^(-mag) & b, ^(-a)}
		namesP := []string{"~-" + m, "-~" + m, "~-ia", "-~ia", "~+ia", "- -ia", "~-~ia", "-~-" + m, "~ -" + m + " & ib", "~-na"}
		for i, w := range wantP {
			if !ratEq(arr[i], new(big.Rat).SetInt64(w)) {
				return fmt.Sprintf("ia=na=%d ib=%d: %s = %s, two's complement says %d", a, b, namesP[i], obs.Show(arr[i]), w)
			}
		}
	}
	return ""
}

func checkNumCase(c numCase, part string) string {
	switch part {
	case "exact":
		return checkExactFns(c.X)
	case "real":
		return checkRealFns(c.X)
	case "maxmin":
		return checkMaxMin(c.List)
	case "bits":
		return checkBits(c.A, c.B)
	}
	return "unknown part " + part
}

func init() {
	for _, part := range []string{"exact", "real", "maxmin", "bits"} {
		part := part
		h.RegisterReplay("c18-"+part, func(raw json.RawMessage) string {
			c, err := h.Decode[numCase](raw)
			if err != nil {
				return "bad replay: " + err.Error()
			}
			return checkNumCase(c, part)
		})
	}
	h.RegisterReplay("c18-misc", func(raw json.RawMessage) string {
		c, err := h.Decode[string](raw)
		if err != nil {
			return "bad replay: " + err.Error()
		}
		return checkMisc(c)
	})
}

// gen15 generates a decimal with 1-15 significant digits and adjusted exponent in [-15,15].
func gen15(t *rapid.T, label string) decOperand {
	var d decOperand
	switch rapid.IntRange(0, 6).Draw(t, label+"cls") {
	case 0: // small integer
		d = decOperand{Coef: strconv.Itoa(rapid.IntRange(0, 1000).Draw(t, label+"i"))}
	case 1: // exact tie k + 0.5
		d = decOperand{Coef: strconv.Itoa(rapid.IntRange(0, 100000).Draw(t, label+"k")) + "5", Exp: -1}
	case 2: // near integer k +- 1e-14 (15 digits total)
		k := rapid.IntRange(1, 9).Draw(t, label+"k")
		if rapid.Bool().Draw(t, label+"below") {
			d = decOperand{Coef: strconv.Itoa(k-1) + "99999999999999", Exp: -14}
			d.Coef = strings.TrimLeft(d.Coef, "0")
		} else {
			d = decOperand{Coef: strconv.Itoa(k) + "00000000000001", Exp: -14}
		}
	case 3: // zero / negative zero
		d = decOperand{Coef: "0"}
	default:
		n := rapid.IntRange(1, 15).Draw(t, label+"n")
		b := make([]byte, n)
		for i := range b {
			b[i] = byte('0' + rapid.IntRange(0, 9).Draw(t, label+"d"))
		}
		if b[0] == '0' {
			b[0] = '3'
		}
		adj := rapid.IntRange(-15, 15).Draw(t, label+"adj") // adjusted exponent = exp + n - 1
		d = decOperand{Coef: string(b), Exp: adj - (n - 1)}
	}
	d.Neg = rapid.Bool().Draw(t, label+"neg")
	return d
}

func numNontrivial(d decOperand) bool {
	r := d.rat()
	if d.Neg && r.Sign() != 0 {
		return true
	}
	fl := ref.FloorRat(r)
	frac := new(big.Rat).Sub(r, intRat(fl))
	if frac.Cmp(big.NewRat(1, 2)) == 0 {
		return true
	}
	eps := big.NewRat(1, 1000000000000)
	return frac.Sign() != 0 && (frac.Cmp(eps) < 0 || new(big.Rat).Sub(big.NewRat(1, 1), frac).Cmp(eps) < 0)
}

// TestC18Exact: abs ceil floor round roundBank toInt toFloat toString finite.
func TestC18Exact(t *testing.T) {
	run := h.Begin("C18", "exact", "rapid + grid: decimal arguments with 1-15 significant digits and adjusted exponent in [-15,15], both signs, with constructed classes (integers, exact ties k+0.5, near-integers k+-1e-14, zero, negative values), plus the exhaustive grid k/4 for k in [-40,40]; oracle (exact rational arithmetic): abs, ceil, floor, toInt = trunc (numbers and numeric strings, |v|<2^53), round = an integer within 1/2, roundBank = nearest with ties to even, toFloat(number or numeric string) = the number, toString parses back, finite(x) = x; non-trivial: ties, negative arguments, near-integers; distinct by argument")
	defer run.End(t)
	if h.Mine(0) {
		for k := -40; k <= 40; k++ {
			d := decOperand{Coef: strconv.Itoa(abs(k) * 25), Exp: -2, Neg: k < 0}
			run.CountKey(d.lit(0), numNontrivial(d), "grid")
			if msg := checkExactFns(d); msg != "" {
				run.Fail("c18-exact", numCase{X: d}, msg)
			}
		}
	}
	if run.NViolations() > 0 {
		return
	}
	h.RapidSetup(h.N(6000, 2000000), "c18exact")
	rapid.Check(t, func(rt *rapid.T) {
		d := gen15(rt, "x")
		run.CountKey(d.lit(0), numNontrivial(d), "random")
		run.Sample("exact", d.lit(1))
		if msg := checkExactFns(d); msg != "" {
			run.Pending("exact", "c18-exact", numCase{X: d}, msg)
			rt.Fatalf("%s", msg)
		}
	})
}

func abs(k int) int {
	if k < 0 {
		return -k
	}
	return k
}

// TestC18Real: sqrt exp ln log and their inverse laws.
func TestC18Real(t *testing.T) {
	run := h.Begin("C18", "real", "rapid: arguments as in 'exact' (sqrt on x>=0, ln/log on x>0, exp on |x|<=800) plus all powers of ten 1e-15..1e15; oracle: 320-bit big.Float references (stdlib Sqrt; exp by argument halving + Taylor; ln by Newton/Halley on that exp; log = ln/ln 10), relative error <= 5e-15 (15 significant digits); inverse laws sqrt(x*x)=|x|, exp(ln x)=x, ln(exp x)=x, log(10^k)=k, sqrt(10^2k)=10^k with stated tolerances; non-trivial: arguments that are not powers of ten; distinct by argument")
	defer run.End(t)
	if h.Mine(0) {
		for k := -15; k <= 15; k++ {
			run.CountKey(fmt.Sprint("pow", k), false, "pow10")
			if msg := checkPow10(k); msg != "" {
				run.Fail("c18-misc", fmt.Sprint("pow10:", k), msg)
			}
		}
	}
	if run.NViolations() > 0 {
		return
	}
	h.RapidSetup(h.N(3000, 600000), "c18real")
	rapid.Check(t, func(rt *rapid.T) {
		d := gen15(rt, "x")
		if rapid.Bool().Draw(rt, "small") {
			// arguments in the everyday range exercise exp more often
			d = decOperand{Coef: strconv.Itoa(rapid.IntRange(1, 799999).Draw(rt, "c")), Exp: -rapid.IntRange(0, 6).Draw(rt, "e"), Neg: rapid.Bool().Draw(rt, "neg")}
		}
		c, _, _ := ref.NormNum(d.Coef)
		run.CountKey(d.lit(0), c != "1" && c != "0", "")
		run.Sample("real", d.lit(0))
		if msg := checkRealFns(d); msg != "" {
			run.Pending("real", "c18-real", numCase{X: d}, msg)
			rt.Fatalf("%s", msg)
		}
	})
}

// TestC18MaxMin: argument lists of length 1-6.
func TestC18MaxMin(t *testing.T) {
	run := h.Begin("C18", "maxmin", "rapid: lists of 1-6 decimals with duplicates and equal values spelled differently, passed as arguments and through a spread array; oracle: the result equals one argument by value and bounds all the others; non-trivial: lists of >=3 with a duplicate or a negative value; distinct by list")
	defer run.End(t)
	h.RapidSetup(h.N(3000, 1000000), "c18maxmin")
	rapid.Check(t, func(rt *rapid.T) {
		n := rapid.IntRange(1, 6).Draw(rt, "n")
		var list []decOperand
		for i := 0; i < n; i++ {
			if i > 0 && rapid.IntRange(0, 3).Draw(rt, "dup") == 0 {
				d := list[rapid.IntRange(0, i-1).Draw(rt, "which")]
				d.Coef, d.Exp = d.Coef+"0", d.Exp-1 // same value, different spelling
				list = append(list, d)
			} else {
				list = append(list, gen15(rt, "e"))
			}
		}
		key, _ := json.Marshal(list)
		nt := n >= 3
		run.CountKey(string(key), nt, "")
		if msg := checkMaxMin(list); msg != "" {
			run.Pending("maxmin", "c18-maxmin", numCase{List: list}, msg)
			rt.Fatalf("%s", msg)
		}
		run.Sample("maxmin", string(key))
	})
}

// TestC18Bits: & | ^ ~ on integers below 2^53 in magnitude.
func TestC18Bits(t *testing.T) {
	run := h.Begin("C18", "bits", "grid + rapid: all pairs over {0, +-1, +-2, +-3, 5, 255, -256, 2^31, 2^32+-1, +-(2^53-1), ...} and random pairs |v|<2^53 (negatives, powers of two +-1); each operand in five spellings of the same integer value (plain, x*1.0, x.0, x+0.00 or (x/100)*1e2, x*100/100) and as Go data of kind int64, int and float64; oracle: Go int64 & | ^ and ~a == -a-1 (two's complement); non-trivial: a negative operand; distinct by pair")
	defer run.End(t)
	grid := []int64{0, 1, -1, 2, -2, 3, -3, 5, 6, 255, -256, 1 << 31, 1<<32 - 1, 1<<32 + 1, -(1 << 32), 1<<53 - 1, -(1<<53 - 1), 1 << 52, 0x5555555555555, 0xAAAAAAAAAAAAA}
	var idx int64
	for _, a := range grid {
		for _, b := range grid {
			idx++
			if !h.Mine(idx) || run.NViolations() >= 3 {
				continue
			}
			run.CountKey(fmt.Sprint(a, ",", b), a < 0 || b < 0, "grid")
			if msg := checkBits(a, b); msg != "" {
				run.Fail("c18-bits", numCase{A: a, B: b}, msg)
			}
		}
	}
	if run.NViolations() > 0 {
		return
	}
	h.RapidSetup(h.N(3000, 1000000), "c18bits")
	gen := func(rt *rapid.T, l string) int64 {
		switch rapid.IntRange(0, 2).Draw(rt, l+"k") {
		case 0:
			return rapid.Int64Range(-(1<<53)+1, 1<<53-1).Draw(rt, l)
		case 1:
			return (int64(1)<<rapid.IntRange(0, 52).Draw(rt, l+"p") + int64(rapid.IntRange(-1, 1).Draw(rt, l+"d"))) * int64(rapid.SampledFrom([]int{1, -1}).Draw(rt, l+"s"))
		default:
			return rapid.Int64Range(-1000, 1000).Draw(rt, l)
		}
	}
	rapid.Check(t, func(rt *rapid.T) {
		a, b := gen(rt, "a"), gen(rt, "b")
		if a >= 1<<53 || a <= -(1<<53) || b >= 1<<53 || b <= -(1<<53) {
			return
		}
		run.CountKey(fmt.Sprint(a, ",", b), a < 0 || b < 0, "random")
		run.Sample("bits", fmt.Sprint(a, " ", b))
		if msg := checkBits(a, b); msg != "" {
			run.Pending("bits", "c18-bits", numCase{A: a, B: b}, msg)
			rt.Fatalf("%s", msg)
		}
	})
}

// checkMisc: toFloat of non-numeric text is NaN; finite maps non-finite and non-numeric values to 0.
func checkMisc(s string) string {
	if strings.HasPrefix(s, "pow10:") {
		k, _ := strconv.Atoi(s[6:])
		return checkPow10(k)
	}
	if strings.HasPrefix(s, "nan:") {
		text := s[4:]
		arr, msg := evalArr("[toFloat(s)]", map[string]interface{}{"s": text})
		if msg != "" {
			return msg
		}
		if !isNaN(arr[0]) {
			return fmt.Sprintf("toFloat(%q) = %s, want NaN", text, obs.Show(arr[0]))
		}
		return ""
	}
	if strings.HasPrefix(s, "fin:") {
		arr, msg := evalArr("[finite("+s[4:]+")]", map[string]interface{}{"m": map[string]interface{}{"a": 1}, "t": "x", "fnan": math.NaN(), "finf": math.Inf(1), "fninf": math.Inf(-1)})
		if msg != "" {
			return msg
		}
		if !ratEq(arr[0], new(big.Rat)) {
			return fmt.Sprintf("finite(%s) = %s, want 0", s[4:], obs.Show(arr[0]))
		}
		return ""
	}
	return "unknown misc case"
}

// TestC18Misc: toFloat on non-numeric text; finite on non-finite and non-numeric values.
func TestC18Misc(t *testing.T) {
	run := h.Begin("C18", "misc", "enumerated: toFloat of clearly non-numeric text (empty, words, 'abc1', '--1', '1..2', '0x10', '1,5', 'one'; borderline spellings such as '1e' or '.' are deliberately not asserted) must be NaN; finite of NaN / +Inf / -Inf (supplied as Go float64 data values; what 1/0 or ln(0) yield is left open), strings, null, arrays, maps, booleans must be 0; every case non-trivial")
	defer run.End(t)
	if i, _ := h.Shard(); i != 0 {
		return
	}
	for _, s := range []string{"", "abc", "abc1", "--1", "1..2", "0x10", "1,5", "one", "1 2", "$1", "1_0x", "++1", "e5", "-", "é"} {
		run.Count(true, "toFloat-nan")
		run.Sample("toFloat-nan", s)
		if msg := checkMisc("nan:" + s); msg != "" {
			run.Fail("c18-misc", "nan:"+s, msg)
		}
	}
	for _, e := range []string{"fnan", "finf", "fninf", "'a'", "''", "'12'", "null", "[1]", "[]", "m", "true", "false", "undefinedName", "toFloat('x')"} {
		run.Count(true, "finite-zero")
		run.Sample("finite-zero", e)
		if msg := checkMisc("fin:" + e); msg != "" {
			run.Fail("c18-misc", "fin:"+e, msg)
		}
	}
	run.Exhaustive()
}
