package props

import (
	"context"
	"encoding/json"
	"fmt"
	"os"
	"os/exec"
	"strings"
	"testing"
	"time"

	"github.com/aundis/formula"
	"pgregory.net/rapid"

	"verif/internal/h"
	"verif/internal/obs"
	"verif/internal/ref"
)

// C19 — date builtins agree with the proleptic Gregorian calendar and preserve instants.

type dateCase struct {
	Y, M, D    int64  // date(y,m,d)
	SY, SM, SD int64  // addDate shifts
	Sec        int64  // a data time: unix seconds
	Nsec       int64  //   and nanoseconds
	Zone       string // zone of the data time
	To         string // zone for useTimezone
}

func nearTransition(t time.Time, margin time.Duration) bool {
	start, end := t.ZoneBounds()
	if !start.IsZero() && t.Sub(start) < margin {
		return true
	}
	if !end.IsZero() && end.Sub(t) < margin {
		return true
	}
	return false
}

func evalWith(text string, data map[string]interface{}) obs.EvalOut {
	// parse once, evaluate (texts without locals and clock: twice on the same tree, see obs.EvalText)
	return obs.EvalText(text, data)
}

// evalWithFresh evaluates once on a new runner with the given map (formulas that assign locals).
func evalWithFresh(text string, data map[string]interface{}) obs.EvalOut {
	p := obs.Parse([]byte(text))
	if !p.OK() {
		return obs.EvalOut{Err: fmt.Errorf("parse: %v", p.Err)}
	}
	r := formula.NewRunner()
	r.SetThis(data)
	return obs.Eval(r, context.Background(), p.Src.Expression)
}

// fieldsOf computes the civil fields of instant (sec since epoch) at UTC offset off.
func fieldsOf(sec int64, off int64) (y, mo, d, hh, mi, ss, wd int64) {
	local := sec + off
	days := ref.FloorDiv(local, 86400)
	sod := ref.FloorMod(local, 86400)
	y, mo, d = ref.CivilFromDays(days)
	return y, mo, d, sod / 3600, sod % 3600 / 60, sod % 60, ref.Weekday(days)
}

func wantFields(arr []interface{}, want [7]int64, what string) string {
	names := []string{"year", "month", "day", "hour", "minute", "second", "weekDay"}
	for i, w := range want {
		if g, ok := obs.Int(arr[i]); !ok || g != w {
			return fmt.Sprintf("%s(%s) = %s, the calendar says %d", names[i], what, obs.Show(arr[i]), w)
		}
	}
	return ""
}

const fieldsExpr = "[year(T), month(T), day(T), hour(T), minute(T), second(T), weekDay(T), millSecond(T), timeFormat(T, '2006-01-02 15:04:05')]"

func subst(expr, t string) string {
	out := ""
	for _, c := range expr {
		if c == 'T' {
			out += t
		} else {
			out += string(c)
		}
	}
	return out
}

// checkDate: date(y,m,d) and the field extractors on it.
func checkDate(c dateCase) (msg string, skippedMidnight bool) {
	call := fmt.Sprintf("date(%d, %d, %d)", c.Y, c.M, c.D)
	call = negFix(call)
	out := evalWith(call, nil)
	tt, ok := out.Val.(time.Time)
	if out.Panic != nil || out.Err != nil || !ok {
		return fmt.Sprintf("%s -> %s", call, out), false
	}
	days := ref.NormalizeCivil(c.Y, c.M, c.D)
	wy, wm, wd := ref.CivilFromDays(days)
	_, off := tt.Zone()
	if tt.Location() != time.Local {
		return fmt.Sprintf("%s is in zone %s, want the process-local zone", call, tt.Location()), false
	}
	// local midnight of that civil date - unless no such instant exists (zone transition within a day)
	skip := nearTransition(tt, 26*time.Hour)
	if !skip {
		if tt.Unix()+int64(off) != days*86400 || tt.Nanosecond() != 0 {
			return fmt.Sprintf("%s = %s, want local midnight of %04d-%02d-%02d (local seconds %d, want %d)", call, tt, wy, wm, wd, tt.Unix()+int64(off), days*86400), false
		}
	}
	arr, em := evalArr(subst(fieldsExpr, call), nil)
	if em != "" {
		return em, skip
	}
	want := [7]int64{wy, wm, wd, 0, 0, 0, ref.Weekday(days)}
	if skip {
		// fields must still be those of the instant actually returned
		y, mo, d, hh, mi, ss, w := fieldsOf(tt.Unix(), int64(off))
		want = [7]int64{y, mo, d, hh, mi, ss, w}
	}
	if m := wantFields(arr, want, call); m != "" {
		return m, skip
	}
	wantMs := tt.Unix() * 1000
	if os.Getenv("TZ") == "UTC" {
		wantMs = days * 86400000
	}
	if g, ok := obs.Int(arr[7]); !ok || g != wantMs {
		return fmt.Sprintf("millSecond(%s) = %s, want %d (Unix time in milliseconds)", call, obs.Show(arr[7]), wantMs), skip
	}
	wantFmt := fmt.Sprintf("%04d-%02d-%02d %02d:%02d:%02d", want[0], want[1], want[2], want[3], want[4], want[5])
	if s, ok := arr[8].(string); (!ok || s != wantFmt) && want[0] >= 0 && want[0] <= 9999 {
		return fmt.Sprintf("timeFormat(%s, '2006-01-02 15:04:05') = %s, want %q", call, obs.Show(arr[8]), wantFmt), skip
	}
	return "", skip
}

func negFix(s string) string {
	// formula text has no negative literals: "-5" is unary minus, which is fine inside an argument list
	return s
}

// checkInstant: field extractors, addDate and useTimezone on a data time in its own zone.
func checkInstant(c dateCase) string {
	loc, err := time.LoadLocation(c.Zone)
	if err != nil {
		return "HARNESS: bad zone " + c.Zone
	}
	t0 := time.Unix(c.Sec, c.Nsec).In(loc)
	data := map[string]interface{}{"t": t0}
	_, off := t0.Zone()
	arr, em := evalArr(subst(fieldsExpr, "t"), data)
	if em != "" {
		return em
	}
	y, mo, d, hh, mi, ss, w := fieldsOf(c.Sec, int64(off))
	what := fmt.Sprintf("t=%s", t0.Format(time.RFC3339Nano))
	if m := wantFields(arr, [7]int64{y, mo, d, hh, mi, ss, w}, what); m != "" {
		return m
	}
	// builtins fed by other builtins: a zero shift computed from the time's own fields, the date rebuilt from its fields
	if c.Sec > -50000000000 && c.Sec < 200000000000 {
		cf := "[millSecond(addDate(t, 0, month(t) - month(t), day(t) - day(t))), year(date(year(t), month(t), day(t))), month(date(year(t), month(t), day(t))), day(date(year(t), month(t), day(t))), timeFormat(addDate(t, year(t) - year(t), 0, 0), '2006-01-02 15:04:05')]"
		carr, em := evalArr(cf, data)
		if em != "" {
			return em
		}
		if g, ok := obs.Int(carr[0]); (!ok || g != c.Sec*1000+c.Nsec/1000000) && !nearTransition(t0, 26*time.Hour) { // in a repeated hour the civil time names two instants
			return fmt.Sprintf("millSecond(addDate(t, 0, month(t) - month(t), day(t) - day(t))) for %s = %s, want %d (a zero shift)", what, obs.Show(carr[0]), c.Sec*1000+c.Nsec/1000000)
		}
		for i, w := range []int64{y, mo, d} {
			if g, ok := obs.Int(carr[1+i]); !ok || g != w {
				return fmt.Sprintf("%s(date(year(t), month(t), day(t))) for %s = %s, want %d", []string{"year", "month", "day"}[i], what, obs.Show(carr[1+i]), w)
			}
		}
		if s, _ := carr[4].(string); s != fmt.Sprintf("%04d-%02d-%02d %02d:%02d:%02d", y, mo, d, hh, mi, ss) {
			return fmt.Sprintf("timeFormat(addDate(t, year(t) - year(t), 0, 0), ...) for %s = %q, want the time itself", what, s)
		}
	}
	// a time keeps its zone and instant when it is bound to a local and read back (same runner, later evaluation too)
	{
		r := formula.NewRunner()
		r.SetThis(map[string]interface{}{"t": t0})
		o1 := obs.Eval(r, context.Background(), obs.Parse([]byte("$k = t, "+subst(fieldsExpr, "$k"))).Src.Expression)
		o2 := obs.Eval(r, context.Background(), obs.Parse([]byte(subst(fieldsExpr, "$k"))).Src.Expression)
		direct := fmt.Sprint(obs.Show(arr))
		for i, o := range []obs.EvalOut{o1, o2} {
			if o.Panic != nil || o.Err != nil || obs.Show(o.Val) != direct {
				return fmt.Sprintf("the fields of %s read directly are %s, but through a local ($k = t, evaluation %d) %s", what, direct, i+1, o)
			}
		}
	}
	wantMs := c.Sec*1000 + c.Nsec/1000000
	if g, ok := obs.Int(arr[7]); !ok || g != wantMs {
		return fmt.Sprintf("millSecond(%s) = %s, want %d", what, obs.Show(arr[7]), wantMs)
	}
	wantFmt := fmt.Sprintf("%04d-%02d-%02d %02d:%02d:%02d", y, mo, d, hh, mi, ss)
	if s, ok := arr[8].(string); !ok || s != wantFmt {
		return fmt.Sprintf("timeFormat(%s, '2006-01-02 15:04:05') = %s, want %q", what, obs.Show(arr[8]), wantFmt)
	}
	// timeFormat renders the time in any Go layout (the layout language is Go's; the reference is the caller's own time value)
	for _, layout := range []string{time.RFC3339, time.RFC3339Nano, time.RFC1123Z, time.Kitchen, "Jan 2, 2006 at 3:04pm (MST)", "02/01/06 15h04", "2006-002", "Monday, 02-Jan-06", "15:04:05.000", "2006", "no layout tokens: xyz"} {
		out := evalWith("timeFormat(t, lay)", map[string]interface{}{"t": t0, "lay": layout})
		if got, ok := out.Val.(string); out.Panic != nil || out.Err != nil || !ok || got != t0.Format(layout) {
			return fmt.Sprintf("timeFormat(%s, %q) = %s, want %q", what, layout, out, t0.Format(layout))
		}
	}
	// useTimezone: the instant never changes; known fixed offsets show in hour/minute
	if c.To != "" {
		out := evalWith(fmt.Sprintf("useTimezone(t, '%s')", c.To), data)
		to, err := time.LoadLocation(c.To)
		if err != nil {
			if out.Err == nil {
				return fmt.Sprintf("useTimezone(t, %q) = %s, want an error for an unknown zone", c.To, obs.Show(out.Val))
			}
		} else {
			tz, ok := out.Val.(time.Time)
			if out.Panic != nil || out.Err != nil || !ok {
				return fmt.Sprintf("useTimezone(t, %q) -> %s", c.To, out)
			}
			if !tz.Equal(t0) || tz.UnixNano() != t0.UnixNano() && c.Sec > -9000000000 && c.Sec < 9000000000 {
				return fmt.Sprintf("useTimezone(%s, %q) = %s changed the instant", what, c.To, tz)
			}
			if tz.Location().String() != to.String() {
				return fmt.Sprintf("useTimezone(%s, %q) is in zone %s", what, c.To, tz.Location())
			}
			wantIn := t0.In(to)
			o2 := evalWith(fmt.Sprintf("[timeFormat(useTimezone(t, '%s'), 'MST -0700'), millSecond(addDate(useTimezone(t, '%s'), 0, 6, 0))]", c.To, c.To), data)
			if a2, ok := o2.Val.([]interface{}); o2.Err == nil && ok && len(a2) == 2 {
				if s, _ := a2[0].(string); s != wantIn.Format("MST -0700") {
					return fmt.Sprintf("timeFormat(useTimezone(%s, %q), 'MST -0700') = %q, want %q", what, c.To, s, wantIn.Format("MST -0700"))
				}
				if ms, ok := obs.Int(a2[1]); (!ok || ms != wantIn.AddDate(0, 6, 0).UnixMilli()) && !nearTransition(wantIn.AddDate(0, 6, 0), 26*time.Hour) && wantIn.Year() < 9000 {
					return fmt.Sprintf("millSecond(addDate(useTimezone(%s, %q), 0, 6, 0)) = %s, want %d (civil shift in the new zone)", what, c.To, obs.Show(a2[1]), wantIn.AddDate(0, 6, 0).UnixMilli())
				}
			}
			arr, em := evalArr(fmt.Sprintf("[millSecond(useTimezone(t, '%s')), hour(useTimezone(t, '%s')), minute(useTimezone(t, '%s')), day(useTimezone(t, '%s'))]", c.To, c.To, c.To, c.To), data)
			if em != "" {
				return em
			}
			// the converted time bound to a local is the same converted time
			lo := evalWithFresh(fmt.Sprintf("$z = useTimezone(t, '%s'), [millSecond($z), hour($z), minute($z), day($z)]", c.To), map[string]interface{}{"t": t0})
			if lo.Panic != nil || lo.Err != nil || obs.Show(lo.Val) != obs.Show(arr) {
				return fmt.Sprintf("[millSecond, hour, minute, day] of useTimezone(%s, %q) are %s directly, but %s through a local", what, c.To, obs.Show(arr), lo)
			}
			if g, ok := obs.Int(arr[0]); !ok || g != wantMs {
				return fmt.Sprintf("millSecond(useTimezone(%s, %q)) = %s, want %d (same instant)", what, c.To, obs.Show(arr[0]), wantMs)
			}
			fixed := map[string]int64{"UTC": 0, "Asia/Shanghai": 8 * 3600, "Asia/Kolkata": 5*3600 + 1800, "Pacific/Kiritimati": 14 * 3600}
			if fo, ok := fixed[c.To]; ok && c.Sec >= 946684800 && c.Sec < 4102444800 { // 2000..2100
				_, _, fd, fh, fm, _, _ := fieldsOf(c.Sec, fo)
				gh, _ := obs.Int(arr[1])
				gm, _ := obs.Int(arr[2])
				gd, _ := obs.Int(arr[3])
				if gh != fh || gm != fm || gd != fd {
					return fmt.Sprintf("useTimezone(%s, %q) shows day %d %02d:%02d, the fixed offset %+ds gives day %d %02d:%02d", what, c.To, gd, gh, gm, fo, fd, fh, fm)
				}
			}
		}
	}
	// addDate: civil fields shifted with the same carry rule, time of day kept
	out := evalWith(negFix(fmt.Sprintf("addDate(t, %d, %d, %d)", c.SY, c.SM, c.SD)), data)
	ta, ok := out.Val.(time.Time)
	if out.Panic != nil || out.Err != nil || !ok {
		return fmt.Sprintf("addDate(%s, %d, %d, %d) -> %s", what, c.SY, c.SM, c.SD, out)
	}
	if y+c.SY >= 1 && y+c.SY <= 9999 && !nearTransition(ta, 26*time.Hour) {
		days := ref.NormalizeCivil(y+c.SY, mo+c.SM, d+c.SD)
		_, offa := ta.Zone()
		wantLocal := days*86400 + hh*3600 + mi*60 + ss
		if ta.Unix()+int64(offa) != wantLocal || int64(ta.Nanosecond()) != c.Nsec {
			ay, am, ad := ref.CivilFromDays(days)
			return fmt.Sprintf("addDate(%s, %d, %d, %d) = %s, want %04d-%02d-%02d %02d:%02d:%02d in the same zone", what, c.SY, c.SM, c.SD, ta.Format(time.RFC3339Nano), ay, am, ad, hh, mi, ss)
		}
		if ta.Location().String() != loc.String() {
			return fmt.Sprintf("addDate(%s, ...) moved the time to zone %s", what, ta.Location())
		}
	}
	return ""
}

func checkNow() string {
	before := time.Now()
	outNow := evalWith("now()", nil)
	outDay := evalWith("toDay()", nil)
	after := time.Now()
	n, ok := outNow.Val.(time.Time)
	if outNow.Err != nil || !ok {
		return fmt.Sprintf("now() -> %s", outNow)
	}
	if n.Before(before) || n.After(after) {
		return fmt.Sprintf("now() = %s is outside the bracket [%s, %s]", n, before, after)
	}
	d, ok := outDay.Val.(time.Time)
	if outDay.Err != nil || !ok {
		return fmt.Sprintf("toDay() -> %s", outDay)
	}
	b, a := before.In(time.Local), after.In(time.Local)
	if b.Year() == a.Year() && b.YearDay() == a.YearDay() {
		want := time.Date(b.Year(), b.Month(), b.Day(), 0, 0, 0, 0, time.Local)
		if !d.Equal(want) || d.Location() != time.Local {
			return fmt.Sprintf("toDay() = %s, want local midnight %s", d, want)
		}
	}
	return ""
}

// checkNowHistory: the clock is read at every call - also when the same
// runner, the same parsed tree or the same data map is used again, with other
// evaluations and pauses in between. hist selects the shape of the history.
func checkNowHistory(hist int) string {
	texts := []string{"now()", "[now(), millSecond(now())]", "year(now()) > 2000 ? now() : null", "$n = now(), $n", "millSecond(toDay()) <= millSecond(now()) ? now() : 1"}
	text := texts[hist%len(texts)]
	p := obs.Parse([]byte(text))
	if !p.OK() {
		return fmt.Sprintf("HARNESS: %q does not parse: %v", text, p.Err)
	}
	data := map[string]interface{}{"x": 1}
	shared := formula.NewRunner()
	if hist%2 == 0 {
		shared.SetThis(data)
	}
	for k := 0; k < 4; k++ {
		r := shared
		switch (hist / 2) % 3 {
		case 1: // fresh runner, same tree and data map
			r = formula.NewRunner()
			r.SetThis(data)
		case 2: // same runner, data handed over again
			r.SetThis(data)
		}
		before := time.Now()
		out := obs.Eval(r, context.Background(), p.Src.Expression)
		after := time.Now()
		v := out.Val
		if arr, ok := v.([]interface{}); ok && len(arr) == 2 {
			v = arr[0]
			if ms, ok := obs.Int(arr[1]); !ok || ms < before.UnixMilli() || ms > after.UnixMilli() {
				return fmt.Sprintf("evaluation #%d of %q: millSecond(now()) = %s is outside the bracket [%d, %d] of the call", k+1, text, obs.Show(arr[1]), before.UnixMilli(), after.UnixMilli())
			}
		}
		n, ok := v.(time.Time)
		if out.Err != nil || out.Panic != nil || !ok {
			return fmt.Sprintf("evaluation #%d of %q -> %s", k+1, text, out)
		}
		if n.Before(before) || n.After(after) {
			return fmt.Sprintf("evaluation #%d of %q on %s: now() = %s is outside the bracket [%s, %s] of the call", k+1, text, []string{"the same runner", "a fresh runner", "the same runner after SetThis"}[(hist/2)%3], n.Format(time.RFC3339Nano), before.Format(time.RFC3339Nano), after.Format(time.RFC3339Nano))
		}
		// unrelated work and a pause that the clock must show
		obs.Eval(r, context.Background(), obs.Parse([]byte("1 + 1")).Src.Expression)
		time.Sleep(time.Duration(1+k) * time.Millisecond)
	}
	return ""
}

func init() {
	h.RegisterReplay("c19-now", func(raw json.RawMessage) string {
		c, err := h.Decode[dateCase](raw)
		if err != nil {
			return "bad replay: " + err.Error()
		}
		if c.Y == 0 {
			return checkNow()
		}
		return checkNowHistory(int(c.Y) - 1)
	})
	h.RegisterReplay("c19-date", func(raw json.RawMessage) string {
		c, err := h.Decode[dateCase](raw)
		if err != nil {
			return "bad replay: " + err.Error()
		}
		m, _ := checkDate(c)
		return m
	})
	h.RegisterReplay("c19-instant", func(raw json.RawMessage) string {
		c, err := h.Decode[dateCase](raw)
		if err != nil {
			return "bad replay: " + err.Error()
		}
		return checkInstant(c)
	})
}

var c19Zones = []string{"UTC", "Asia/Shanghai", "Asia/Kolkata", "America/New_York", "Europe/Berlin", "Australia/Lord_Howe", "Pacific/Kiritimati",
	// zones whose offset coincides with another zone of the list for part or all of the year
	"Europe/London", "Africa/Lagos", "Asia/Singapore", "America/Toronto", "Asia/Colombo", "Etc/GMT-14", "Atlantic/Reykjavik"}

func dateNontrivial(c dateCase) bool {
	return c.M < 1 || c.M > 12 || c.D < 1 || c.D > 28 || c.Y < 1678 || c.Y > 2262 || (c.M == 2 && c.D >= 28)
}

// TestC19Date: date(y,m,d) and extractors.
func TestC19Date(t *testing.T) {
	run := h.Begin("C19", "date", "rapid + grid: (y,m,d) with y in [1,9999], m in [-30,40], d in [-400,400] (grid: every year 1..9999 on Jan 1 / Feb 29 / Dec 31 under TZ=UTC for millSecond, all (m,d) carry corners for a few years); the check binary runs once per TZ in {UTC, America/New_York, Asia/Shanghai, Australia/Lord_Howe}; oracle: independent days-from-civil / civil-from-days arithmetic: normalised triple = year/month/day, hour/minute/second = 0 (midnight assertion skipped and counted when a zone transition lies within 26 h), weekDay = (days+4) mod 7, millSecond = Unix milliseconds (= days*86400000 under UTC), timeFormat = the fields; non-trivial: out-of-range month or day, leap-day effects, years outside 1678-2262; distinct by (y,m,d,TZ)")
	defer run.End(t)
	tz := os.Getenv("TZ")
	var idx int64
	try := func(c dateCase) {
		idx++
		if !h.Mine(idx) || run.NViolations() >= 3 {
			return
		}
		msg, skipped := checkDate(c)
		cls := "midnight-checked"
		if skipped {
			cls = "midnight-skipped-zone-transition"
		}
		run.CountKey(fmt.Sprint(tz, c.Y, c.M, c.D), dateNontrivial(c), cls)
		if idx%997 == 0 {
			run.Sample(cls, fmt.Sprintf("TZ=%s date(%d,%d,%d)", tz, c.Y, c.M, c.D))
		}
		if msg != "" {
			run.Fail("c19-date", c, "TZ="+tz+": "+msg)
		}
	}
	step := int64(h.N(7, 1))
	for y := int64(1); y <= 9999; y += step {
		try(dateCase{Y: y, M: 1, D: 1})
		try(dateCase{Y: y, M: 2, D: 29})
		try(dateCase{Y: y, M: 12, D: 31})
	}
	for _, y := range []int64{1, 4, 100, 400, 1600, 1677, 1678, 1900, 1970, 2000, 2023, 2024, 2262, 2263, 9999} {
		for m := int64(-30); m <= 40; m += int64(h.N(3, 1)) {
			for _, d := range []int64{-400, -366, -31, -1, 0, 1, 28, 29, 30, 31, 32, 60, 366, 400} {
				try(dateCase{Y: y, M: m, D: d})
			}
		}
	}
	if run.NViolations() > 0 {
		return
	}
	h.RapidSetup(h.N(4000, 300000), "c19date"+tz)
	rapid.Check(t, func(rt *rapid.T) {
		c := dateCase{Y: int64(rapid.IntRange(1, 9999).Draw(rt, "y")), M: int64(rapid.IntRange(-30, 40).Draw(rt, "m")), D: int64(rapid.IntRange(-400, 400).Draw(rt, "d"))}
		msg, skipped := checkDate(c)
		cls := "midnight-checked"
		if skipped {
			cls = "midnight-skipped-zone-transition"
		}
		run.CountKey(fmt.Sprint(tz, c.Y, c.M, c.D), dateNontrivial(c), cls)
		run.Sample("random", fmt.Sprintf("TZ=%s date(%d,%d,%d)", tz, c.Y, c.M, c.D))
		if msg != "" {
			run.Pending("date", "c19-date", c, "TZ="+tz+": "+msg)
			rt.Fatalf("%s", msg)
		}
	})
}

// TestC19Instant: extractors, addDate, useTimezone, timeFormat on data times.
func TestC19Instant(t *testing.T) {
	run := h.Begin("C19", "instant", "rapid: instants from year 1 to 9999 (uniform seconds, nanoseconds; denser near 1970, 2000-2040 and DST dates) in zones {UTC, Asia/Shanghai, Asia/Kolkata, America/New_York, Europe/Berlin, Australia/Lord_Howe, Pacific/Kiritimati}, shift triples in the date ranges, target zones incl. an unknown one; oracle: civil fields from (unix seconds + zone offset) by independent arithmetic, millSecond = Unix milliseconds, addDate = normalise(fields+shift) keeping time of day and zone (skipped near zone transitions), useTimezone keeps the instant (millSecond equal, time Equal), shows the known fixed offset for UTC / Shanghai / Kolkata / Kiritimati on 2000-2100 and fails for an unknown zone, timeFormat equals the fields; non-trivial: zone != UTC or year outside 1678-2262 or a shift with carry; distinct by case")
	defer run.End(t)
	h.RapidSetup(h.N(5000, 400000), "c19instant"+os.Getenv("TZ"))
	rapid.Check(t, func(rt *rapid.T) {
		var sec int64
		switch rapid.IntRange(0, 3).Draw(rt, "era") {
		case 0:
			sec = rapid.Int64Range(-62135596800, 253402300799).Draw(rt, "sec") // year 1 .. 9999
		case 1:
			sec = rapid.Int64Range(-86400*400, 86400*400).Draw(rt, "sec70")
		case 2:
			sec = rapid.Int64Range(946684800, 2208988800).Draw(rt, "sec2000")
		case 3: // around DST changes of 2024 (US: Mar 10 / Nov 3, EU: Mar 31 / Oct 27, Lord Howe: Apr 7 / Oct 6)
			base := rapid.SampledFrom([]int64{1710054000, 1730613600, 1711846800, 1729990800, 1712417400, 1728142200}).Draw(rt, "dst")
			sec = base + rapid.Int64Range(-7200, 7200).Draw(rt, "dd")
		}
		c := dateCase{Sec: sec, Nsec: int64(rapid.SampledFrom([]int{0, 1, 999999999, 500000000, 123456789}).Draw(rt, "ns")),
			Zone: rapid.SampledFrom(c19Zones).Draw(rt, "zone"),
			To:   rapid.SampledFrom(append(append([]string{}, c19Zones...), "No/Where", "")).Draw(rt, "to"),
			SY:   int64(rapid.IntRange(-50, 50).Draw(rt, "sy")), SM: int64(rapid.IntRange(-30, 40).Draw(rt, "sm")), SD: int64(rapid.IntRange(-400, 400).Draw(rt, "sd"))}
		y, _, _, _, _, _, _ := fieldsOf(c.Sec, 0)
		nt := c.Zone != "UTC" || y < 1678 || y > 2262 || c.SM != 0 || c.SD != 0
		key, _ := json.Marshal(c)
		run.CountKey(string(key), nt, c.Zone)
		run.Sample(c.Zone, string(key))
		if msg := checkInstant(c); msg != "" {
			run.Pending("instant", "c19-instant", c, msg)
			rt.Fatalf("%s", msg)
		}
	})
}

// TestC19Now: now() within the wall-clock bracket, toDay() at its local midnight.
func TestC19Now(t *testing.T) {
	run := h.Begin("C19", "now", "200 repetitions: now() lies in the [before, after] bracket of the call; toDay() is local midnight of the bracket's date (skipped if the date changes inside the bracket); plus 30 histories x 4 evaluations of one parsed tree (5 texts using now()) on the same runner / a fresh runner / the same runner after SetThis, with unrelated evaluations and 1-4 ms pauses in between: every evaluation's now() lies in its own bracket; counted as non-trivial but not distinct inputs")
	defer run.End(t)
	if i, _ := h.Shard(); i != 0 {
		return
	}
	for i := 0; i < 200; i++ {
		run.CountKey(fmt.Sprint("now", i), true, "")
		if msg := checkNow(); msg != "" {
			run.Fail("c19-now", dateCase{}, msg)
			return
		}
	}
	for hist := 0; hist < 30; hist++ {
		run.CountKey(fmt.Sprint("now-history", hist), true, "now-history")
		if msg := checkNowHistory(hist); msg != "" {
			run.Fail("c19-now", dateCase{Y: int64(hist + 1)}, msg)
			return
		}
	}
	run.Sample("now", "now(), toDay()")
	run.Sample("now-history", "4 x [now(), millSecond(now())] on one runner")
}

// localCase: the process's local zone is set by assigning time.Local after start-up.
type localCase struct {
	Zone string `json:"zone"`
}

// c19LocalChild runs in a child process: time.Local = zone, then the builtins that speak of "local".
func c19LocalChild(zone string) {
	loc, err := time.LoadLocation(zone)
	if err != nil {
		fmt.Println("CHILD-SKIP", err)
		return
	}
	time.Local = loc
	bad := false
	for _, c := range [][3]int{{2024, 7, 15}, {2024, 14, 31}, {1999, 1, 1}, {2030, 12, 0}} {
		text := fmt.Sprintf("date(%d, %d, %d)", c[0], c[1], c[2])
		out := obs.EvalText(text, nil)
		want := time.Date(c[0], time.Month(c[1]), c[2], 0, 0, 0, 0, loc)
		got, ok := out.Val.(time.Time)
		if out.Err != nil || !ok || !got.Equal(want) || got.Location() != time.Local {
			fmt.Printf("MISMATCH %s with time.Local = %s gives %v (%v), want %v in the local zone\n", text, zone, out.Val, out.Err, want)
			bad = true
		}
	}
	before := time.Now()
	out := obs.EvalText("toDay()", nil)
	after := time.Now()
	got, ok := out.Val.(time.Time)
	b, a := before.In(loc), after.In(loc)
	w1 := time.Date(b.Year(), b.Month(), b.Day(), 0, 0, 0, 0, loc)
	w2 := time.Date(a.Year(), a.Month(), a.Day(), 0, 0, 0, 0, loc)
	if out.Err != nil || !ok || !(got.Equal(w1) || got.Equal(w2)) || got.Location() != time.Local {
		fmt.Printf("MISMATCH toDay() with time.Local = %s gives %v (%v), want %v in the local zone\n", zone, out.Val, out.Err, w2)
		bad = true
	}
	if !bad {
		fmt.Println("CHILD-OK")
	}
}

func checkLocalReassigned(c localCase) string {
	cmd := exec.Command(os.Args[0], "-test.run", "^TestC19LocalReassigned$", "-test.count=1")
	cmd.Env = append(os.Environ(), "VERIF_CHILD=c19local:"+c.Zone, "VERIF_OUT=")
	outb, _ := cmd.CombinedOutput()
	s := string(outb)
	if i := strings.Index(s, "MISMATCH "); i >= 0 {
		line := s[i:]
		if j := strings.Index(line, "\n"); j >= 0 {
			line = line[:j]
		}
		return strings.TrimPrefix(line, "MISMATCH ")
	}
	return ""
}

func init() {
	h.RegisterReplay("c19-local", func(raw json.RawMessage) string {
		c, err := h.Decode[localCase](raw)
		if err != nil {
			return "bad replay: " + err.Error()
		}
		return checkLocalReassigned(c)
	})
}

// TestC19LocalReassigned: "local" is the zone time.Local names when the builtin runs - a program that
// sets time.Local in main (a common way to pin a service to UTC or to its users' zone) gets that zone.
func TestC19LocalReassigned(t *testing.T) {
	if v := os.Getenv("VERIF_CHILD"); strings.HasPrefix(v, "c19local:") {
		c19LocalChild(strings.TrimPrefix(v, "c19local:"))
		return
	}
	if os.Getenv("VERIF_CHILD") != "" {
		return
	}
	if i, _ := h.Shard(); i != 0 {
		return
	}
	run := h.Begin("C19", "local-reassigned", "enumerated: for 6 zones a child process assigns time.Local after start-up and evaluates date(y,m,d) for four triples and toDay(); oracle: time.Date(y,m,d,0,0,0,0,time.Local) / the local midnight of the bracket, and the result's Location is time.Local; every case non-trivial")
	defer run.End(t)
	for _, z := range []string{"Asia/Tokyo", "America/New_York", "UTC", "Asia/Kolkata", "Australia/Lord_Howe", "Pacific/Kiritimati"} {
		c := localCase{Zone: z}
		run.Count(true, "zone")
		run.Sample("zone", "time.Local = "+z+"; date(2024, 14, 31)")
		if msg := checkLocalReassigned(c); msg != "" {
			run.Fail("c19-local", c, msg)
		}
	}
	run.Exhaustive()
}
