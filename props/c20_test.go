package props

import (
	"context"
	"encoding/json"
	"fmt"
	"strings"
	"testing"

	"github.com/aundis/formula"
	"pgregory.net/rapid"

	"verif/internal/h"
	"verif/internal/obs"
	"verif/internal/ref"
)

// C20 — a runner behaves like a plain map of data plus a separate key-value store.

// runnerOp is one operation of a history.
type runnerOp struct {
	Op  string  `json:"op"`            // setthis | setvalue | resolve | set | get | write
	Map string  `json:"map,omitempty"` // setthis: "A", "B" or "" (nil)
	Key string  `json:"key,omitempty"`
	Val int64   `json:"val,omitempty"`
	F   string  `json:"f,omitempty"`   // resolve: formula text
	Str *string `json:"str,omitempty"` // setvalue / set: a string value instead of the integer Val
}

func (o runnerOp) value() (interface{}, mv) {
	if o.Str != nil {
		return *o.Str, mvStr(*o.Str)
	}
	return int(o.Val), mvInt(o.Val)
}

func (o runnerOp) valText() string {
	if o.Str != nil {
		return fmt.Sprintf("%q", *o.Str)
	}
	return fmt.Sprint(o.Val)
}

func (o runnerOp) String() string {
	switch o.Op {
	case "setthis":
		if o.Map == "" {
			return "SetThis(nil)"
		}
		return "SetThis(" + o.Map + ")"
	case "setvalue":
		return fmt.Sprintf("SetThisValue(%q,%s)", o.Key, o.valText())
	case "resolve":
		return "Resolve(" + o.F + ")"
	case "write":
		return fmt.Sprintf("callerMap[%q]=%s", o.Key, o.valText())
	case "set":
		return fmt.Sprintf("Set(%q,%s)", o.Key, o.valText())
	case "get":
		return fmt.Sprintf("Get(%q)", o.Key)
	}
	return "?"
}

type history struct {
	Ops []runnerOp `json:"ops"`
}

func (hh history) String() string {
	var p []string
	for _, o := range hh.Ops {
		p = append(p, o.String())
	}
	return strings.Join(p, "; ")
}

// checkHistory replays the history against a real runner and the model.
func checkHistory(hh history) (msg string, unspec bool) {
	// caller-owned maps; keys are shared between them and the auxiliary store on purpose
	real := map[string]map[string]interface{}{
		"A": {"x": 1, "k": 10},
		"B": {"x": 2, "$a": 100},
		"E": {}, // an empty (but not nil) caller map: still the caller's map
	}
	model := map[string]map[string]mv{
		"A": {"x": mvInt(1), "k": mvInt(10)},
		"B": {"x": mvInt(2), "$a": mvInt(100)},
		"E": {},
	}
	cur := "" // "", "A", "B", "own"
	aux := map[string]mv{}
	r := formula.NewRunner()
	ownN := 0
	for i, op := range hh.Ops {
		where := fmt.Sprintf("step %d %s of [%s]", i+1, op, hh)
		switch op.Op {
		case "setthis":
			if op.Map == "" {
				r.SetThis(nil)
				cur = ""
			} else {
				r.SetThis(real[op.Map])
				cur = op.Map
			}
		case "setvalue":
			gv, mvv := op.value()
			r.SetThisValue(op.Key, gv)
			if cur == "" {
				ownN++
				cur = fmt.Sprintf("own%d", ownN)
				model[cur] = map[string]mv{}
			}
			model[cur][op.Key] = mvv
		case "write": // the caller writes into the map it handed to SetThis: it is the caller's map, and the runner's data
			if _, own := real[cur]; own {
				gv, mvv := op.value()
				real[cur][op.Key] = gv
				model[cur][op.Key] = mvv
			}
		case "set":
			gv, mvv := op.value()
			r.Set(op.Key, gv)
			aux[op.Key] = mvv
		case "get":
			got := r.Get(op.Key)
			want, ok := aux[op.Key]
			if !ok {
				want = mvNull
			}
			if !mvMatches(got, want, nil, false) {
				return fmt.Sprintf("%s = %s, the model's auxiliary store has %s", where, obs.Show(got), want), false
			}
		case "resolve":
			prog := ref.Parse([]byte(op.F))
			p := obs.Parse([]byte(op.F))
			if prog == nil || !p.OK() {
				return "HARNESS: pool formula does not parse: " + op.F, false
			}
			m := model[cur]
			created := false
			if cur == "" {
				m = map[string]mv{}
				created = true
			}
			env := &miniEnv{store: m, data: m}
			want, wantErr := env.eval(prog)
			if env.unspec {
				return "", true
			}
			if created && len(m) > 0 {
				ownN++
				cur = fmt.Sprintf("own%d", ownN)
				model[cur] = m
			}
			out := obs.Eval(r, context.Background(), p.Src.Expression)
			if out.Panic != nil {
				return fmt.Sprintf("%s panicked: %v", where, out.Panic), false
			}
			if wantErr != (out.Err != nil) {
				return fmt.Sprintf("%s: error=%v, model error=%v", where, out.Err, wantErr), false
			}
			if !wantErr && !mvMatches(out.Val, want, nil, true) {
				return fmt.Sprintf("%s = %s, the model gives %s", where, obs.Show(out.Val), want), false
			}
		}
		// after every step the caller's maps equal the model's
		for _, name := range []string{"A", "B", "E"} {
			if len(real[name]) != len(model[name]) {
				return fmt.Sprintf("%s: caller map %s has keys %v, the model %v", where, name, keysOf(real[name]), model[name]), false
			}
			for k, w := range model[name] {
				g, ok := real[name][k]
				if !ok || !mvMatches(g, w, nil, false) {
					return fmt.Sprintf("%s: caller map %s[%q] = %s (present=%v), the model has %s", where, name, k, obs.Show(g), ok, w), false
				}
			}
		}
	}
	return "", false
}

func keysOf(m map[string]interface{}) []string {
	var ks []string
	for k := range m {
		ks = append(ks, k)
	}
	sortStrings(ks)
	return ks
}

func init() {
	h.RegisterReplay("c20", func(raw json.RawMessage) string {
		c, err := h.Decode[history](raw)
		if err != nil {
			return "bad replay: " + err.Error()
		}
		m, _ := checkHistory(c)
		return m
	})
}

var c20Pool = []string{"$a + 1", "[$a + 1, $a]", "[$a + $a, $a, $b]", "$a", "$a = 5", "$a = x + 1", "$a = 7, $a", "x", "this.x", "k", "[x, $a, k]", "$b = $a", "[$a, $b]", "this.$a", "$a = $a", "$b = '2024-01-02T03:04:05Z', $b", "[k, x, __v]", "$__v = x, [$__v, __v]",
	// locals keep every digit: integers beyond 2^53 and their successors
	"$a = [x, 1]", "$a = [1, k]", "$b = [$a, x]", "$a = [x, 1], $a = [k], $a", // locals holding lists, re-bound to other lists
	"$a = 7, this.$a", "$b = x, [this.$b, $b, this.x]", "$a = $a, this.$a",
	// a local counted up or down on the left of a logical operator: once per evaluation
	"($a = $a + 1) || 0", "($a = $a + 1) && k", "[($a = $a + 1) || 0, $a]", "($b = $a) || x", "$b = ($a = $a + 1) && $a",
	// evaluations that fail before they bind anything: the runner keeps working on the caller's map afterwards
	"x = 1", "1 = 2", "(k) = 3",
	// a list that binds is evaluated wherever it stands - also as a non-final operand of a comma sequence
	"[$a = 6, $b = 2], $a + $b", "[$a = $a + 1], $a", "[x, [$b = k]], $b",
	// locals bound inside a list or under a condition, also as the first thing a runner without a map does
	"[$a = 6, $a + 1]", "$b = [$a = 4], $a", "$a = true ? 7 : 8", "$b = false ? $a : k", "$a = x == 1 ? x : k", "$a = k ?? 3",
	// data entries named like builtins are entries all the same when read through this.
	"this.len", "[this.len, this.year, this.x]", "$a = this.len, [$a, this.$a]", "this.year ?? 0", "$b = this.max ?? x",
	"$a = 9007199254740993", "$b = $a + 1, [$a, $b, $a == $b]", "$a = 1234567890123456789, $a + 0", "[$a == 9007199254740993, $a == 9007199254740992]"}

var c20Alphabet = []runnerOp{
	{Op: "setthis", Map: "A"}, {Op: "setthis", Map: "B"}, {Op: "setthis", Map: ""}, {Op: "setthis", Map: "E"},
	{Op: "setvalue", Key: "x", Val: 50}, {Op: "setvalue", Key: "$a", Val: 60},
	{Op: "resolve", F: "$a = x + 1, this.$a"}, {Op: "resolve", F: "[x, $a, k]"}, {Op: "resolve", F: "$a = 5"}, {Op: "resolve", F: "this.x"}, {Op: "resolve", F: "[($a = $a + 1) || 0, $a]"}, {Op: "resolve", F: "[$a = 6, $a]"},
	{Op: "write", Key: "x", Val: 70},
	{Op: "set", Key: "x", Val: 99}, {Op: "get", Key: "x"}, {Op: "get", Key: "$a"}, {Op: "set", Key: "$a", Val: 98},
}

func historyNontrivial(hh history) bool {
	// a local surviving to a later evaluation, a map replacement that hides or restores a local,
	// a SetThisValue on a map-less runner, or a key present in both stores
	assigned, swapped, auxKeys, dataKeys := false, false, map[string]bool{}, map[string]bool{}
	hasMap := false
	nt := false
	for _, o := range hh.Ops {
		switch o.Op {
		case "resolve":
			if strings.Contains(o.F, "$a") {
				if assigned {
					nt = true
				}
				if swapped && assigned {
					nt = true
				}
			}
			if strings.Contains(o.F, "=") {
				assigned = true
			}
		case "setthis":
			if assigned {
				swapped = true
			}
			hasMap = o.Map != ""
		case "setvalue":
			if !hasMap {
				nt = true
			}
			hasMap = true
			dataKeys[o.Key] = true
		case "set":
			auxKeys[o.Key] = true
		case "get":
			if dataKeys[o.Key] || o.Key == "x" {
				nt = true
			}
		}
	}
	for k := range auxKeys {
		if dataKeys[k] || k == "x" {
			nt = true
		}
	}
	return nt
}

// TestC20Exhaustive: all sequences of up to k actions over the alphabet.
func TestC20Exhaustive(t *testing.T) {
	k := h.N(4, 6)
	run := h.Begin("C20", "exhaustive", fmt.Sprintf("bounded-exhaustive: every history of 1..%d operations over a %d-operation alphabet {SetThis(A|B|an empty map|nil), SetThisValue(x|$a), Resolve of 6 pool formulas that read and assign locals and fields, Set(x|$a), Get(x|$a), the caller writing x into the map it handed over} on one runner, with keys shared between the two caller maps and the auxiliary store; oracle: a model with 'this' as a reference to caller map A, B, a runner-created map or nothing, and a separate auxiliary map - every Resolve result and every Get must match, and the caller maps must equal the model's after every step; non-trivial: a local surviving to a later evaluation, a map replacement that hides or restores a local, SetThisValue on a map-less runner, or a key present in both stores", k, len(c20Alphabet)))
	defer run.End(t)
	enumSeq(len(c20Alphabet), k, func(seq []int) {
		if run.NViolations() >= 3 {
			return
		}
		var hh history
		for _, s := range seq {
			hh.Ops = append(hh.Ops, c20Alphabet[s])
		}
		msg, unspec := checkHistory(hh)
		if unspec {
			run.Class("unspecified-skipped")
			return
		}
		nt := historyNontrivial(hh)
		run.Count(nt, "")
		if nt && len(seq) == k && (seq[0]*5+seq[1]*3+seq[k-1])%41 == 0 {
			run.Sample("history", hh.String())
		}
		if msg != "" {
			run.Fail("c20", hh, msg)
		}
	})
	run.Exhaustive()
}

// TestC20Random: longer histories with the full formula pool.
func TestC20Random(t *testing.T) {
	run := h.Begin("C20", "random", "rapid: histories of 1-14 operations drawn from the same operation kinds with random keys {x, k, $a, $b, __v, $__v, len, year}, random integer values (1 in 5 beyond 2^53) or strings that look like timestamps / numbers / keywords, and the 51-formula pool (locals are entries of the data map: also read back through this.$name within the same evaluation); same oracle; non-trivial as in the exhaustive part; distinct by history")
	defer run.End(t)
	h.RapidSetup(h.N(6000, 2000000), "c20rand")
	rapid.Check(t, func(rt *rapid.T) {
		n := rapid.IntRange(1, 14).Draw(rt, "n")
		var hh history
		for i := 0; i < n; i++ {
			key := rapid.SampledFrom([]string{"x", "k", "$a", "$b", "x", "$a", "__v", "$__v", "len", "year"}).Draw(rt, "key")
			val := int64(rapid.IntRange(0, 99).Draw(rt, "v"))
			if rapid.IntRange(0, 4).Draw(rt, "big?") == 0 {
				val = rapid.SampledFrom([]int64{9007199254740993, -9007199254740993, 1234567890123456789, 9223372036854775807, 4611686018427387905}).Draw(rt, "bigv")
			}
			var sval *string
			if rapid.IntRange(0, 3).Draw(rt, "strval?") == 0 {
				txt, _ := genLookalike(rt) // a string that looks like a timestamp, a number, a keyword ...
				sval = &txt
			}
			switch rapid.IntRange(0, 8).Draw(rt, "op") {
			case 8:
				hh.Ops = append(hh.Ops, runnerOp{Op: "write", Key: key, Val: val, Str: sval})
			case 0:
				hh.Ops = append(hh.Ops, runnerOp{Op: "setthis", Map: rapid.SampledFrom([]string{"A", "B", "", "E", "E"}).Draw(rt, "map")})
			case 1:
				hh.Ops = append(hh.Ops, runnerOp{Op: "setvalue", Key: key, Val: val, Str: sval})
			case 2, 3, 4:
				hh.Ops = append(hh.Ops, runnerOp{Op: "resolve", F: rapid.SampledFrom(c20Pool).Draw(rt, "f")})
			case 5:
				hh.Ops = append(hh.Ops, runnerOp{Op: "set", Key: key, Val: val, Str: sval})
			default:
				hh.Ops = append(hh.Ops, runnerOp{Op: "get", Key: key})
			}
		}
		msg, unspec := checkHistory(hh)
		if unspec {
			run.Class("unspecified-skipped")
			return
		}
		run.CountKey(hh.String(), historyNontrivial(hh), "")
		run.Sample("history", hh.String())
		if msg != "" {
			run.Pending("rand", "c20", hh, msg)
			rt.Fatalf("%s", msg)
		}
	})
}

// fnOp is one operation of a history over data entries that are host functions.
type fnOp struct {
	Op string `json:"op"`           // setthis | setnil | setvalue | write | runner | resolve
	Fn int    `json:"fn,omitempty"` // which function (1..3) the operation installs
	F  int    `json:"f,omitempty"`  // resolve: which formula
}

type fnHistory struct {
	Ops []fnOp `json:"ops"`
}

var c20FnFormulas = []string{"rate(10)", "[rate(1), rate(2)]", "rate(rate(3))", "rate(k + 9)", "max(rate(5), 0)"}

func (hh fnHistory) String() string {
	var p []string
	for _, o := range hh.Ops {
		switch o.Op {
		case "resolve":
			p = append(p, "Resolve("+c20FnFormulas[o.F]+")")
		case "setnil", "runner":
			p = append(p, o.Op)
		default:
			p = append(p, fmt.Sprintf("%s(rate=f%d)", o.Op, o.Fn))
		}
	}
	return strings.Join(p, "; ")
}

// checkFnHistory: the formulas are parsed once per history; the function a plain name denotes is the
// entry of that name in the data map the evaluating runner holds NOW.
func checkFnHistory(hh fnHistory) string {
	fns := map[int]func(float64) (float64, error){
		1: func(x float64) (float64, error) { return x + 1, nil },
		2: func(x float64) (float64, error) { return x * 2, nil },
		3: func(x float64) (float64, error) { return x - 7, nil },
	}
	apply := func(id int, x float64) float64 { v, _ := fns[id](x); return v }
	trees := make([]*formula.SourceCode, len(c20FnFormulas))
	for i, f := range c20FnFormulas {
		p := obs.Parse([]byte(f))
		if !p.OK() {
			return "HARNESS: " + f
		}
		trees[i] = p.Src
	}
	type state struct {
		r    *formula.Runner
		data map[string]interface{} // the map the runner holds (nil: none)
		id   int                    // the function bound to "rate" in it, 0: none
		k    float64                // the entry k of it (absent: null, which counts 0 in a sum)
	}
	runners := []*state{{r: formula.NewRunner()}, {r: formula.NewRunner()}}
	cur := runners[0]
	for i, op := range hh.Ops {
		where := fmt.Sprintf("step %d of [%s]", i+1, hh)
		switch op.Op {
		case "setthis":
			cur.data = map[string]interface{}{"rate": fns[op.Fn], "k": 1}
			cur.id, cur.k = op.Fn, 1
			cur.r.SetThis(cur.data)
		case "setnil":
			cur.data, cur.id, cur.k = nil, 0, 0
			cur.r.SetThis(nil)
		case "setvalue":
			cur.r.SetThisValue("rate", fns[op.Fn])
			cur.id = op.Fn
		case "write":
			if cur.data != nil {
				cur.data["rate"] = fns[op.Fn]
				cur.id = op.Fn
			}
		case "runner":
			if cur == runners[0] {
				cur = runners[1]
			} else {
				cur = runners[0]
			}
		case "resolve":
			out := obs.Eval(cur.r, context.Background(), trees[op.F].Expression)
			if out.Panic != nil {
				return fmt.Sprintf("%s panicked: %v", where, out.Panic)
			}
			if cur.id == 0 {
				if out.Err == nil {
					return fmt.Sprintf("%s: the runner holds no entry 'rate', yet the formula evaluated to %s", where, obs.Show(out.Val))
				}
				continue
			}
			var want interface{}
			switch op.F {
			case 0:
				want = apply(cur.id, 10)
			case 3:
				want = apply(cur.id, cur.k+9)
			case 1:
				want = []interface{}{apply(cur.id, 1), apply(cur.id, 2)}
			case 2:
				want = apply(cur.id, apply(cur.id, 3))
			case 4:
				want = apply(cur.id, 5)
				if want.(float64) < 0 {
					want = float64(0)
				}
			}
			if out.Err != nil || fmt.Sprint(out.Val) != fmt.Sprint(want) {
				return fmt.Sprintf("%s = %s (%v): the runner's data map binds rate to f%d, which gives %v", where, obs.Show(out.Val), out.Err, cur.id, want)
			}
		}
	}
	return ""
}

func init() {
	h.RegisterReplay("c20-fn", func(raw json.RawMessage) string {
		c, err := h.Decode[fnHistory](raw)
		if err != nil {
			return "bad replay: " + err.Error()
		}
		return checkFnHistory(c)
	})
}

// TestC20HostFunctions: entries that are host functions are data like any other.
func TestC20HostFunctions(t *testing.T) {
	run := h.Begin("C20", "host-functions", "rapid: histories of 2..10 operations over two runners - SetThis(map with rate=f_i), SetThis(nil), SetThisValue(rate, f_j), the caller writing rate=f_k into its own map, switching to the other runner, Resolve of one of 5 formulas that call rate (parsed once per history: the same trees serve every step); oracle: the function applied is the entry the evaluating runner's map holds now, no entry is an error; non-trivial: a Resolve after the binding changed since the previous Resolve of the same tree")
	defer run.End(t)
	h.RapidSetup(h.N(1500, 200000), "c20fn")
	rapid.Check(t, func(rt *rapid.T) {
		n := rapid.IntRange(2, 10).Draw(rt, "n")
		var hh fnHistory
		for i := 0; i < n; i++ {
			switch rapid.IntRange(0, 8).Draw(rt, "op") {
			case 0:
				hh.Ops = append(hh.Ops, fnOp{Op: "setthis", Fn: rapid.IntRange(1, 3).Draw(rt, "fn")})
			case 1:
				hh.Ops = append(hh.Ops, fnOp{Op: "setnil"})
			case 2:
				hh.Ops = append(hh.Ops, fnOp{Op: "setvalue", Fn: rapid.IntRange(1, 3).Draw(rt, "fn")})
			case 3:
				hh.Ops = append(hh.Ops, fnOp{Op: "write", Fn: rapid.IntRange(1, 3).Draw(rt, "fn")})
			case 4:
				hh.Ops = append(hh.Ops, fnOp{Op: "runner"})
			default:
				hh.Ops = append(hh.Ops, fnOp{Op: "resolve", F: rapid.IntRange(0, len(c20FnFormulas)-1).Draw(rt, "f")})
			}
		}
		resolves, changed, nontrivial := 0, false, false
		for _, o := range hh.Ops {
			if o.Op == "resolve" {
				if resolves > 0 && changed {
					nontrivial = true
				}
				resolves++
				changed = false
			} else {
				changed = true
			}
		}
		run.CountKey(hh.String(), nontrivial, "")
		run.Sample("history", hh.String())
		if msg := checkFnHistory(hh); msg != "" {
			run.Pending("fn", "c20-fn", hh, msg)
			rt.Fatalf("%s", msg)
		}
	})
}

// failedCase: a local holds a value; an evaluation fails while it computes the right-hand side of an
// assignment to that local; the local is read afterwards.
type failedCase struct {
	NoMap bool   `json:"no_map"`
	Bind  string `json:"bind"` // formula that binds $x
	Fail  string `json:"fail"` // formula that fails inside the right-hand side of `$x = ...`
}

func checkFailedAssignment(c failedCase) string {
	r := formula.NewRunner()
	data := map[string]interface{}{"a": 2, "s": "txt"}
	if !c.NoMap {
		r.SetThis(data)
	}
	eval := func(text string) obs.EvalOut {
		p := obs.Parse([]byte(text))
		if !p.OK() {
			return obs.EvalOut{Panic: "HARNESS: " + text}
		}
		return obs.Eval(r, context.Background(), p.Src.Expression)
	}
	if b := eval(c.Bind); b.Panic != nil || b.Err != nil {
		return fmt.Sprintf("HARNESS: %s: %v %v", c.Bind, b.Err, b.Panic)
	}
	before := eval("[$x, typeof $x]")
	f := eval(c.Fail)
	if f.Panic != nil {
		return fmt.Sprintf("%s panicked: %v", c.Fail, f.Panic)
	}
	if f.Err == nil {
		return "" // the formula did not fail here (e.g. no data map): nothing to observe
	}
	after := eval("[$x, typeof $x]")
	if after.String() != before.String() {
		return fmt.Sprintf("after %q, $x read %s; then %q failed while computing the value to assign - no assignment to $x was completed - and $x reads %s", c.Bind, before, c.Fail, after)
	}
	if !c.NoMap {
		if got := obs.Show(data["$x"]); got != obs.Show(before.Val.([]interface{})[0]) && before.Err == nil {
			return fmt.Sprintf("after %q failed, the caller's map holds $x = %s, the runner read %s before", c.Fail, got, before)
		}
	}
	return ""
}

func init() {
	h.RegisterReplay("c20-failed", func(raw json.RawMessage) string {
		c, err := h.Decode[failedCase](raw)
		if err != nil {
			return "bad replay: " + err.Error()
		}
		return checkFailedAssignment(c)
	})
}

// TestC20FailedAssignment: whatever a failing evaluation leaves behind - the assignments it completed, or
// none of them - a local whose new value was never computed keeps the value it had.
func TestC20FailedAssignment(t *testing.T) {
	run := h.Begin("C20", "failed-assignment", "enumerated: 5 formulas that bind $x (number, string, list, many-digit number, a copy of a data entry) x 8 formulas that fail while computing the right-hand side of '$x = ...' (operator misuse, a forbidden assignment inside, '!.' on null, an argument that has no conversion, a failing call after another local was bound), with and without a data map; oracle: $x (value and type, and the caller's entry) reads as before the failed evaluation - both treatments of a failed evaluation the other checks allow, keeping completed assignments or dropping them, agree on that; non-trivial: the second formula failed")
	defer run.End(t)
	binds := []string{"$x = a + 1", "$x = 'kept'", "$x = [1, 'two']", "$x = 12345678901234567890.5", "$x = s"}
	fails := []string{"$x = -true", "$x = (a = 1)", "$x = $none!.k", "$y = 7, $x = (1 = 2)", "$x = left('abc', 'z')", "$x = [1, (a = 2)]", "$x = ($y = 5, (s = 1))", "[$x = (a = 1)]"}
	var idx int64
	for _, nomap := range []bool{false, true} {
		for _, b := range binds {
			for _, f := range fails {
				idx++
				if !h.Mine(idx) {
					continue
				}
				c := failedCase{NoMap: nomap, Bind: b, Fail: f}
				msg := checkFailedAssignment(c)
				run.Count(true, "history")
				if idx%11 == 0 {
					run.Sample("history", b+" ; "+f+" ; $x")
				}
				if msg != "" {
					run.Fail("c20-failed", c, msg)
				}
			}
		}
	}
	run.Exhaustive()
}
