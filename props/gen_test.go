package props

import (
	"strings"

	"pgregory.net/rapid"

	"verif/internal/ref"
)

// ---- grammar-directed program generation (construction, not rejection) ----

type genCfg struct {
	Names    []string // identifier leaves
	SelNames []string // names after '.'
	Nums     []string // number spellings (Src); Val is derived by ref.Lex
	Strs     []string // decoded string values
	Kws      []string // keyword leaves
	Callees  []string // preferred callee names (may be empty)
	NoAssign bool
	NoComma  bool
	NoSpread bool
	MaxArgs  int
	// C10: callees are names or dotted paths only; assignment targets are bare names from Targets
	CalleePathOnly bool
	Targets        []string
}

var syntaxCfg = genCfg{
	Names:    []string{"a", "b", "c", "$x", "_", "é", "truex", "nul", "a1", "len", "max", "__v", "___", "$$", "a$", "thisx"},
	SelNames: []string{"k", "b", "null", "typeof", "this", "é", "$y", "true", "__v", "_", "ctx"},
	Nums:     []string{"1", "0", "2.5", ".5", "1e3", "1_000", "007", "1.", "1E-2", "12345678901234567890.123"},
	Strs:     []string{"", "s", "it's", "a\"b", "中", "x\ny", "\\"},
	Kws:      []string{"null", "true", "false", "this", "ctx"},
	MaxArgs:  3,
}

func numNode(src string) *ref.Node {
	lr := ref.Lex([]byte(src))
	return &ref.Node{Kind: "num", Val: lr.Tokens[0].Value, Src: src}
}

func strNode(t *rapid.T, val string) *ref.Node {
	q := byte('\'')
	if rapid.Bool().Draw(t, "dq") {
		q = '"'
	}
	return &ref.Node{Kind: "str", Val: val, Src: ref.QuoteString(val, q)}
}

func genLeaf(t *rapid.T, cfg *genCfg) *ref.Node {
	switch rapid.IntRange(0, 9).Draw(t, "leaf") {
	case 0, 1, 2, 3:
		return &ref.Node{Kind: "id", Val: rapid.SampledFrom(cfg.Names).Draw(t, "name")}
	case 4, 5, 6:
		return numNode(rapid.SampledFrom(cfg.Nums).Draw(t, "num"))
	case 7, 8:
		return strNode(t, rapid.SampledFrom(cfg.Strs).Draw(t, "str"))
	default:
		return &ref.Node{Kind: "kw", Op: rapid.SampledFrom(cfg.Kws).Draw(t, "kw")}
	}
}

func paren(n *ref.Node) *ref.Node { return &ref.Node{Kind: "paren", Kids: []*ref.Node{n}} }

// atLevel wraps n in parentheses when its grammar level is below min.
func atLevel(n *ref.Node, min int) *ref.Node {
	if n.Level() < min {
		return paren(n)
	}
	return n
}

// genExpr generates a tree whose root may stand where grammar level min is required.
func genExpr(t *rapid.T, cfg *genCfg, depth int, min int) *ref.Node {
	if depth <= 0 {
		return genLeaf(t, cfg)
	}
	var n *ref.Node
	sub := func(min int) *ref.Node { return genExpr(t, cfg, depth-1, min) }
	switch k := rapid.IntRange(0, 19).Draw(t, "kind"); {
	case k <= 2:
		n = genLeaf(t, cfg)
	case k <= 8: // binary ladder
		op := rapid.SampledFrom(ref.BinOps).Draw(t, "op")
		lv := ref.BinLevel[op]
		n = &ref.Node{Kind: "bin", Op: op, Kids: []*ref.Node{sub(lv), sub(lv + 1)}}
	case k == 9:
		if cfg.NoComma {
			n = genLeaf(t, cfg)
		} else {
			n = &ref.Node{Kind: "bin", Op: ",", Kids: []*ref.Node{sub(ref.LvComma), sub(ref.LvAssign)}}
		}
	case k == 10:
		if cfg.NoAssign {
			n = genLeaf(t, cfg)
		} else {
			lhs := sub(2)
			if len(cfg.Targets) > 0 && (cfg.CalleePathOnly || rapid.IntRange(0, 3).Draw(t, "usetarget") > 0) {
				lhs = &ref.Node{Kind: "id", Val: rapid.SampledFrom(cfg.Targets).Draw(t, "target")}
			}
			n = &ref.Node{Kind: "bin", Op: "=", Kids: []*ref.Node{lhs, sub(ref.LvAssign)}}
		}
	case k == 11:
		n = &ref.Node{Kind: "cond", Kids: []*ref.Node{sub(2), sub(ref.LvAssign), sub(ref.LvAssign)}}
	case k <= 13:
		n = &ref.Node{Kind: "pre", Op: rapid.SampledFrom(ref.PrefixOps).Draw(t, "pre"), Kids: []*ref.Node{sub(ref.LvUnary)}}
	case k == 14:
		n = &ref.Node{Kind: "typeof", Kids: []*ref.Node{sub(ref.LvUnary)}}
	case k <= 16:
		n = &ref.Node{Kind: "sel", Val: rapid.SampledFrom(cfg.SelNames).Draw(t, "sel"), Assert: rapid.IntRange(0, 3).Draw(t, "assert") == 0, Kids: []*ref.Node{sub(ref.LvPostfix)}}
	case k == 17:
		var callee *ref.Node
		if cfg.CalleePathOnly {
			callee = &ref.Node{Kind: "id", Val: rapid.SampledFrom(cfg.Callees).Draw(t, "callee")}
			for k := rapid.IntRange(0, 2).Draw(t, "calleepath"); k > 0 && rapid.IntRange(0, 2).Draw(t, "deeper") == 0; k-- {
				callee = &ref.Node{Kind: "sel", Val: rapid.SampledFrom(cfg.SelNames).Draw(t, "calleesel"), Kids: []*ref.Node{callee}}
			}
		} else if len(cfg.Callees) > 0 && rapid.IntRange(0, 3).Draw(t, "namedcallee") > 0 {
			callee = &ref.Node{Kind: "id", Val: rapid.SampledFrom(cfg.Callees).Draw(t, "callee")}
		} else {
			callee = sub(ref.LvPostfix)
		}
		n = &ref.Node{Kind: "call", Kids: []*ref.Node{callee}}
		na := rapid.IntRange(0, cfg.MaxArgs).Draw(t, "nargs")
		for i := 0; i < na; i++ {
			n.Kids = append(n.Kids, sub(ref.LvAssign))
		}
		if !cfg.NoSpread && rapid.IntRange(0, 5).Draw(t, "spread") == 0 {
			n.Spread = true
		}
	case k == 18:
		n = &ref.Node{Kind: "arr"}
		na := rapid.IntRange(0, 3).Draw(t, "nelems")
		for i := 0; i < na; i++ {
			n.Kids = append(n.Kids, sub(ref.LvAssign))
		}
	default:
		n = paren(sub(ref.LvComma))
	}
	return atLevel(n, min)
}

// ---- layouts ----

var sepsNoNL = []string{"", " ", "\t", "\u00a0", "  ", "\u3000", "\ufeff", "\v", "\u2003"}
var sepsNL = []string{"\n", "\r\n", "\r", "\u2028", "\u2029", "\u0085", " \n ", "\n\n"}

// genLayout draws a separator for every gap; line breaks are never placed
// before tokens that must stay on the line of their target.
func genLayout(t *rapid.T, toks []ref.PTok, nlWeight int) []string {
	seps := make([]string, len(toks)+1)
	for i := range seps {
		allowNL := i == len(toks) || !toks[i].NoNLBefore
		r := rapid.IntRange(0, 9).Draw(t, "sepkind")
		switch {
		case allowNL && r < nlWeight:
			seps[i] = rapid.SampledFrom(sepsNL).Draw(t, "nl")
		case r < 6:
			seps[i] = rapid.SampledFrom(sepsNoNL).Draw(t, "ws")
		default:
			if i == 0 || i == len(toks) {
				seps[i] = ""
			} else {
				seps[i] = " "
			}
		}
	}
	return seps
}

func hasNL(s string) bool {
	return strings.ContainsAny(s, "\n\r\u2028\u2029\u0085")
}
