package props

import (
	"fmt"
	"strings"
	"time"

	"pgregory.net/rapid"
)

// genLookalike draws a text that looks like a value of another kind - a
// timestamp in one of many layouts, a date, a number in every spelling the
// language (or Go, or JSON) knows, a keyword, a JSON document, a formula, a
// duration, the way Go prints nil/maps/slices - and names its class. Texts are
// texts: wherever a string travels (literal, data value, argument, result) it
// must stay the same string.
func genLookalike(t *rapid.T) (string, string) {
	switch rapid.IntRange(0, 9).Draw(t, "lookalike") {
	case 0, 1:
		sec := rapid.Int64Range(-62135596800, 253402300799).Draw(t, "sec")
		if rapid.Bool().Draw(t, "recent") {
			sec = rapid.Int64Range(0, 4102444800).Draw(t, "sec2")
		}
		ns := rapid.SampledFrom([]int64{0, 0, 500000000, 123456789, 1000}).Draw(t, "ns")
		off := rapid.SampledFrom([]int{0, 0, 3600, -5 * 3600, 8 * 3600, 19800, -34200}).Draw(t, "off")
		tm := time.Unix(sec, ns).In(time.FixedZone("", off))
		if off == 0 {
			tm = tm.UTC()
		}
		layout := rapid.SampledFrom([]string{time.RFC3339, time.RFC3339, time.RFC3339Nano, "2006-01-02T15:04:05", "2006-01-02 15:04:05", "2006-01-02", "2006/01/02", "15:04:05", "15:04", time.RFC1123, time.RFC1123Z, time.RFC822, time.ANSIC, time.UnixDate, time.Kitchen, time.Stamp, "20060102", "2006-01", "01/02/2006", "2006-01-02T15:04:05.000Z07:00", "2006-01-02 15:04:05.999999999 -0700 MST"}).Draw(t, "layout")
		return tm.Format(layout), "timestamp"
	case 2, 3:
		digits := rapid.StringMatching(`[0-9]{1,12}`).Draw(t, "digits")
		frac := rapid.StringMatching(`[0-9]{0,6}`).Draw(t, "frac")
		forms := []string{digits, "-" + digits, "+" + digits, digits + "." + frac, "." + digits, digits + "e" + rapid.StringMatching(`[+-]?[0-9]{1,3}`).Draw(t, "exp"), "0x" + rapid.StringMatching(`[0-9a-fA-F]{1,8}`).Draw(t, "hex"), "0b" + rapid.StringMatching(`[01]{1,8}`).Draw(t, "bin"), "0o" + rapid.StringMatching(`[0-7]{1,6}`).Draw(t, "oct"), "0" + digits, digits + "_000", " " + digits, digits + " ", digits + "%", "$" + digits + "." + frac, digits + "," + digits, "1e400", "-0", "0.0", "00", "NaN", "Infinity", "-Infinity", "+Inf", "inf", "1/3", digits + "n", digits + "L", digits + "f"}
		return rapid.SampledFrom(forms).Draw(t, "numform"), "number"
	case 4:
		return rapid.SampledFrom([]string{"true", "false", "null", "nil", "undefined", "this", "typeof", "True", "FALSE", "NULL", "None", "<nil>", "%!s(<nil>)", "yes", "no", "on", "off", "T", "F", "0", "1", "", " "}).Draw(t, "kw"), "keyword"
	case 5:
		return rapid.SampledFrom([]string{"[]", "{}", "[1,2,3]", `{"a":1}`, `{"a":{"b":[null,true]}}`, `"quoted"`, `["a","b"]`, "map[a:1 b:2]", "[1 2 3]", "map[]", "{Ann 30}", "&{Ann 30}", "0xc000012345", "<nil>", "[<nil>]"}).Draw(t, "json"), "document"
	case 6:
		return rapid.SampledFrom([]string{"1+1", "a.b", "$a", "$a = 1", "now()", "toDay()", "len(s)", "this.name", "a ? b : c", "a ?? b", "'x'", "\"x\"", "'it''s'", "!x", "-1", "- 1", "(1)", "f()", "a, b", "[a]", "x...", "=1+1", "=SUM(A1:A3)", "{{x}}", "${x}", "#{x}", "%s", "%d %v", "%!d(string=x)", "%%"}).Draw(t, "formula"), "formula"
	case 7:
		return rapid.SampledFrom([]string{"1h30m", "90s", "1.5h", "-2m", "100ms", "1us", "P1D", "PT1H", "P1Y2M3DT4H5M6S", "1d", "2w", "UTC", "Local", "Asia/Shanghai", "Z", "+08:00", "-0700", "GMT+8", "Mon", "Monday", "Jan", "January", "AM", "pm"}).Draw(t, "duration"), "duration-or-zone"
	case 8:
		a := rapid.StringMatching(`[0-9a-f]{8}`).Draw(t, "a")
		return rapid.SampledFrom([]string{a + "-0000-4000-8000-" + a + "0000", "https://example.com/?a=1&b=2", "user@example.com", "/a/b/../c", `C:\dir\file`, "a.b.c", "192.168.0.1", "::1", "[::1]:80", "aGVsbG8=", "aGVsbG8", "data:text/plain;base64,QQ==", "#fff", "rgb(1,2,3)", "1.2.3", "v1.2.3-rc1+build", "__proto__", "__v", "___", "$x", "_", "len", "typeof x"}).Draw(t, "misc"), "identifier-like"
	default:
		y := rapid.IntRange(0, 9999).Draw(t, "y")
		m := rapid.IntRange(0, 13).Draw(t, "m")
		d := rapid.IntRange(0, 32).Draw(t, "d")
		sep := rapid.SampledFrom([]string{"-", "/", ".", ""}).Draw(t, "sep")
		s := fmt.Sprintf("%04d%s%02d%s%02d", y, sep, m, sep, d)
		if rapid.Bool().Draw(t, "withTime") {
			s += rapid.SampledFrom([]string{"T", " ", "t"}).Draw(t, "T") + fmt.Sprintf("%02d:%02d:%02d", rapid.IntRange(0, 24).Draw(t, "H"), rapid.IntRange(0, 60).Draw(t, "M"), rapid.IntRange(0, 60).Draw(t, "S")) + rapid.SampledFrom([]string{"", "Z", "z", "+00:00", "+08:00", "-05:30", ".5Z", ".123456789Z", " UTC"}).Draw(t, "zone")
		}
		return s, "date-parts"
	}
}

// lookalikeFixed is a deterministic list for bounded sub-checks.
var lookalikeFixed = func() []string {
	out := []string{"2024-01-02T03:04:05Z", "2024-01-02T03:04:05+08:00", "2024-01-02T03:04:05.123456789Z", "0001-01-01T00:00:00Z", "1970-01-01T00:00:00Z", "9999-12-31T23:59:59Z", "2024-02-29", "2024-01-02 03:04:05", "03:04:05", "Mon, 02 Jan 2006 15:04:05 MST", "20240102",
		"123", "-123", "+1", "1.50", ".5", "5.", "1e5", "1E-5", "0x10", "0X1F", "0b11", "0o17", "017", "1_000", "NaN", "Infinity", "-Infinity", "-0", "1e400", "12345678901234567890123456789012345678901234567890", "0.1000", " 1", "1 ",
		"true", "false", "null", "nil", "this", "undefined", "<nil>", "typeof", "[]", "{}", "[1,2]", `{"a":1}`, "map[a:1]", "1+1", "$a", "now()", "len('x')", "'x'", "a.b", "%s", "%d", "%!v(PANIC=x)", "1h30m", "UTC", "Asia/Shanghai", "+08:00",
		"__proto__", "__v", "__", "___x", "_", "$a", "$", "$$", "__typename", "constructor", "toString", "len", "max"}
	return out
}()

// escapeForLiteral spells text as a single-quoted literal, escaping only what
// must be escaped.
func escapeForLiteral(text string) string {
	r := strings.NewReplacer(`\`, `\\`, `'`, `\'`, "\n", `\n`, "\r", `\r`)
	return "'" + r.Replace(text) + "'"
}
