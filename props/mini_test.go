package props

import (
	"fmt"
	"math"
	"reflect"
	"strconv"
	"strings"

	"github.com/ericlagergren/decimal"

	"verif/internal/ref"
)

// A store-passing reference evaluator for the sub-language used by the
// model-based properties (C07, C20): small integers, strings, null, booleans,
// arrays, opaque references to caller objects, `$`-locals, ',', '=', '?:',
// integer '+', string '+', integer comparisons, parentheses, member access on
// nested model maps, and calls to the recording host function `rec`.
// Everything else is "unspecified": the case is then not asserted.

type mv struct {
	K   string        `json:"k"` // null int str bool arr ref map
	I   int64         `json:"i,omitempty"`
	S   string        `json:"s,omitempty"`
	B   bool          `json:"b,omitempty"`
	A   []mv          `json:"a,omitempty"`
	M   map[string]mv `json:"m,omitempty"`
	Ref string        `json:"ref,omitempty"`
}

var mvNull = mv{K: "null"}

func mvInt(i int64) mv  { return mv{K: "int", I: i} }
func mvStr(s string) mv { return mv{K: "str", S: s} }

func (v mv) String() string {
	switch v.K {
	case "null":
		return "null"
	case "int":
		return strconv.FormatInt(v.I, 10)
	case "str":
		return strconv.Quote(v.S)
	case "bool":
		return strconv.FormatBool(v.B)
	case "arr":
		var p []string
		for _, e := range v.A {
			p = append(p, e.String())
		}
		return "[" + strings.Join(p, ",") + "]"
	case "ref":
		return "&" + v.Ref
	case "map":
		return fmt.Sprintf("map%v", v.M)
	}
	return "?"
}

type miniEnv struct {
	store  map[string]mv // `$` locals (the model of the `$` entries of the data map)
	data   map[string]mv // non-`$` entries
	trace  [][]mv        // recorded rec(...) invocations
	unspec bool          // the program left the specified sub-language
	this   func() map[string]mv
}

// eval returns the value and whether evaluation ended in an error.
func (e *miniEnv) eval(n *ref.Node) (mv, bool) {
	switch n.Kind {
	case "paren":
		return e.eval(n.Kids[0])
	case "num":
		i, err := strconv.ParseInt(n.Val, 10, 64)
		if err != nil {
			e.unspec = true
		}
		return mvInt(i), false
	case "str":
		return mvStr(n.Val), false
	case "kw":
		switch n.Op {
		case "null":
			return mvNull, false
		case "true":
			return mv{K: "bool", B: true}, false
		case "false":
			return mv{K: "bool", B: false}, false
		case "this":
			return mv{K: "ref", Ref: "this"}, false
		}
		e.unspec = true
		return mvNull, false
	case "id":
		if n.Val == "rec" || n.Val == "recf" {
			return mv{K: "ref", Ref: n.Val}, false
		}
		if _, isBuiltin := builtinArity[n.Val]; isBuiltin || n.Val == "true" || n.Val == "false" {
			e.unspec = true
			return mvNull, false
		}
		if strings.HasPrefix(n.Val, "$") {
			if v, ok := e.store[n.Val]; ok {
				return v, false
			}
			return mvNull, false
		}
		if v, ok := e.data[n.Val]; ok {
			return v, false
		}
		return mvNull, false
	case "sel":
		base, err := e.eval(n.Kids[0])
		if err {
			return mvNull, true
		}
		if base.K == "ref" && base.Ref == "this" {
			// this.k reads key k of the data map itself
			if strings.HasPrefix(n.Val, "$") {
				if v, ok := e.store[n.Val]; ok {
					return v, false
				}
				return mvNull, false
			}
			if v, ok := e.data[n.Val]; ok {
				return v, false
			}
			return mvNull, false
		}
		switch base.K {
		case "null":
			if n.Assert {
				return mvNull, true
			}
			return mvNull, false
		case "map":
			if v, ok := base.M[n.Val]; ok {
				return v, false
			}
			return mvNull, false
		}
		e.unspec = true
		return mvNull, false
	case "arr":
		out := mv{K: "arr"}
		for _, k := range n.Kids {
			v, err := e.eval(k)
			if err {
				return mvNull, true
			}
			out.A = append(out.A, v)
		}
		return out, false
	case "call":
		if n.Kids[0].Kind != "id" || (n.Kids[0].Val != "rec" && n.Kids[0].Val != "recf") || (n.Kids[0].Val == "recf" && !n.Spread) {
			e.unspec = true
			return mvNull, false
		}
		var args []mv
		for _, k := range n.Kids[1:] {
			v, err := e.eval(k)
			if err {
				return mvNull, true
			}
			args = append(args, v)
		}
		if n.Spread { // rec(a, xs...): the last argument (evaluated last, like any argument) is spread over the tail
			if len(args) == 0 || args[len(args)-1].K != "arr" {
				e.unspec = true
				return mvNull, false
			}
			last := args[len(args)-1]
			args = append(args[:len(args)-1:len(args)-1], last.A...)
		}
		e.trace = append(e.trace, args)
		return mvInt(int64(len(e.trace))), false
	case "cond":
		c, err := e.eval(n.Kids[0])
		if err {
			return mvNull, true
		}
		if c.K != "bool" {
			e.unspec = true
			return mvNull, false
		}
		if c.B {
			return e.eval(n.Kids[1])
		}
		return e.eval(n.Kids[2])
	case "bin":
		switch n.Op {
		case ",":
			if _, err := e.eval(n.Kids[0]); err {
				return mvNull, true
			}
			return e.eval(n.Kids[1])
		case "=":
			tgt := n.Kids[0]
			if tgt.Kind != "id" || !strings.HasPrefix(tgt.Val, "$") {
				return mvNull, true // assigning to anything but a bare $-name is an error
			}
			v, err := e.eval(n.Kids[1])
			if err {
				return mvNull, true
			}
			e.store[tgt.Val] = v
			return v, false
		}
		a, err := e.eval(n.Kids[0])
		if err {
			return mvNull, true
		}
		b, err := e.eval(n.Kids[1])
		if err {
			return mvNull, true
		}
		switch n.Op {
		case "&&", "||", "??":
			// the right operand is pure by construction (a leaf), so whether it is evaluated does not matter
			truthy := !(a.K == "null" || a.K == "bool" && !a.B || a.K == "int" && a.I == 0 || a.K == "str" && a.S == "")
			switch {
			case n.Op == "&&" && !truthy, n.Op == "||" && truthy, n.Op == "??" && a.K != "null":
				return a, false
			}
			return b, false
		case "+":
			if a.K == "int" && b.K == "int" {
				sum := a.I + b.I
				if (sum > a.I) != (b.I > 0) {
					e.unspec = true // beyond the model's 64-bit integers
				}
				return mvInt(sum), false
			}
			if a.K == "str" && b.K == "str" {
				return mvStr(a.S + b.S), false
			}
			if a.K == "str" && b.K == "int" {
				return mvStr(a.S + strconv.FormatInt(b.I, 10)), false
			}
		case "==", "<", ">":
			if a.K == "int" && b.K == "int" {
				switch n.Op {
				case "==":
					return mv{K: "bool", B: a.I == b.I}, false
				case "<":
					return mv{K: "bool", B: a.I < b.I}, false
				case ">":
					return mv{K: "bool", B: a.I > b.I}, false
				}
			}
		}
		e.unspec = true
		return mvNull, false
	}
	e.unspec = true
	return mvNull, false
}

// matches compares an implementation value with a model value. refs resolves
// reference names to the caller's objects (identity comparison).
func mvMatches(got interface{}, want mv, refs map[string]interface{}, top bool) bool {
	switch want.K {
	case "null":
		if got == nil {
			return true
		}
		rv := reflect.ValueOf(got)
		if rv.Kind() == reflect.Ptr && rv.IsNil() {
			return true
		}
		_, isRV := got.(reflect.Value) // a null argument wrapped by the call path (C11's concern, not C07's)
		return isRV
	case "int":
		switch g := got.(type) {
		case *decimal.Big:
			return g != nil && g.IsFinite() && g.Cmp(decimal.New(want.I, 0)) == 0
		case float64:
			if top {
				return g == float64(want.I) // results leave as the nearest float64 (C04)
			}
			// stored / nested: any Go number kind will do as long as it holds exactly this integer
			return g == math.Trunc(g) && math.Abs(g) < 9e18 && int64(g) == want.I
		case int:
			return int64(g) == want.I
		case int64:
			return g == want.I
		}
		return false
	case "str":
		s, ok := got.(string)
		return ok && s == want.S
	case "bool":
		b, ok := got.(bool)
		return ok && b == want.B
	case "arr":
		arr, ok := got.([]interface{})
		if !ok || len(arr) != len(want.A) {
			return false
		}
		for i := range arr {
			if !mvMatches(arr[i], want.A[i], refs, false) {
				return false
			}
		}
		return true
	case "ref", "map":
		name := want.Ref
		obj, ok := refs[name]
		if !ok {
			return false
		}
		if od, isDec := obj.(*decimal.Big); isDec {
			// a caller-owned number: compared by value (top level results come back as float64)
			switch g := got.(type) {
			case *decimal.Big:
				return g != nil && g.Cmp(od) == 0
			case float64:
				f, _ := od.Float64()
				return top && g == f
			}
			return false
		}
		gv, ov := reflect.ValueOf(got), reflect.ValueOf(obj)
		if !gv.IsValid() || gv.Type() != ov.Type() {
			return false
		}
		switch ov.Kind() {
		case reflect.Map, reflect.Slice, reflect.Func, reflect.Ptr:
			return gv.Pointer() == ov.Pointer()
		}
		return reflect.DeepEqual(got, obj)
	}
	return false
}
