package props

import (
	"context"

	"github.com/aundis/formula"

	"verif/internal/obs"
)

// Every check that evaluates through obs.EvalText gets unrelated evaluations
// interleaved with its cases (one program of the C08 battery - every numeric,
// string, regexp and date builtin on tie / boundary arguments - before every
// 37th case, rotating). Purity (C08) says this cannot matter; if some feature
// leaves process-wide state behind, the oracle of the running check sees it.
func init() {
	bat := c08Battery()
	next := 0
	obs.Perturb = func() {
		f := bat[next%len(bat)]
		next++
		p := obs.Parse([]byte(f))
		if !p.OK() {
			return
		}
		r := formula.NewRunner()
		r.SetThis(c08Data(0))
		obs.Eval(r, context.Background(), p.Src.Expression)
	}
}

// runWholeBattery evaluates every battery program once; replays run it first so
// that a failure that depends on state left behind by another feature
// reproduces from its replay file.
func runWholeBattery() {
	for range c08Battery() {
		obs.Perturb()
	}
}
