package props

import (
	"fmt"
	"os"
	"path/filepath"
	"sort"
	"strings"
	"testing"

	"verif/internal/h"
	"verif/internal/obs"
)

// TestReplay re-runs one saved failing case (VERIF_REPLAY=<file>).
func TestReplay(t *testing.T) {
	path := os.Getenv("VERIF_REPLAY")
	if path == "" {
		t.Skip("VERIF_REPLAY not set")
	}
	prop, msg, err := h.RunReplayFile(path)
	if err != nil {
		t.Fatalf("REPLAY-ERROR %v", err)
	}
	if msg == "" {
		// second attempt after the interleaved battery (state-dependent failures)
		for range c08Battery() {
			obs.Perturb() // one more unrelated program, then the case again
			if _, m, _ := h.RunReplayFile(path); m != "" {
				msg = "(only after evaluating unrelated battery programs first) " + m
				break
			}
		}
	}
	if msg != "" {
		fmt.Printf("REPRODUCED property=%s replay=%s : %s\n", prop, path, msg)
		t.Fail()
	} else {
		fmt.Printf("NOT-REPRODUCED property=%s replay=%s\n", prop, path)
	}
}

// TestRegress re-runs the committed regression cases of one property
// (/verif/regress/<ID>/*.json); a reproduced case is a violation.
func TestRegress(t *testing.T) {
	prop := os.Getenv("VERIF_PROP")
	if prop == "" {
		t.Skip("VERIF_PROP not set")
	}
	if i, _ := h.Shard(); i != 0 {
		return
	}
	files, _ := filepath.Glob(filepath.Join("/verif/regress", prop, "*.json"))
	sort.Strings(files)
	if len(files) == 0 {
		return
	}
	run := h.Begin(prop, "regress", "saved regression cases re-run directly through the case checker, bypassing generation")
	for _, f := range files {
		_, msg, err := h.RunReplayFile(f)
		if err != nil {
			t.Fatalf("regress %s: %v", f, err)
		}
		run.Count(true, "regress")
		run.Sample("regress", filepath.Base(f))
		if msg != "" {
			run.FailExisting(f, msg)
		}
	}
	run.End(t)
}

// TestReplayMany re-runs every replay file listed (one path per line) in
// $VERIF_REPLAY_LIST and prints one verdict line per file. Tooling only.
func TestReplayMany(t *testing.T) {
	list := os.Getenv("VERIF_REPLAY_LIST")
	if list == "" {
		t.Skip("VERIF_REPLAY_LIST not set")
	}
	data, err := os.ReadFile(list)
	if err != nil {
		t.Fatal(err)
	}
	for _, line := range strings.Split(string(data), "\n") {
		path := strings.TrimSpace(line)
		if path == "" {
			continue
		}
		_, msg, err := h.RunReplayFile(path)
		switch {
		case err != nil:
			fmt.Printf("MANY error %s %v\n", path, err)
		case msg != "":
			fmt.Printf("MANY reproduced %s\n", path)
		default:
			fmt.Printf("MANY clean %s\n", path)
		}
	}
}
