package props

import (
	"context"
	"testing"

	"github.com/aundis/formula"
	"pgregory.net/rapid"
)

func TestSmoke(t *testing.T) {
	rapid.Check(t, func(t *rapid.T) {
		n := rapid.IntRange(0, 100).Draw(t, "n")
		src, err := formula.ParseSourceCode([]byte("1+1"))
		if err != nil {
			t.Fatal(err)
		}
		v, err := formula.NewRunner().Resolve(context.Background(), src.Expression)
		if err != nil || v.(float64) != 2 {
			t.Fatal(v, err, n)
		}
	})
}
