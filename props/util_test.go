package props

import "math/big"

func ratAdd(a, b *big.Rat) *big.Rat { return new(big.Rat).Add(a, b) }
func ratSub(a, b *big.Rat) *big.Rat { return new(big.Rat).Sub(a, b) }
func ratMul(a, b *big.Rat) *big.Rat { return new(big.Rat).Mul(a, b) }
func ratNeg(a *big.Rat) *big.Rat    { return new(big.Rat).Neg(a) }
