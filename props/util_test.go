package props

import "math/big"

func ratAdd(a, b *big.Rat) *big.Rat { return new(big.Rat).Add(a, b) }
func ratSub(a, b *big.Rat) *big.Rat { return new(big.Rat).Sub(a, b) }
func ratMul(a, b *big.Rat) *big.Rat { return new(big.Rat).Mul(a, b) }
func ratNeg(a *big.Rat) *big.Rat    { return new(big.Rat).Neg(a) }

func sortStrings(s []string) {
	for i := 1; i < len(s); i++ {
		for j := i; j > 0 && s[j] < s[j-1]; j-- {
			s[j], s[j-1] = s[j-1], s[j]
		}
	}
}
