package props

import (
	"verif/internal/spec"
)

// world is a data map with one entry per supported (and odd) Go kind.
func worldSpec() map[string]spec.V {
	sv := func(k, s string) spec.V { return spec.V{K: k, S: s} }
	return map[string]spec.V{
		"n":    {K: "nil"},
		"b":    sv("bool", "true"),
		"bf":   sv("bool", "false"),
		"s":    sv("string", "hello"),
		"es":   sv("string", ""),
		"sn":   sv("string", "12"),
		"i":    sv("int", "42"),
		"iz":   sv("int", "0"),
		"ineg": sv("int", "-3"),
		"i8":   sv("int8", "-8"),
		"i16":  sv("int16", "1600"),
		"i32":  sv("int32", "32"),
		"i64":  sv("int64", "9007199254740993"),
		"u":    sv("uint", "7"),
		"u8":   sv("uint8", "200"),
		"u64":  sv("uint64", "18446744073709551615"),
		"f32":  sv("float32", "1.5"),
		"f64":  sv("float64", "0.1"),
		"nan":  sv("float64", "NaN"),
		"inf":  sv("float64", "+Inf"),
		"dec":  sv("dec", "12.50"),
		"t":    {K: "time", S: "2024-02-29T12:34:56.789Z", Z: "Asia/Shanghai"},
		"arr":  {K: "slice", L: []spec.V{sv("int", "1"), sv("string", "a"), {K: "nil"}}},
		"earr": {K: "slice"},
		"strs": {K: "strs", L: []spec.V{sv("string", "b"), sv("string", "c"), sv("string", "a")}},
		"ints": {K: "ints", L: []spec.V{sv("int", "3"), sv("int", "1"), sv("int", "2")}},
		"maps": {K: "maps", L: []spec.V{{K: "map", M: map[string]spec.V{"k": sv("int", "1")}}, {K: "map", M: map[string]spec.V{"k": sv("string", "v")}}}},
		"m": {K: "map", M: map[string]spec.V{"a": sv("int", "1"), "n": {K: "nil"}, "s": sv("string", "x"),
			"b": {K: "map", M: map[string]spec.V{"c": sv("string", "deep"), "z": sv("int", "0")}}}},
		"mi":   {K: "mapint", M: map[string]spec.V{"a": sv("int", "0"), "b": sv("int", "2")}},
		"ms":   {K: "mapstr", M: map[string]spec.V{"a": sv("string", ""), "b": sv("string", "x")}},
		"mik":  {K: "mapintkey", M: map[string]spec.V{"1": sv("string", "one")}},
		"st":   {K: "struct", M: map[string]spec.V{"Name": sv("string", "Ann"), "Age": sv("int", "30"), "Score": sv("float64", "1.25"), "Label": sv("string", "in"), "N": sv("int", "5"), "P": sv("string", "p")}},
		"pst":  {K: "pstruct", M: map[string]spec.V{"Name": sv("string", "Bob")}},
		"np":   {K: "nilptr"},
		"ns":   {K: "nilS"},
		"ndec": {K: "nildec"}, // (*decimal.Big)(nil)
		"fnND": {K: "func", F: &spec.Fn{Name: "fnND", Ret: "nildec"}},
		"nsl":  {K: "nilstrs"},   // []string(nil)
		"nmp":  {K: "nilmap"},    // map[string]interface{}(nil)
		"nmi":  {K: "nilmapint"}, // map[string]int(nil)
		"t0":   {K: "time", S: "0001-01-01T00:00:00Z"},
		"fn0":  {K: "func", F: &spec.Fn{Name: "fn0", Ret: "int", RetS: "7"}},
		"fnS":  {K: "func", F: &spec.Fn{Name: "fnS", Params: []string{"string"}, Ret: "arg0"}},
		"fnI":  {K: "func", F: &spec.Fn{Name: "fnI", Params: []string{"int"}, Ret: "arg0"}},
		"fnA":  {K: "func", F: &spec.Fn{Name: "fnA", Params: []string{"any"}, Ret: "arg0"}},
		"fnV":  {K: "func", F: &spec.Fn{Name: "fnV", Params: []string{"int"}, Variadic: true, Ret: "echo"}},
		"fnSV": {K: "func", F: &spec.Fn{Name: "fnSV", Params: []string{"string", "any"}, Variadic: true, Ret: "echo"}},
		"fnE":  {K: "func", F: &spec.Fn{Name: "fnE", Params: []string{"any"}, Ret: "nil", Err: "boom"}},
		"fnSl": {K: "func", F: &spec.Fn{Name: "fnSl", Params: []string{"[]int"}, Ret: "echo"}},
		"fnM":  {K: "func", F: &spec.Fn{Name: "fnM", Params: []string{"map[string]int"}, Ret: "echo"}},
		"fnT":  {K: "func", F: &spec.Fn{Name: "fnT", Params: []string{"time"}, Ret: "arg0"}},
		"fnC":  {K: "func", F: &spec.Fn{Name: "fnC", Ctx: true, Params: []string{"float64"}, Ret: "arg0"}},
		"fn1":  {K: "func", F: &spec.Fn{Name: "fn1", Ret: "int", RetS: "1", NOut: 1}},
		"fn3":  {K: "func", F: &spec.Fn{Name: "fn3", Ret: "int", RetS: "1", NOut: 3}},
		"fnU":  {K: "func", F: &spec.Fn{Name: "fnU", Params: []string{"uint8"}, Ret: "arg0"}},
		"fnSt": {K: "func", F: &spec.Fn{Name: "fnSt", Params: []string{"S1"}, Ret: "nil"}},
		"$loc": sv("int", "5"),
	}
}

// builtin names with their documented fixed arity (-1 = variadic).
var builtinArity = map[string]int{
	"now": 0, "toDay": 0, "date": 3, "addDate": 4, "year": 1, "month": 1, "day": 1, "hour": 1, "minute": 1, "second": 1,
	"millSecond": 1, "weekDay": 1, "timeFormat": 2, "useTimezone": 2,
	"abs": 1, "ceil": 1, "exp": 1, "floor": 1, "ln": 1, "log": 1, "max": -1, "min": -1, "round": 1, "roundBank": 1, "roundCash": 2,
	"sqrt": 1, "finite": 1,
	"startWith": 2, "endWith": 2, "contains": 2, "find": 2, "includes": 2, "left": 2, "right": 2, "len": 1, "lower": 1, "upper": 1,
	"lpad": 3, "rpad": 3, "mid": 3, "replace": 3, "trim": 1, "regexp": 2, "mapToArr": 2, "join": 2,
	"toString": 1, "toInt": 1, "toFloat": 1,
}

func builtinNames() []string {
	var out []string
	for k := range builtinArity {
		out = append(out, k)
	}
	sortStrings(out)
	return out
}
