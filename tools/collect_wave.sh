#!/bin/bash
# usage: tools/collect_wave.sh <letter>  - evaluates every finished seed of the wave against its property's quick check
L=$1
for f in /tmp/seeded/C??$L/meta.json; do d=$(basename $(dirname $f)); p=${d%?}; [ -f /tmp/seeded/$d/eval.txt ] && continue
  out=$(/verif/tools/try_seed.sh /tmp/seeded/$d $p 2>&1); echo "$out" > /tmp/seeded/$d/eval.txt
  ok=$(echo "$out" | grep -c "demo with patch: FAIL"); ok2=$(echo "$out" | grep -c "demo without patch: ok"); ok3=$(echo "$out" | grep -c "suite with patch: ok")
  echo "$d valid=$ok$ok2$ok3 caught=$(echo "$out" | grep -c "^check $p .* rc=1") :: $(echo "$out" | grep -A1 '^check' | sed -n '2p' | cut -c1-220)"
done
