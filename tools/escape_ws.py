#!/usr/bin/env python3
"""Replace raw exotic whitespace characters in Go sources by \\u escapes (they only occur inside interpreted string literals)."""
import sys
for p in sys.argv[1:]:
    s = open(p, encoding="utf-8").read()
    o = s
    for cp in (0xA0, 0x2028, 0x2029, 0x85, 0xFEFF, 0x3000, 0x2003, 0x200B, 0x1680, 0x180E):
        s = s.replace(chr(cp), "\\u%04x" % cp)
    if s != o:
        open(p, "w", encoding="utf-8").write(s)
        print("escaped", p)
