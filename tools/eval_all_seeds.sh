#!/bin/bash
# Re-confirms every seeded change under /verif/seeded and runs the target property's quick check
# against it; writes seeded/<id>/verified.txt and prints a summary table.
cd "$(dirname "$0")/.."
for d in seeded/*/; do
  id=$(basename $d)
  prop=$(python3 -c "import json,sys; m=json.load(open('$d/meta.json')); print(m.get('check_with', m['property']))" 2>/dev/null)
  [ -z "$prop" ] && continue
  out=$(tools/try_seed.sh $d $prop ${1:-quick} 2>&1)
  echo "$out" > $d/verified.txt
  caught=$(echo "$out" | grep -c "^check $prop .* rc=1")
  echo "$id $prop caught=$caught $(echo "$out" | grep -E 'suite with|demo with|demo without' | sed 's/github.com.aundis.formula//' | tr -s ' \t' ' ' | tr '\n' ';')"
done
