#!/usr/bin/env python3
"""Regenerates MANIFEST.json from the table below (kept in one place so the file stays schema-valid)."""
import json, os
ROOT = os.path.dirname(os.path.dirname(os.path.abspath(__file__)))
CLAIMED = json.load(open(os.path.join(ROOT, "tools", "claims.json")))
props = [json.loads(l) for l in open(os.path.join(ROOT, "properties.jsonl"))]
checks, na = [], []
for p in props:
    pid = p["id"]
    c = CLAIMED.get(pid)
    if not c:
        na.append({"property_id": pid, "reason": "check not built yet (work in progress); see DESIGN.md section C%s for the planned generated-input check" % pid[1:]})
        continue
    checks.append({
        "property_id": pid,
        "quick_cmd": "./check %s quick" % pid,
        "thorough_cmd": "./check %s thorough" % pid,
        "evidence_file": "/verif/evidence/%s.json" % pid,
        "replay_cmd_template": "./check --replay {path}",
        "engine": "props",
        "level_claimed": {"category": "exploration", "text": c["level"], "design_ref": "DESIGN.md §4 " + pid},
        "level_note": c["note"],
        "technique": c["technique"],
    })
m = {
    "version": 1,
    "setup_cmd": "./check --setup",
    "hooks": {
        "guard": "verif",
        "enable": "no hooks are needed: every check observes the exported API only; the harness module replaces github.com/aundis/formula with /repo so each run compiles the current working tree (a build tag 'verif' is reserved but unused)",
        "baseline_off_cmd": "cd /repo && GOFLAGS=-mod=mod GOPROXY=off GOSUMDB=off go test -json -vet=off -count=1 -timeout 25m ./...",
        "source_commits": [],
        "add_only": True,
    },
    "engines": [{"name": "props", "path": "/verif/props", "serves_properties": [c["property_id"] for c in checks],
                 "kind_free_text": "Go test binary (pgregory.net/rapid v1.3.0 generators, bounded-exhaustive enumerators, native go fuzz targets) driven by /verif/check; reference models in /verif/internal/ref"}],
    "checks": checks,
    "notes": "All checks are property-based tests / fuzzers with explicit oracles; see DESIGN.md. Genuine defects found on the pinned tree were repaired by 'fix:' commits in /repo and are listed in known_findings.json.",
    "not_applicable": na,
}
json.dump(m, open(os.path.join(ROOT, "MANIFEST.json"), "w"), indent=1)
print("claimed", len(checks), "not claimed", len(na))
