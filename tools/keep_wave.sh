#!/bin/bash
# usage: tools/keep_wave.sh <letter> [ids to skip...] - copies the wave's seeds into /verif/seeded and removes the worktrees
L=$1; shift
for i in $(seq -w 1 20); do d=C${i}$L; skip=0; for s in "$@"; do [ "$s" = "$d" ] && skip=1; done
  if [ $skip -eq 0 ] && [ -f /tmp/seeded/$d/meta.json ]; then mkdir -p /verif/seeded/$d; cp /tmp/seeded/$d/patch.diff /tmp/seeded/$d/demo_test.go /tmp/seeded/$d/meta.json /verif/seeded/$d/; cp /tmp/seeded/$d/eval.txt /verif/seeded/$d/verified.txt 2>/dev/null; fi
  git -C /repo worktree remove --force /tmp/wt/$d 2>/dev/null
done
ls /verif/seeded | wc -l
