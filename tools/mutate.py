#!/usr/bin/env python3
"""Mechanical mutation sampling (sensitivity measurement, complements the hand-seeded changes).

  tools/mutate.py gen <outdir> [seed] [n]   - sample n single-token mutants of /repo's non-test sources that
                                             compile and keep the 38-test suite green; write <outdir>/m<k>.diff
  tools/mutate.py run <outdir>              - run every quick check against every mutant (scratch worktree via
                                             VERIF_REPO_DIR); write <outdir>/results.tsv
"""
import os, random, re, subprocess, sys, json, glob

ENV = dict(os.environ, GOFLAGS="-mod=mod", GOPROXY="off", GOSUMDB="off", GOTOOLCHAIN="local")
FILES = ["parser.go", "scanner.go", "runner.go", "resolve.go", "utilities.go", "types.go"]
OPS = [
    (r"==", "!="), (r"!=", "=="), (r"<=", "<"), (r">=", ">"), (r"(?<![<-])<(?![=<-])", "<="), (r"(?<![>-])>(?![=>])", ">="),
    (r"&&", "||"), (r"\|\|", "&&"), (r"\+ 1\b", "- 1"), (r"- 1\b", "+ 1"), (r"\btrue\b", "false"), (r"\bfalse\b", "true"),
    (r"\+=", "-="), (r"\b0\b", "1"), (r"\b1\b", "0"), (r"\b2\b", "3"), (r"!(?=[a-zA-Z(])", ""), (r"\bnil, nil\b", "nil, errors.New(\"x\")"),
    (r"\.Index\(", ".LastIndex("), (r"HasPrefix", "HasSuffix"), (r"HasSuffix", "HasPrefix"), (r"\bcontinue\b", "break"), (r"\bbreak\b", "continue"),
    (r"len\((\w+)\)-1", r"len(\1)"), (r"\bv1\b", "v2"), (r"\bn1\b", "n2"), (r"\bLeft\b", "Right"), (r"\bWhenTrue\b", "WhenFalse"),
    (r"\.Cmp\((\w+)\) == -1", r".Cmp(\1) == 1"), (r"\.Add\(", ".Sub("), (r"\.Mul\(", ".Quo("), (r"\.Floor\(", ".Ceil("), (r"\.Ceil\(", ".Floor("),
    (r"ToLower", "ToUpper"), (r"ToUpper", "ToLower"), (r"\.Year\(\)", ".YearDay()"), (r"\.Hour\(\)", ".Minute()"), (r"\bpos\+1\b", "pos"), (r"\bs\.pos \+= size\b", "s.pos += 1"),
]

def sh(cmd, cwd, timeout=300):
    return subprocess.run(cmd, cwd=cwd, env=ENV, shell=True, stdout=subprocess.PIPE, stderr=subprocess.STDOUT, text=True, timeout=timeout)

def gen(outdir, seed, n):
    os.makedirs(outdir, exist_ok=True)
    rnd = random.Random(seed)
    wt = "/tmp/wt/mutgen_%d" % os.getpid()
    sh("git -C /repo worktree add -q --detach %s HEAD" % wt, "/")
    try:
        sites = []
        for f in FILES:
            lines = open(os.path.join(wt, f)).read().split("\n")
            for li, line in enumerate(lines):
                s = line.strip()
                if not s or s.startswith("//") or s.startswith("import") or s.startswith("package") or "unicodeES5" in line or len(line) > 400:
                    continue
                code = line.split("//")[0]
                for oi, (pat, rep) in enumerate(OPS):
                    for m in re.finditer(pat, code):
                        sites.append((f, li, m.start(), m.end(), oi))
        rnd.shuffle(sites)
        kept, tried = 0, 0
        for (f, li, a, b, oi) in sites:
            if kept >= n:
                break
            tried += 1
            path = os.path.join(wt, f)
            orig = open(path).read()
            lines = orig.split("\n")
            pat, rep = OPS[oi]
            seg = lines[li][a:b]
            new = re.sub(pat, rep, seg, count=1)
            if new == seg:
                continue
            lines[li] = lines[li][:a] + new + lines[li][b:]
            open(path, "w").write("\n".join(lines))
            try:
                r = sh("go build ./... && timeout -s KILL 60 go test -vet=off -count=1 -timeout 50s ./... 2>&1 | tail -1", wt, 180)
                ok = r.returncode == 0 and r.stdout.strip().startswith("ok")
            except subprocess.TimeoutExpired:
                ok = False
            if ok:
                kept += 1
                d = sh("git diff", wt).stdout
                open(os.path.join(outdir, "m%03d.diff" % kept), "w").write(d)
                json.dump({"file": f, "line": li + 1, "from": seg, "to": new, "text": orig.split("\n")[li].strip()[:160]}, open(os.path.join(outdir, "m%03d.json" % kept), "w"))
            open(path, "w").write(orig)
            sh("git checkout -q go.sum", wt)
        print("sites", len(sites), "tried", tried, "kept", kept)
    finally:
        sh("git -C /repo worktree remove --force %s" % wt, "/")

def run(outdir):
    res = open(os.path.join(outdir, "results.tsv"), "a")
    done = set(l.split("\t")[0] for l in open(os.path.join(outdir, "results.tsv"))) if os.path.getsize(os.path.join(outdir, "results.tsv")) else set()
    for d in sorted(glob.glob(os.path.join(outdir, "m*.diff"))):
        name = os.path.basename(d)[:-5]
        if name in done:
            continue
        wt = "/tmp/wt/mutrun_%d" % os.getpid()
        sh("git -C /repo worktree add -q --detach %s HEAD" % wt, "/")
        try:
            if sh("git apply %s" % d, wt).returncode != 0:
                res.write("%s\tAPPLY-FAILED\n" % name); continue
            killed = []
            meta = json.load(open(d[:-5] + ".json"))
            first = {"scanner.go": [14, 12, 13, 15, 1, 2], "parser.go": [2, 1, 15, 14], "resolve.go": [10, 8], "types.go": [14, 2, 1],
                     "utilities.go": [6, 16, 10, 15, 5, 3], "runner.go": [3, 11, 16, 17, 18, 4, 5, 6, 7, 19, 20, 8, 10, 12, 13]}.get(meta["file"], [])
            order = first + [i for i in range(1, 21) if i not in first]
            for i in order:
                if killed and not os.environ.get("MUT_ALL"):
                    break  # first kill is enough for the score; MUT_ALL=1 runs every check
                pid = "C%02d" % i
                r = subprocess.run(["./check", pid, "quick"], cwd="/verif", env=dict(os.environ, VERIF_REPO_DIR=wt, VERIF_SEED="1"), stdout=subprocess.PIPE, stderr=subprocess.STDOUT, text=True)
                if r.returncode == 1:
                    killed.append(pid)
                elif r.returncode != 0:
                    killed.append(pid + "?")
            res.write("%s\t%s\t%s:%d\t%s -> %s\t%s\n" % (name, ",".join(killed) or "SURVIVED", meta["file"], meta["line"], meta["from"], meta["to"], meta["text"]))
            res.flush()
        finally:
            sh("git -C /repo worktree remove --force %s" % wt, "/")

if __name__ == "__main__":
    if sys.argv[1] == "gen":
        gen(sys.argv[2], int(sys.argv[3]) if len(sys.argv) > 3 else 1, int(sys.argv[4]) if len(sys.argv) > 4 else 100)
    else:
        out = sys.argv[2]
        open(os.path.join(out, "results.tsv"), "a").close()
        run(out)
