#!/bin/bash
# usage: tools/new_wave.sh <letter>   - prepares scratch worktrees /tmp/wt/C??<letter> and /tmp/seeded/C??<letter>/
# (property.json + already_tried.txt from all kept seeds) for a new wave of seeded changes.
L=$1
cd /repo && for i in $(seq -w 1 20); do git worktree add -q --detach /tmp/wt/C${i}$L HEAD && mkdir -p /tmp/seeded/C${i}$L; done
cd /verif && python3 - "$L" <<'PY'
import json,sys,glob,os
L=sys.argv[1]
props={json.loads(l)['id']:json.loads(l) for l in open('/verif/properties.jsonl')}
for i in range(1,21):
    pid='C%02d'%i
    json.dump(props[pid],open('/tmp/seeded/%s%s/property.json'%(pid,L),'w'),indent=1)
    out=[]
    for d in sorted(glob.glob('/verif/seeded/%s?'%pid)):
        try: out.append("- "+json.load(open(d+'/meta.json')).get('summary',''))
        except Exception: pass
    open('/tmp/seeded/%s%s/already_tried.txt'%(pid,L),'w').write("\n".join(out)+"\n")
print("prepared wave",L)
PY
