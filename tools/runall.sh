#!/bin/bash
# usage: tools/runall.sh quick|thorough [seed]   - runs every check, prints one line each
tier=${1:-quick}; seed=${2:-1}
cd "$(dirname "$0")/.."
fail=0
for i in $(seq -w 1 20); do
  id=C$i
  out=$(VERIF_SEED=$seed ./check $id $tier 2>&1); rc=$?
  echo "$id rc=$rc $(echo "$out" | grep -E '^(OK|VIOLATION|INCONCLUSIVE|KNOWN-FINDING|BUILD)' | head -3 | cut -c1-200 | tr '\n' ' ')"
  [ $rc -ne 0 ] && fail=1
done
exit $fail
