#!/bin/bash
# usage: tools/try_benign.sh <patch.diff>  - applies a property-preserving change to a scratch worktree
# and runs every quick check against it; any VIOLATION is a candidate false alarm.
set -u
ROOT=$(cd "$(dirname "$0")/.." && pwd)
PATCH=$(realpath "$1")
export GOFLAGS=-mod=mod GOPROXY=off GOSUMDB=off GOTOOLCHAIN=local
WT=/tmp/wt/benign_eval_$$
git -C /repo worktree add -q --detach $WT HEAD || exit 3
trap 'git -C /repo worktree remove --force $WT 2>/dev/null' EXIT
cd $WT
git apply "$PATCH" 2>/dev/null || git apply -3 "$PATCH" || { echo PATCH-DOES-NOT-APPLY; exit 3; }; git reset -q 2>/dev/null
echo "suite: $(go test -vet=off -count=1 ./... 2>&1 | tail -1)"
git checkout -q go.sum 2>/dev/null
cd "$ROOT"
for i in $(seq -w 1 20); do
  out=$(VERIF_REPO_DIR=$WT VERIF_SEED=${VERIF_SEED:-1} ./check C$i quick 2>&1); rc=$?
  if [ $rc -ne 0 ]; then echo "C$i rc=$rc"; echo "$out" | grep -A3 -E '^(VIOLATION|INCONCLUSIVE|BUILD)' | head -8 | cut -c1-400; fi
done
echo "benign-eval-done $(basename $PATCH)"
