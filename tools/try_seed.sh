#!/bin/bash
# usage: tools/try_seed.sh <seed-dir> <property-id> [tier] [extra property ids...]
# Applies <seed-dir>/patch.diff to a scratch worktree of /repo, confirms the claim
# (suite passes, demo fails with / passes without), then runs the check(s) against it.
set -u
ROOT=$(cd "$(dirname "$0")/.." && pwd)
D=$(realpath "$1"); P=$2; TIER=${3:-quick}; shift; shift; shift || true
export GOFLAGS=-mod=mod GOPROXY=off GOSUMDB=off GOTOOLCHAIN=local
WT=/tmp/wt/eval_$$
git -C /repo worktree add -q --detach $WT HEAD || exit 3
cleanup() { git -C /repo worktree remove --force $WT 2>/dev/null; }
trap cleanup EXIT
cd $WT
demo=$(ls "$D"/*_test.go 2>/dev/null | head -1)
race=""; grep -qi 'race' "$D/meta.json" 2>/dev/null && race="-race"
if [ -n "$demo" ]; then
  cp "$demo" $WT/zz_demo_test.go
  without=$(go test $race -vet=off -count=1 -run 'TestDemo' ./... 2>&1 | tail -1); echo "demo without patch: $without"
  rm -f $WT/zz_demo_test.go
fi
git checkout -q -- . 2>/dev/null
if ! git apply "$D/patch.diff" 2>/dev/null && ! git apply -3 "$D/patch.diff"; then echo "PATCH-DOES-NOT-APPLY"; exit 3; fi; git reset -q 2>/dev/null
if git diff --name-only | grep -q '_test.go'; then echo "PATCH-TOUCHES-TESTS"; fi
suite=$(go test -vet=off -count=1 ./... 2>&1 | tail -1); echo "suite with patch: $suite"
if [ -n "$demo" ]; then
  cp "$demo" $WT/zz_demo_test.go
  with=$(go test $race -vet=off -count=1 -run 'TestDemo' ./... 2>&1 | tail -1); echo "demo with patch: $with"
  rm -f $WT/zz_demo_test.go
fi
git checkout -q go.sum 2>/dev/null
if git diff --quiet; then echo "PATCH-NOT-APPLIED-AT-CHECK-TIME"; exit 3; fi
echo "patched files: $(git diff --name-only | tr '\n' ' ')"
cd "$ROOT"
for prop in $P "$@"; do
  out=$(VERIF_REPO_DIR=$WT VERIF_SEED=${VERIF_SEED:-1} ./check $prop $TIER 2>&1); rc=$?
  echo "check $prop $TIER rc=$rc: $(echo "$out" | grep -E '^(OK|VIOLATION|INCONCLUSIVE|BUILD)' | head -2 | cut -c1-160 | tr '\n' ' ')"
  echo "$out" | grep -A2 '^VIOLATION' | sed -n '2,3p' | cut -c1-300
done
